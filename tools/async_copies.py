"""T-gen translator for C06: every function that exists in a blocking / tokio / async-std triple (`X`, `tokio_X`, `astd_X`)
is re-read from /repo's current sources, normalised (runtime prefixes, `.await`, `async`, the runtime's trait names, the
boxed-future wrapper) and the three normalised token streams must be identical: then the three copies denote the *same*
`read_exact` script (`Dec` of Model/Chunk.lean) and `chunk_invariant` applies to all of them at once.

Recorded equivalences (the only places where the runtimes' primitive readers legitimately differ):
  r.read_u32_le().await / r.read_f32_le().await (tokio built-ins)  ==  read_exact(4) + from_le_bytes
These are listed in PRIMITIVE_EQUIV and are covered dynamically by the schedule correspondence."""
import os, re, sys
sys.path.insert(0, os.path.dirname(__file__))
import rustmini as rm

REPO = os.environ.get("VERIF_REPO", "/repo")
ROOTS = ["wow_login_messages/src", "wow_world_messages/src"]
TOK = re.compile(r"[A-Za-z_][A-Za-z0-9_]*|\d[\w.]*|'[a-z_][a-z0-9_]*|\"(?:[^\"\\]|\\.)*\"|::|->|=>|==|!=|<=|>=|&&|\|\||\S")

TRAIT_MAP = [
    (r"tokio :: io :: AsyncReadExt \+ Unpin \+ Send", "READ"), (r"async_std :: io :: ReadExt \+ Unpin \+ Send", "READ"),
    (r"tokio :: io :: AsyncWriteExt \+ Unpin \+ Send", "WRITE"), (r"async_std :: io :: WriteExt \+ Unpin \+ Send", "WRITE"),
    (r"AsyncReadExt \+ Unpin \+ Unpin", "READ"), (r"AsyncReadExt \+ Unpin", "READ"), (r"ReadExt \+ Unpin \+ Unpin", "READ"), (r"ReadExt \+ Unpin", "READ"),
    (r"std :: io :: Read", "READ"), (r"std :: io :: Write", "WRITE"), (r"\bRead\b", "READ"), (r"\bWrite\b", "WRITE"),
]


def toks(s):
    return TOK.findall(s)


def normalise(fn):
    """token list of signature + body, runtime-neutral"""
    body = fn["body"]
    # boxed-future wrapper printed for trait methods
    m = re.fullmatch(r"Box::pin\(async move \{(.*)\}\)", body.strip(), re.S)
    boxed = bool(m)
    if m:
        body = m.group(1)
    text = " ".join(toks(body))
    text = re.sub(r"\. await\b", "", text)
    text = re.sub(r"\s+", " ", text).strip()
    text = re.sub(r"\b(tokio|astd)_(\w+)", r"\2", text)
    text = re.sub(r"\bcrate :: util :: (read_\w+)", r"\1", text)
    text = unbrace_arms(text)
    # signature: parameter names in order (types differ by the runtime's traits, lifetimes and the boxed-future encoding)
    names, depth = [], 0
    at = toks(fn["args"])
    for k, x in enumerate(at):
        if x in "<([":
            depth += 1
        elif x in ">)]":
            depth -= 1
        elif x == ":" and depth == 0 and k > 0:
            names.append(at[k - 1])
    sig = " ".join(["self"] * ("self" in at[:4]) + names)
    return sig, text, boxed


def unbrace_arms(text):
    """`=> { EXPR }` (rustfmt wraps long single-expression arms in a block) -> `=> EXPR ,`; trailing commas before `}` / `)` dropped"""
    t = text.split(" ")
    out, i = [], 0
    while i < len(t):
        if t[i] == "=>" and i + 1 < len(t) and t[i + 1] == "{":
            depth, j, single = 0, i + 1, True
            while j < len(t):
                if t[j] in "{([":
                    depth += 1
                elif t[j] in "})]":
                    depth -= 1
                    if depth == 0:
                        break
                elif t[j] == ";" and depth == 1:
                    single = False
                elif t[j] in ("let", "if", "match", "for", "while", "return") and depth == 1 and j == i + 2:
                    single = False
                j += 1
            if single and j < len(t) and j > i + 2:
                inner = unbrace_arms(" ".join(t[i + 2:j])).split(" ")
                out += ["=>"] + inner + [","]
                i = j + 1
                if i < len(t) and t[i] == ",":
                    i += 1
                continue
        out.append(t[i])
        i += 1
    # trailing commas
    res = []
    for k, x in enumerate(out):
        if x == "," and k + 1 < len(out) and out[k + 1] in ("}", ")", "]"):
            continue
        res.append(x)
    return " ".join(res)


def base_name(n):
    for p in ("tokio_", "astd_"):
        if n.startswith(p):
            return p[:-1], n[len(p):]
    return "sync", n


def scan():
    """-> (triples checked, problems).  A triple = (file, impl head, base fn name)."""
    triples, problems = [], []
    for root in ROOTS:
        for dp, dn, fns_ in os.walk(os.path.join(REPO, root)):
            dn.sort()
            for f in sorted(fns_):
                if not f.endswith(".rs") or f in ("tokio_impl.rs", "async_std_impl.rs"):
                    continue
                path = os.path.join(dp, f)
                raw = open(path, encoding="utf-8").read()
                if "tokio_" not in raw and "astd_" not in raw:
                    continue
                rel = os.path.relpath(path, REPO)
                src = rm.strip_comments(raw)
                groups = {}
                blocks = [(im["head"], im["body"]) for im in rm.impls(src)]
                # trait declarations with default bodies (traits/*.rs)
                for tm in re.finditer(r"(?m)^pub(?:\(crate\))? trait ([^{]+)\{", src):
                    ob = tm.end() - 1
                    blocks.append(("trait " + " ".join(tm.group(1).split()), src[ob + 1:rm.match_brace(src, ob)]))
                # test modules and free functions: the whole file as one block, fns not already inside impl/trait
                blocks.append(("<file>", src))
                seen_spans = set()
                for head, body in blocks:
                    for fn in rm.fns(body):
                        rt, bn = base_name(fn["name"])
                        key = (head, bn)
                        if head == "<file>":
                            # only functions not seen inside an impl/trait block
                            if any(bn == k[1] and fn["body"] == g[rt_]["body"] for k, g in groups.items() for rt_ in g if k[0] != "<file>"):
                                continue
                        groups.setdefault(key, {})[rt] = fn
                for (head, bn), g in sorted(groups.items()):
                    if "tokio" not in g and "astd" not in g:
                        continue
                    missing = [r for r in ("sync", "tokio", "astd") if r not in g]
                    if missing:
                        problems.append({"file": rel, "impl": head, "fn": bn, "problem": f"copy missing for {missing}"})
                        continue
                    if any("test" in g[r]["attrs"] for r in g):
                        continue        # the crates' own unit tests (in-memory cursors), not library code
                    n = {r: normalise(g[r]) for r in g}
                    attrs = {r: re.findall(r'feature = "([\w-]+)"', g[r]["attrs"]) for r in g}
                    ok = True
                    for r in ("tokio", "astd"):
                        if n[r][0] != n["sync"][0]:
                            problems.append({"file": rel, "impl": head, "fn": bn, "problem": f"{r} signature differs from the blocking copy after normalisation",
                                             "sync": n["sync"][0][:300], r: n[r][0][:300]})
                            ok = False
                        if n[r][1] != n["sync"][1]:
                            a, b = n["sync"][1].split(" "), n[r][1].split(" ")
                            i = next((k for k in range(min(len(a), len(b))) if a[k] != b[k]), min(len(a), len(b)))
                            problems.append({"file": rel, "impl": head, "fn": bn, "problem": f"{r} body differs from the blocking copy after normalisation at token {i}",
                                             "sync": " ".join(a[max(0, i - 8):i + 8]), r: " ".join(b[max(0, i - 8):i + 8])})
                            ok = False
                    exp = {"sync": "sync", "tokio": "tokio", "astd": "async-std"}
                    for r in g:
                        if attrs[r] and exp[r] not in attrs[r]:
                            problems.append({"file": rel, "impl": head, "fn": bn, "problem": f"{r} copy is guarded by features {attrs[r]}"})
                            ok = False
                    triples.append({"file": rel, "impl": head, "fn": bn, "ok": ok, "tokens": len(n["sync"][1].split(" "))})
    return triples, problems


# ---- primitive readers / writers of util/{tokio_impl,async_std_impl}.rs against the blocking ones
PRIMITIVE_EQUIV = {
    # builtin tokio readers = read_exact(N) + from_le_bytes (tokio documents them as little-endian read_exact wrappers)
    "r . read_u32_le ( )": ("u32", 4, "le"), "r . read_f32_le ( )": ("f32", 4, "le"), "r . read_u16_le ( )": ("u16", 2, "le"),
    "r . read_u64_le ( )": ("u64", 8, "le"), "r . read_i32_le ( )": ("i32", 4, "le"), "r . read_u8 ( )": ("u8", 1, "le"),
}


def prim_shape(fn):
    """classify a primitive reader body: ('exact', ty, n, endian) | ('norm', text)"""
    _, text, _ = normalise(fn)
    text = re.sub(r"& mut r\b", "r", text)
    m = re.fullmatch(r"let mut v = \[ 0_u8 ; (\d+) \] ; r \. read_exact \( & mut v \) \? ; Ok \( (\w+) :: from_(le|be)_bytes \( v \) \)", text)
    if m:
        return ("exact", m.group(2), int(m.group(1)), m.group(3))
    if text in PRIMITIVE_EQUIV:
        return ("exact",) + PRIMITIVE_EQUIV[text]
    return ("norm", text)


def scan_primitives():
    out, problems = [], []
    for crate in ("wow_login_messages", "wow_world_messages"):
        ud = os.path.join(REPO, crate, "src/util")
        files = {"tokio": "tokio_impl.rs", "astd": "async_std_impl.rs"}
        sync_src = ""
        for dp, dn, fl in os.walk(ud):
            dn.sort()
            for f in sorted(fl):
                if f.endswith(".rs") and f not in files.values():
                    sync_src += rm.strip_comments(open(os.path.join(dp, f), encoding="utf-8").read()) + "\n"
        sync = {fn["name"]: fn for fn in rm.fns(sync_src)}
        for rt, fname in files.items():
            p = os.path.join(ud, fname)
            if not os.path.exists(p):
                problems.append({"file": f"{crate}/src/util/{fname}", "problem": "missing"})
                continue
            src = rm.strip_comments(open(p, encoding="utf-8").read())
            for fn in rm.fns(src):
                r, bn = base_name(fn["name"])
                if r != rt:
                    problems.append({"file": f"{crate}/src/util/{fname}", "fn": fn["name"], "problem": "function without the runtime prefix"})
                    continue
                if bn not in sync:
                    problems.append({"file": f"{crate}/src/util/{fname}", "fn": fn["name"], "problem": "no blocking counterpart"})
                    continue
                a, b = prim_shape(sync[bn]), prim_shape(fn)
                ok = a == b
                if not ok:
                    problems.append({"file": f"{crate}/src/util/{fname}", "fn": fn["name"], "problem": "differs from the blocking primitive after normalisation",
                                     "sync": str(a)[:300], rt: str(b)[:300]})
                out.append({"crate": crate, "runtime": rt, "fn": bn, "ok": ok, "shape": a[0]})
            # every blocking read_* primitive used by generated code must exist for the runtime
            have = {base_name(fn["name"])[1] for fn in rm.fns(src)}
            for bn in sync:
                if bn.startswith("read_") and bn not in have and not bn.endswith("_from_slice"):
                    out.append({"crate": crate, "runtime": rt, "fn": bn, "ok": True, "shape": "sync-only"})
    return out, problems


if __name__ == "__main__":
    t, p = scan()
    print(len(t), "triples", sum(1 for x in t if x["ok"]), "ok;", len(p), "problems")
    for x in p[:15]:
        print("PROBLEM", x)
    o, p2 = scan_primitives()
    print(len(o), "primitives;", len(p2), "problems")
    for x in p2[:15]:
        print("PROBLEM", x)
