"""T-gen for the generated `size()` functions: every `pub(crate) fn size(&self) -> usize` of a generated message / struct is a sum with one
term per member of the definition; the terms are translated into the syntax of Model/SizeFn.lean (`SzT`):

    c N        a literal (also a constant product)                      lp K      x.len() + K
    pg         crate::util::packed_guid_size(&x)                        pr NAME   size of a hand-written built-in type
    lt K       x.len() * K                                              call … end   x.size() of a generated struct (its own terms)
    fold T     x.iter().fold(0, |acc, x| acc + T(x))

The driver compares the term list with `szMs` of the definition (`sizeeq`; Thm/C07b.lean `size_matches_sound`).  Outside the translated
subset (reported as such, never as equal): types with conditional members (the synthesised enum / flag types and `if let Some`),
compressed members."""
import os, re, sys
sys.path.insert(0, os.path.dirname(__file__))
import rust_codec
from rust_codec import EXPS, PRIM_VERSIONED

PRIMS = {"UpdateMask", "AuraMask", "EnchantMask", "InspectTalentGearMask", "CacheMask", "NamedGuid", "VariableItemRandomProperty"}
W = {"u8": 1, "u16": 2, "u32": 4, "u64": 8, "i8": 1, "i16": 2, "i32": 4, "i64": 8, "f32": 4}


class Outside(Exception):
    pass


class Unreadable(Exception):
    pass


def prim_name(ctx, t):
    return t + ("_" + (ctx[5:] if ctx.startswith("login") else "_".join(map(str, EXPS[ctx]))) if t in PRIM_VERSIONED else "")


def size_body(src, name):
    m = re.search(r"impl " + name + r" \{\n    pub(?:\(crate\))? (?:const )?fn size\(&self\) -> usize \{\n(.*?)\n    \}\n\}", src, re.S)
    return m.group(1) if m else None


def split_terms(body, ind=8):
    """terms of a sum printed one per line at indentation `ind`; each term keeps its raw continuation lines"""
    terms, cur = [], None
    pad = " " * ind
    for l in body.split("\n"):
        if re.match(pad + r"(\+ )?\S", l) and not l.startswith(pad + "}"):
            if cur is not None:
                terms.append(cur)
            cur = [l.strip(), []]
        elif cur is not None:
            cur[1].append(l)
    if cur:
        terms.append(cur)
    return terms


def const_expr(code):
    if re.fullmatch(r"[\d\s*]+", code) and re.search(r"\d", code):
        v = 1
        for x in code.split("*"):
            v *= int(x)
        return v
    return None


class SizeTranslator:
    def __init__(self, ix=None):
        self.ix = ix or rust_codec.Index()

    def elem_type(self, ty):
        ty = ty.strip()
        m = re.fullmatch(r"Vec<(.+)>", ty) or re.fullmatch(r"\[(.+); [\w:]+\]", ty) or re.fullmatch(r"Box<\[(.+); [\w:]+\]>", ty)
        return (m.group(1) if m else ty).split("::")[-1].strip()

    def of_type(self, ctx, tname, depth=0):
        """term list of the size() of generated type `tname` (a struct with a size function)"""
        if depth > 12:
            raise Unreadable("recursion")
        path = self.ix.defs.get((ctx, tname))
        if path is None:
            raise Unreadable(f"type {tname} not found")
        src = self.ix.src(path)
        decls = rust_codec.parse_decls(src)
        d = decls.get(tname)
        if d is None:
            raise Unreadable(f"no declaration of {tname}")
        if d[0] != "struct":
            raise Outside(f"{tname} is a synthesised enum (conditional members)")
        if "inner" in d[1]:
            raise Outside(f"{tname} is a synthesised flag type (conditional members)")
        body = size_body(src, tname)
        if body is None:
            raise Unreadable(f"{tname} has no size()")
        return self.terms(ctx, body, d[1], depth, decls)

    def terms(self, ctx, body, fields, depth, decls=None, ind=8):
        out = []
        for t, cont in split_terms(body, ind):
            t = re.sub(r"^\+ ", "", t)
            mo = re.fullmatch(r"if let Some\((\w+)\) = &self\.(\w+) \{", t)
            if mo:
                # optional tail: `if let Some(x) = &self.x { <terms over x.…> } else { 0 }`
                tail = [c.strip() for c in cont if c.strip()]
                if tail[-3:] != ["} else {", "0", "}"]:
                    raise Unreadable(f"optional member: `{' '.join(tail[-3:])}`")
                inner = [c for c in cont if c.strip()][:-3]
                ot = self.elem_type(re.sub(r"^Option<(.+)>$", r"\1", fields.get(mo.group(2), "").strip()))
                od = (decls or {}).get(ot)
                if od is None or od[0] != "struct":
                    raise Unreadable(f"optional member type {ot}")
                ibody = "\n".join(re.sub(r"\b" + mo.group(1) + r"\.", "self.", c) for c in inner)
                out += ["opt"] + self.terms(ctx, ibody, od[1], depth + 1, decls, ind + 4) + ["end"]
                continue
            t = t + " " + " ".join(c.strip() for c in cont)
            t = t.strip()
            code, _, comment = t.partition(" // ")
            code = code.strip()
            cty = comment.split(": ", 1)[1].strip() if ": " in comment else ""
            base = re.sub(r"\[.*\]$", "", cty)
            v = const_expr(code)
            if v is not None:
                out += ["c", str(v)]
                continue
            if base in ("AchievementDoneArray", "AchievementInProgressArray"):
                want = r"self\.\w+\.len\(\) \* 8 \+ 4" if base == "AchievementDoneArray" else r"self\.\w+\.iter\(\)\.fold\(0, \|acc, x\| acc \+ x\.size\(\)\) \+ 4"
                if not re.fullmatch(want, code):
                    raise Unreadable(f"size of {base}: `{code}`")
                out += ["pr", base]
                continue
            if re.fullmatch(r"crate::util::monster_move_spline_size\(self\.\w+\.as_slice\(\)\)", code):
                out += ["pr", "MonsterMoveSplines"]
                continue
            m = re.fullmatch(r"self\.(\w+)\.len\(\) \+ (\d+)", code)
            if m:
                out += ["lp", m.group(2)]
                continue
            if re.fullmatch(r"crate::util::packed_guid_size\(&self\.\w+\)", code):
                out += ["pg"]
                continue
            m = re.fullmatch(r"self\.(\w+)\.len\(\) \*\s+(?:(\d+)|core::mem::size_of::<(\w+)>\(\))", code)
            if m:
                if m.group(3) and m.group(3) not in W:
                    raise Unreadable(f"size_of::<{m.group(3)}>")
                k = int(m.group(2) or W[m.group(3)])
                fa = re.fullmatch(r"\[.+; (\d+)\]", fields.get(m.group(1), "").strip())
                if base == "AddonArray":
                    out += ["pr", prim_name(ctx, "AddonArray")]
                elif fa:
                    out += ["c", str(int(fa.group(1)) * k)]      # a Rust array `[T; N]` has exactly N elements
                else:
                    out += ["lt", str(k)]
                continue
            m = re.fullmatch(r"self\.(\w+)\.iter\(\)\.fold\(0, \|acc, x\| acc \+ (.+)\)", code)
            if m:
                inner = m.group(2)
                if inner == "x.size()":
                    et = self.elem_type(fields.get(m.group(1), ""))
                    if et in PRIMS:
                        out += ["fold", "pr", prim_name(ctx, et)]
                    else:
                        out += ["fold", "call"] + self.of_type(ctx, et, depth + 1) + ["end"]
                elif re.fullmatch(r"x\.len\(\) \+ (\d+)", inner):
                    out += ["fold", "lp", inner.split("+")[1].strip()]
                elif inner in ("crate::util::packed_guid_size(x)", "crate::util::packed_guid_size(&x)"):
                    out += ["fold", "pg"]
                else:
                    raise Unreadable(f"fold over `{inner}`")
                continue
            m = re.fullmatch(r"self\.(\w+)\.size\(\)", code)
            if m:
                ft = self.elem_type(fields.get(m.group(1), ""))
                if ft in PRIMS:
                    out += ["pr", prim_name(ctx, ft)]
                else:
                    out += ["call"] + self.of_type(ctx, ft, depth + 1) + ["end"]
                continue
            if code.startswith("(match self") or code.startswith("if let Some") or code.startswith("{"):
                raise Outside("conditional members")
            if "zlib_compressed_size" in code or code in ("use crate::traits::Message;", "let mut v = Vec::new();", "v.len()") or "(&mut v);" in code:
                raise Outside("compressed")
            raise Unreadable(f"size term `{code[:100]}`")
        return out

    def message(self, ctx, path, name):
        """-> tokens | None (no size function: constant-sized) ; raises Outside / Unreadable"""
        src = self.ix.src(path)
        decls = rust_codec.parse_decls(src)
        d = decls.get(name)
        body = size_body(src, name)
        if body is None:
            return None
        if d is None or d[0] != "struct":
            raise Outside(f"{name} is not a plain struct")
        return self.terms(ctx, body, d[1], 0, decls)


def translate_all(ix=None, only=None):
    tr = SizeTranslator(ix)
    out = []
    for ctx, path in rust_codec.message_files():
        src = tr.ix.src(path)
        name = re.search(r"(?m)^pub (?:struct|enum) (\w+)", src).group(1)
        if only is not None and not only(name):
            continue
        d = {"ctx": ctx, "rust_type": name, "file": os.path.relpath(path, rust_codec.REPO)}
        try:
            t = tr.message(ctx, path, name)
            if t is None:
                d["constant"] = True
            else:
                d["tokens"] = t
        except Outside as ex:
            d["outside"] = str(ex)
        except Unreadable as ex:
            d["unreadable"] = str(ex)
        out.append(d)
    return out


if __name__ == "__main__":
    import collections
    res = translate_all()
    c = collections.Counter("tokens" if "tokens" in d else "constant" if "constant" in d else "outside" if "outside" in d else "unreadable" for d in res)
    print(c)
    u = collections.Counter(d["unreadable"][:70] for d in res if "unreadable" in d)
    for k, v in u.most_common(20):
        print(v, k)
    o = collections.Counter(d["outside"][:50] for d in res if "outside" in d)
    print(o.most_common(8))
