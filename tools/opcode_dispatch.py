"""T-gen for the opcode enums (world: wow_world_messages/src/world/<exp>/opcodes.rs): the dispatch of every generated reader and writer
of ClientOpcodeMessage / ServerOpcodeMessage, re-read from the current sources.

Obligations (all syntactic, one per arm):
 * read_opcodes: the arm for opcode N builds variant X from the reader of type X (`<X as crate::Message>::read_body` or, for an empty body,
   `assert_empty(.., "X").map(|_| Self::X)`), and `const OPCODE` of X's own file is N;
 * every `[tokio_|astd_]write_{encrypted,unencrypted}_{client,server}` of the enum: the arm for variant X calls exactly the method of the same
   name on X's value (`c.<same name>(w[, e])` / `X{}.<same name>(w[, e])`) — an arm that calls another mode (e.g. the unencrypted writer from
   the encrypted one) changes what goes on the wire for that message only;
 * Display: variant X prints "X".
The table opcode -> type is what Model/Session.lean calls a `Table`; tools/rust_reads.opcode_tables compares its key set with the wowm."""
import os, re, sys
sys.path.insert(0, os.path.dirname(__file__))
import rust_codec


def fn_bodies(src, enum):
    """name -> body text of every fn in `impl <enum> {` blocks"""
    out = {}
    for im in re.finditer(r"(?m)^impl " + enum + r" \{\n", src):
        end = src.find("\n}\n", im.end())
        blk = src[im.end():end]
        for m in re.finditer(r"(?m)^    (?:pub(?:\(crate\))? )?(?:async )?fn (\w+)", blk):
            i = blk.index("{", blk.index(")", m.end()))
            depth, j = 0, i
            while True:
                ch = blk[j]
                if ch == '"':
                    j += 1
                    while blk[j] != '"':
                        j += 2 if blk[j] == "\\" else 1
                elif ch == "{":
                    depth += 1
                elif ch == "}":
                    depth -= 1
                    if depth == 0:
                        break
                j += 1
            out.setdefault(m.group(1), blk[i:j + 1])
    return out


def check():
    ix = rust_codec.Index()
    items, problems = [], []
    for exp in rust_codec.EXPS:
        path = os.path.join(rust_codec.REPO, f"wow_world_messages/src/world/{exp}/opcodes.rs")
        src = open(path).read()
        rel = os.path.relpath(path, rust_codec.REPO)
        for enum, side in (("ClientOpcodeMessage", "client"), ("ServerOpcodeMessage", "server")):
            fns = fn_bodies(src, enum)
            ro = fns.get("read_opcodes")
            if ro is None:
                problems.append({"file": rel, "enum": enum, "problem": "no read_opcodes"})
                continue
            arms = re.findall(r"(?m)^\s+(0x[0-9A-Fa-f]+) => (.*),$", ro)
            variants = []
            for op, rhs in arms:
                m1 = re.fullmatch(r"Ok\(Self::(\w+)\((?:Box::new\()?<(\w+) as crate::Message>::read_body::<crate::traits::private::Internal>\(&mut r, body_size\)\.map_err\(\|a\| a\.opcode_convert\(\)\)\?\)?\)\)", rhs)
                m2 = re.fullmatch(r'crate::util::assert_empty\(body_size, opcode, "(\w+)"\)\.map\(\|_\| Self::(\w+)\)', rhs)
                if m1:
                    var, ty = m1.group(1), m1.group(2)
                elif m2:
                    ty, var = m2.group(1), m2.group(2)
                else:
                    problems.append({"file": rel, "enum": enum, "problem": f"unreadable read_opcodes arm {op} => {rhs[:80]}"})
                    continue
                p = ix.defs.get((exp, ty))
                const = None
                if p:
                    mc = re.search(r"const OPCODE: u32 = (0x[0-9A-Fa-f]+|\d+);", ix.src(p))
                    const = int(mc.group(1), 0) if mc else None
                ok = ty in (var, var + "_Client", var + "_Server") and const == int(op, 16)
                items.append({"file": rel, "enum": enum, "kind": "read", "opcode": int(op, 16), "variant": var, "type": ty, "const_opcode": const, "ok": ok})
                variants.append(var)
            for name, body in fns.items():
                mw = re.fullmatch(r"(tokio_|astd_)?write_(encrypted|unencrypted)_(client|server)", name)
                if not mw:
                    continue
                enc = mw.group(2) == "encrypted"
                seen = []
                for var, rhs in re.findall(r"(?m)^\s+Self::(\w+)(?:\(c\))? => (.*),$", body):
                    call = re.fullmatch(r"(?:c|" + var + r"(?:_Client|_Server)?\{\})\.(\w+)\(w" + (", e" if enc else "") + r"\)(?:\.await)?", rhs)
                    ok = bool(call) and call.group(1) == name
                    items.append({"file": rel, "enum": enum, "kind": "write", "fn": name, "variant": var, "calls": call.group(1) if call else rhs[:60], "ok": ok})
                    seen.append(var)
                if sorted(seen) != sorted(variants):
                    problems.append({"file": rel, "enum": enum, "problem": f"{name}: arms for {len(seen)} variants, read_opcodes has {len(variants)}"})
            mdisp = re.search(r"impl std::fmt::Display for " + enum + r" \{(.*?)\n\}\n", src, re.S)
            if mdisp:
                for var, text in re.findall(enum + r"::(\w+)(?:\(_\))? => \"(\w+)\"", mdisp.group(1)):
                    items.append({"file": rel, "enum": enum, "kind": "display", "variant": var, "text": text, "ok": text in (var, var + "_Client", var + "_Server")})
    return items, problems


def check_login():
    """the login opcode enums (wow_login_messages/src/logon/version_N/opcodes.rs): every arm of `[tokio_|astd_]read` builds variant X by the reader of the
    SAME prefix of a type named X / X_Client / X_Server whose OPCODE is the arm's number; empty messages are unit variants"""
    ix = rust_codec.Index()
    items, problems = [], []
    root = os.path.join(rust_codec.REPO, "wow_login_messages/src/logon")
    for ver in sorted(os.listdir(root)):
        path = os.path.join(root, ver, "opcodes.rs")
        if not os.path.isfile(path):
            continue
        src = open(path).read()
        rel = os.path.relpath(path, rust_codec.REPO)
        ctx = "login" + ver.split("_")[1]
        for enum in ("ClientOpcodeMessage", "ServerOpcodeMessage"):
            fns = fn_bodies(src, enum)
            for fname in ("read", "tokio_read", "astd_read"):
                body = fns.get(fname)
                if body is None:
                    problems.append({"file": rel, "enum": enum, "problem": f"no {fname}"})
                    continue
                for op, rhs in re.findall(r"(?m)^\s+(0x[0-9A-Fa-f]+) => (.*),$", body):
                    m1 = re.fullmatch(r"Ok\(Self::(\w+)\((\w+)::(\w+)::<R, crate::private::Internal>\(r\)(\.await)?\?\)\)", rhs)
                    m2 = re.fullmatch(r"Ok\(Self::(\w+)\)", rhs)
                    if m1:
                        var, ty, meth = m1.group(1), m1.group(2), m1.group(3)
                        p = ix.defs.get((ctx, ty))
                        const = None
                        if p:
                            mc = re.search(r"const OPCODE: u8 = (0x[0-9A-Fa-f]+|\d+);", ix.src(p))
                            const = int(mc.group(1), 0) if mc else None
                        ok = ty in (var, var + "_Client", var + "_Server") and meth == fname and const == int(op, 16) and bool(m1.group(4)) == (fname != "read")
                        items.append({"file": rel, "enum": enum, "kind": "login-read", "fn": fname, "opcode": int(op, 16), "variant": var, "type": ty, "calls": meth, "const_opcode": const, "ok": ok})
                    elif m2:
                        items.append({"file": rel, "enum": enum, "kind": "login-read", "fn": fname, "opcode": int(op, 16), "variant": m2.group(1), "type": None, "calls": None, "const_opcode": None, "ok": True})
                    else:
                        problems.append({"file": rel, "enum": enum, "problem": f"unreadable {fname} arm {op} => {rhs[:80]}"})
            wv = fns.get("write_into_vec")
            if wv:
                for var, rhs in re.findall(r"(?m)^\s+Self::(\w+)(?:\(e\))? => (.*),?$", wv):
                    rhs = rhs.rstrip(",")
                    ok = rhs in ("e.write_into_vec(w)?", "{}")
                    items.append({"file": rel, "enum": enum, "kind": "login-write", "fn": "write_into_vec", "variant": var, "calls": rhs[:60], "ok": ok})
    return items, problems


if __name__ == "__main__":
    import collections
    it, pr = check()
    it2, pr2 = check_login()
    it, pr = it + it2, pr + pr2
    print(len(it), "arms;", sum(1 for x in it if not x["ok"]), "wrong;", len(pr), "problems", collections.Counter(x["kind"] for x in it))
    for x in [x for x in it if not x["ok"]][:5] + pr[:5]:
        print(x)
