"""T-gen translator for C17: reads the generated Wireshark dissector fragments (parser.txt: one `case` per message; enums.txt:
enumerator constants; imports.txt / register.txt / variables.txt: declarations) and emits, per message, a statement list in
the prefix-token form interpreted by `WowVerif.Wireshark.run`:

  add <n> <le|be|na>          ptvcursor_add(ptv, hf, n, ENC)
  addv <var> <enc>            ptvcursor_add(ptv, hf, var, ENC)         (length taken from an earlier ret variable)
  ret <n> <enc> <var>         ptvcursor_add_ret_uint(.., &var)
  cstr | scstr | str | pguid  add_cstring / add_sized_cstring / add_string / add_packed_guid
  addrest <enc>               len = end - offset; ptvcursor_add(ptv, hf, len, ENC)
  prim <name>                 add_aura_mask / add_update_mask / add_monster_move_spline / compressed payloads
  forv <var> … end | forc <n> … end | while … end | ifrest … end
  if <k> (<cond> … end){k} … end        k conditional arms, then the else arm (possibly empty)
  cond:  eq <var> <m> v1..vm | ne <var> v | band <var> <m> v1..vm | s2c | c2s
  ver <k> (<n> … end){k}                 switch (*protocol_version)

Strict: a line that matches no known shape makes the message `unrecognised` (reported, never skipped silently)."""
import os, re, sys

REPO = os.environ.get("VERIF_REPO", "/repo")
WS_DIR = "wow_message_parser/tests/wireshark"


class Unrecognised(Exception):
    pass


def load_constants(path):
    consts = {}
    for m in re.finditer(r"^\s+([A-Z][A-Z0-9_]*) = (0x[0-9A-Fa-f]+|\d+),", open(path).read(), re.M):
        consts[m.group(1)] = int(m.group(2), 0)
    return consts


ENC = {"ENC_LITTLE_ENDIAN": "le", "ENC_BIG_ENDIAN": "be", "ENC_NA": "na"}


NAME_IDS = False      # number the C variables by their names (crc32), as corpus.Resolver(name_ids=True) numbers the fields


class Parser:
    def __init__(self, lines, consts):
        self.l, self.i, self.consts = lines, 0, consts
        self.vars = {}
        self.hf = set()
        self.used_consts = set()

    def var(self, name):
        if NAME_IDS:
            import zlib
            self.vars.setdefault(name, len(self.vars))
            return str(zlib.crc32(name.encode()) & 0x3FFFFFFF)
        return str(self.vars.setdefault(name, len(self.vars)))

    def peek(self):
        return self.l[self.i].strip() if self.i < len(self.l) else None

    def cond(self, text):
        text = " ".join(text.split())
        if text in ("WOWW_SERVER_TO_CLIENT", "WOW_SERVER_TO_CLIENT"):
            return ["s2c"]
        parts = [p.strip() for p in text.split("||")]
        var, op, vals = None, None, []
        for p in parts:
            m = re.fullmatch(r"\(?(\w+) (==|!=|&) ([A-Z][A-Z0-9_]*)\)?", p)
            if not m:
                raise Unrecognised(f"condition `{text}`")
            if var not in (None, m.group(1)) or op not in (None, m.group(2)):
                raise Unrecognised(f"mixed condition `{text}`")
            var, op = m.group(1), m.group(2)
            if m.group(3) not in self.consts:
                raise Unrecognised(f"constant {m.group(3)} is not declared in enums.txt")
            self.used_consts.add(m.group(3))
            vals.append(self.consts[m.group(3)])
        if var not in self.vars:
            raise Unrecognised(f"condition on `{var}` which no earlier ptvcursor_add_ret_uint assigns")
        v = self.var(var)
        if op == "==":
            return ["eq", v, str(len(vals))] + [str(x) for x in vals]
        if op == "!=":
            if len(vals) != 1:
                raise Unrecognised("!= with ||")
            return ["ne", v, str(vals[0])]
        return ["band", v, str(len(vals))] + [str(x) for x in vals]

    def header(self, first):
        """join a multi-line `if (...) {` header; returns the text between the outer parentheses"""
        text = first
        while not text.rstrip().endswith("{"):
            self.i += 1
            text += " " + self.l[self.i].strip()
        m = re.match(r"(?:else )?if \((.*)\) \{$", " ".join(text.split()))
        if not m:
            raise Unrecognised(f"if header `{text[:80]}`")
        return m.group(1)

    def block(self):
        """statements up to (not including) the closing `}` / `break;` / next `case`"""
        out = []
        while True:
            s = self.peek()
            if s is None or s == "}" or s.startswith("break;") or s.startswith("case ") or s.startswith("default:"):
                return out
            self.i += 1
            m = re.fullmatch(r"ptvcursor_add\(ptv, (hf_\w+), (\w+), (ENC_\w+)\);", s)
            if m:
                self.hf.add(m.group(1))
                if m.group(2).isdigit():
                    out += ["add", m.group(2), ENC[m.group(3)]]
                else:
                    if m.group(2) not in self.vars:
                        raise Unrecognised(f"length variable {m.group(2)} not assigned")
                    out += ["addv", self.var(m.group(2)), ENC[m.group(3)]]
                continue
            m = re.fullmatch(r"ptvcursor_add_ret_uint\(ptv, (hf_\w+), (\d+), (ENC_\w+), &(\w+)\);", s)
            if m:
                self.hf.add(m.group(1))
                out += ["ret", m.group(2), ENC[m.group(3)], self.var(m.group(4))]
                continue
            m = re.fullmatch(r"add_(cstring|sized_cstring|string)\(ptv, &(hf_\w+)\);", s)
            if m:
                self.hf.add(m.group(2))
                out += [{"cstring": "cstr", "sized_cstring": "scstr", "string": "str"}[m.group(1)]]
                continue
            if s == "add_packed_guid(ptv, pinfo);":
                out += ["pguid"]
                continue
            m = re.fullmatch(r"add_(aura_mask|update_mask|monster_move_spline)\(ptv(?:, pinfo)?\);", s)
            if m:
                out += ["prim", m.group(1)]
                continue
            if s.startswith("ptvcursor_add_text_with_subtree(") or s == "ptvcursor_pop_subtree(ptv);":
                continue
            m = re.fullmatch(r"for \(guint32 (\w+) = 0; \1 < (\w+); \+\+\1\) \{", s)
            if m:
                body = self.block()
                self.close()
                if m.group(2).isdigit():
                    out += ["forc", m.group(2)] + body + ["end"]
                else:
                    if m.group(2) not in self.vars:
                        raise Unrecognised(f"loop bound {m.group(2)} not assigned")
                    out += ["forv", self.var(m.group(2))] + body + ["end"]
                continue
            if s == "while (ptvcursor_current_offset(ptv) < offset_packet_end) {":
                body = self.block()
                self.close()
                out += ["while"] + body + ["end"]
                continue
            if s == "len = offset_packet_end - ptvcursor_current_offset(ptv);":
                m2 = re.fullmatch(r"ptvcursor_add\(ptv, (hf_\w+), len, (ENC_\w+)\);", self.peek() or "")
                if m2:
                    self.i += 1
                    self.hf.add(m2.group(1))
                    out += ["addrest", ENC[m2.group(2)]]        # the rest of the packet as one field (`u8[-]`)
                    continue
                if self.peek() != "if (len > 0) {":
                    raise Unrecognised("len = … without `if (len > 0)`")
                self.i += 1
                body = self.block()
                self.close()
                out += ["ifrest"] + body + ["end"]
                continue
            if s.startswith("if ("):
                self.i -= 1
                arms = []
                text = self.header(self.l[self.i].strip())
                self.i += 1
                c = self.cond(text)
                body = self.block()
                self.close()
                arms.append((c, body))
                els = []
                while self.peek() is not None and self.peek().startswith("else"):
                    if self.peek().startswith("else if ("):
                        text = self.header(self.l[self.i].strip())
                        self.i += 1
                        c = self.cond(text)
                        body = self.block()
                        self.close()
                        arms.append((c, body))
                    elif self.peek() == "else {":
                        self.i += 1
                        els = self.block()
                        self.close()
                        break
                    else:
                        raise Unrecognised(f"`{self.peek()[:60]}`")
                out += ["if", str(len(arms))]
                for c, body in arms:
                    out += c + body + ["end"]
                out += els + ["end"]
                continue
            m = re.fullmatch(r"switch \(\*protocol_version\) \{", s)
            if m:
                cases = []
                while self.peek() is not None and self.peek().startswith("case "):
                    labels = []
                    while self.peek() is not None and self.peek().startswith("case "):      # `case 2:` `case 3:` share one body (fall through)
                        labels.append(int(re.fullmatch(r"case (\d+):", self.peek()).group(1)))
                        self.i += 1
                    body = self.block()
                    if self.peek() == "break;":
                        self.i += 1
                    else:
                        raise Unrecognised("protocol_version case without break")
                    for n in labels:
                        cases.append((n, body))
                if self.peek() is not None and self.peek().startswith("default:"):
                    self.i += 1
                    self.block()
                    if self.peek() == "break;":
                        self.i += 1
                self.close()
                out += ["ver", str(len(cases))]
                for n, body in cases:
                    out += [str(n)] + body + ["end"]
                continue
            if "compressed_tvb" in s or "old_ptv" in s or s.startswith("ptvcursor_free") or "compression_end" in s or s.startswith("ptv = "):
                raise Unrecognised("compressed payload (separate tvb)")
            raise Unrecognised(f"`{s[:80]}`")

    def close(self):
        if self.peek() != "}":
            raise Unrecognised(f"expected `}}`, found `{(self.peek() or '')[:60]}`")
        self.i += 1


def parse_cases(path, consts):
    """-> {case name: (tokens | None, problem | None, hf names, line)} for the world switch and the login switch"""
    lines = open(path).read().split("\n")
    out = {"world": {}, "login": {}}
    which = None
    nsw = 0
    i = 0
    while i < len(lines):
        s = lines[i].strip()
        if s == "switch (header_opcode) {" and lines[i].startswith("    switch"):
            nsw += 1
            which = "world" if nsw == 1 else "login"
            i += 1
            continue
        m = re.fullmatch(r"case (\w+):", s)
        if m and which and lines[i].startswith("        case"):
            # body extends to the matching top-level `break;` at the same indentation + 4
            j = i + 1
            while j < len(lines) and not (lines[j].startswith("            break;") and not lines[j].startswith("             ")) and not re.match(r"        (case \w+:|default:)", lines[j]):
                j += 1
            body = lines[i + 1:j]
            p = Parser(body, consts)
            try:
                toks = p.block()
                if p.i != len([x for x in body]) and any(x.strip() for x in body[p.i:]):
                    raise Unrecognised(f"trailing `{body[p.i].strip()[:60]}`")
                out[which][m.group(1)] = (toks, None, sorted(p.hf), i + 1, sorted(p.used_consts))
            except Unrecognised as e:
                out[which][m.group(1)] = (None, str(e), sorted(p.hf), i + 1, sorted(p.used_consts))
            i = j
            continue
        i += 1
    return out


def declarations(base=None):
    base = base or os.path.join(REPO, WS_DIR)
    imports = set(re.findall(r"\b(hf_\w+)\b", open(os.path.join(base, "imports.txt")).read()))
    register = set(re.findall(r"&(hf_\w+)", open(os.path.join(base, "register.txt")).read()))
    variables = set(re.findall(r"guint32 (\w+) = 0;", open(os.path.join(base, "variables.txt")).read()))
    return imports, register, variables


if __name__ == "__main__":
    base = os.path.join(REPO, WS_DIR)
    consts = load_constants(os.path.join(base, "enums.txt"))
    cases = parse_cases(os.path.join(base, "parser.txt"), consts)
    import collections
    for k, d in cases.items():
        bad = collections.Counter(re.sub(r"`.*`", "`…`", v[1]) for v in d.values() if v[1])
        print(k, len(d), "cases;", sum(1 for v in d.values() if v[0] is not None), "translated;", dict(bad))
    print(cases["world"]["CMSG_ACTIVATETAXIEXPRESS"][0])
    print(cases["login"]["CMD_AUTH_LOGON_PROOF"][0][:80])
    imp, reg, var = declarations()
    print(len(consts), "constants", len(imp), "imports", len(reg), "registered", len(var), "variables")
