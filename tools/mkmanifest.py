#!/usr/bin/env python3
"""Regenerates MANIFEST.json from the table below (kept in one place so that it is always schema-valid)."""
import json, os
here = os.path.dirname(os.path.dirname(os.path.abspath(__file__)))
props = [json.loads(l)["id"] for l in open(os.path.join(here, "properties.jsonl"))]

CLAIMED = {
 "C15": dict(cat="proof", tech="Lean 4 theorems (tryFrom_ok_iff, tryFrom_accessors, predictedWeekday_correct) about a hand model + exhaustive correspondence with DateTime::try_from",
             text="Lean proof that the model of try_from accepts exactly the values whose bit fields are a real calendar instant (for all 2^32 values, via field decomposition and a kernel-evaluated 256-year table), that accessors return the bit fields and the integer form is unchanged; the model is tied to the Rust code by a correspondence sweep that is exhaustive over all (year,month,day,weekday) x 16 time corners (quick) or over all 2^32 values (thorough).",
             note="Trusted: Lean kernel, the hand transcription of try_from (validated exhaustively against the implementation in thorough tier), calendar anchor 2000-01-01 = Saturday, compiled Lean driver and Rust harness for the sweep.", ref="§4 C15"),
 "C11": dict(cat="proof", tech="Lean 4 theorems about a verified table checker (enumOk) evaluated on every generated enum re-extracted from the source + public-API correspondence",
             text="Lean theorems (fromInt_correct, roundtrip, variants_correct, tryFrom_correct) show that a `true` verdict of enumOk means: conversion succeeds exactly for declared values, from every source integer type by numeric value (same-width other-signedness bitwise), names the right enumerator, round-trips, and reports the offending value — for all integers. The translator re-extracts all ~300 generated enums from /repo on every run and enumOk is evaluated on each; real conversions of the public enums are additionally sampled against the specification.",
             note="Trusted: Lean kernel; tools/rust_enums.py + tools/wowm.py (syntax transcription; unknown shapes are rejected); native evaluation of enumOk in the quick tier; Rust harness.", ref="§4 C11"),
 "C12": dict(cat="proof", tech="Lean 4 theorems about a verified bitwise equivalence checker (itemOk/bwEquiv) evaluated on every generated flag method + public-API correspondence",
             text="Lean theorems (bwEquiv_sound and one *_sound theorem per method role) show that a `true` verdict of itemOk on a method body means the method is exactly the set-algebra operation the property demands for every raw value of the flag's width. The translator re-extracts every method of every generated flag type and synthesised flag struct (~6,500 bodies) from /repo on every run; the real methods and integer conversions of the public flag types are sampled against the specification. Two genuine defects are listed as known findings (clear_* uses reverse_bits; TryFrom<narrower signed> zero-extends negatives).",
             note="Trusted: Lean kernel; tools/rust_flags.py + rustmini.py + wowm.py (syntax transcription; unreadable text becomes `unknown`, which the checker rejects); native evaluation of itemOk in the quick tier; Rust harness.", ref="§4 C12"),
 "C02": dict(cat="proof", tech="Lean 4 theorems (write_ok_partial, read_write, stream by induction over message sequences) about a code-shaped model of the header arithmetic + correspondence on real messages of every boundary length",
             text="Lean theorems over unbounded Nat lengths: for every body length the code can write, every expansion/direction and both reader entry points, the written frame is header++body with the prescribed header form (3-byte size exactly when a Wrath server message needs it), every reader parses back opcode and exactly the announced number of bytes, and any finite concatenation of written messages decodes to the same sequence (induction). The u16 overflow of Vanilla/TBC/client totals is proved as an abort theorem and listed as a known finding. The hand model is tied to the code by re-reading the shared constants and by a correspondence on real *_WARDEN_DATA messages at all boundary lengths, with surplus/trailing bytes, and on random message sequences.",
             note="Trusted: Lean kernel; hand transcription of traits/*.rs, trait_helpers, opcodes.rs header parsing and expected.rs (validated by correspondence); Rust harness; only *_WARDEN_DATA bodies are used for framing.", ref="§4 C02"),
 "C20": dict(cat="proof", tech="Lean 4 + Mathlib theorems over the reals about the code's formulas (written once, generically) + correspondence of the Float instance with the implementation on all trigger tables and random boxes",
             text="The code's formulas are written once over abstract arithmetic operations; instantiated with the real numbers, Lean/Mathlib proves that the box test is exactly containment in the box's own orthonormal frame with half extents + 2 yards (isWithinSquare_iff, frame_reconstruct), that the circle test is Euclidean distance < radius on the same map, that the distance helpers are the Euclidean distance, and that verify_trigger is consistent with containment for any table. The same definitions instantiated with Float are compared with the implementation on the triggers of all three tables and on random rotated boxes near faces, edges and corners (abstaining within 2e-3 of a boundary). Partial: f32 rounding and libm are not modelled.",
             note="Trusted: Lean kernel, Mathlib; that Float/f32 evaluation follows the real-number formula away from boundaries (checked by correspondence, not proved); tools/triggers.py.", ref="§4 C20"),
 "C01": dict(cat="proof", tech="Lean 4 mutual-induction theorem decode_encode over the closed wowm syntax (all programs, all values) + corpus re-translated from the wowm sources + structure-directed correspondence with the libraries' public readers/writers",
             text="Lean proves, by mutual structural induction over the closed syntax (structs, fixed/counted/endless arrays, if / else-if / else over enums and flags, optional tails, constants, self.size, strings, packed guids, upcast enums), that for every well-formed container and every value the specification decoder returns exactly the value and consumes exactly the specification encoding — so the canonical encodings of a definition are a well-defined, uniquely readable set. The wowm corpus is re-translated into that syntax on every run by an independent reader, well-formedness is checked for every container, and for every version-expanded message structure-directed canonical encodings are framed, read through the libraries' opcode readers and written back; bytes, consumed length and message identity must agree. Messages with compressed parts or the rarer built-ins are listed, not yet modelled. Three genuine defects are listed as known findings.",
             note="Trusted: Lean kernel; tools/wowm.py + tools/corpus.py (translation of the wowm sources); the every-value quantifier is carried by the theorem on the specification side and by branch-directed sampling on the Rust side; Rust harness.", ref="§4 C01"),
 "C04": dict(cat="proof", tech="Lean 4 theorems (enum rejection at full wire width, size_reject for every constant-sized container by mutual induction, soundness of the read-expression checker) + T-gen of all enum read sites and opcode tables + corruption correspondence",
             text="Lean proves for the specification decoder that an undeclared number at an enum field's full wire width is an error reporting that number, and — by mutual induction over the syntax — that a container of constant size never decodes from a body of another length (size_reject). For the generated side, every enum read expression of every generated reader (760 sites) is re-extracted and classified by a checker whose soundness theorem says accepted shapes reject every undeclared wire value reporting it (the narrowing `as` cast shape is proved to alias); opcode match arms of all six opcode readers are compared with the wowm opcode sets. Canonical encodings with one enum field corrupted (aliases modulo 2^8/2^16, neighbours, maxima), constant-sized messages with other body lengths and undefined opcodes are run through the libraries.",
             note="Trusted: Lean kernel; tools/rust_reads.py, wowm.py, corpus.py; Rust harness. The narrowing-cast defect was repaired in /repo (fix commit).", ref="§4 C04"),
 "C03": dict(cat="fault_enumeration", tech="Lean 4 totality / no-growth / element-count theorems for the specification decoder + systematic fault enumeration of the implementation under catch_unwind, counting allocator and RLIMIT_AS",
             text="Partial by nature: Lean proves that the specification decoder is total and never needs more array elements than input bytes (decode_total, decMembers_no_growth, iterDec_count, iterDecAll_count — all containers, by mutual induction). The implementation's behaviour on hostile bytes depends on the allocator and runtime, so it is established by fault enumeration: every canonical frame and every wowm test vector (incl. compressed messages) is truncated at every prefix, every 1/2/4-byte window is set to 0/1/2/max/max-half, header sizes are shifted, random bytes and random frames per opcode are tried (~570k decodes in the quick tier); each decode runs under catch_unwind with a counting global allocator and a 4 GiB address-space limit. Oracle: a message or an error, no panic/abort, single allocations within 64 x frame + 32 MiB. Four panics/unbounded allocations were repaired in /repo; the capacity-before-guard defect of counted arrays is a known finding.",
             note="Observed, not proved: allocator behaviour, stack use, wall clock. Trusted: harness, counting allocator, the generator of faults.", ref="§4 C03"),
 "C09": dict(cat="proof", tech="Lean 4 theorems (const_sized for every constant-sized container via decode_encode + fixedMs_consumes; leaf_bounds_sound) + interval model `bounds` evaluated per container and compared with every size guard re-extracted from the generated readers",
             text="The model computes, per container, the true extremal lengths over the whole conditional structure by interval arithmetic (not sampling). Lean proves that a syntactically constant-sized container encodes every value to exactly that size and that leaf encodings respect their intervals under the published limits; the general interval soundness is validated on sampled and minimal encodings (stated as such). On every run the size guard compiled into each generated world reader (2,329 messages) is re-extracted and must contain the model interval capped by the direction's frame limit, constant-sized iff the guard is `!=`; limits (CString 256, SizedCString 8004, String, endless 65535, CMSG 10240) are re-read from the generator source. Minimal and random canonical encodings outside a published guard are the replay.",
             note="Trusted: Lean kernel; regex extraction of guards; wowm.py/corpus.py. Not yet proved: bounds_sound for arbitrary nestings (checked by samples); IR/doc published sizes are checked by C10/C18.", ref="§4 C09"),
}
NA_REASON = "not yet claimed: machinery for this property is still under construction (see DESIGN.md §7 order of construction)"

checks = []
for pid in props:
    if pid in CLAIMED:
        c = CLAIMED[pid]
        checks.append({
            "property_id": pid,
            "quick_cmd": f"./check {pid} --tier quick",
            "thorough_cmd": f"./check {pid} --tier thorough",
            "evidence_file": f"/verif/evidence/{pid}.json",
            "replay_cmd_template": f"./check {pid} --replay {{path}}",
            "engine": "lean4+correspondence",
            "level_claimed": {"category": c["cat"], "text": c["text"], "design_ref": c["ref"]},
            "level_note": c["note"],
            "technique": c["tech"],
        })
m = {
 "version": 1,
 "setup_cmd": "./setup.sh",
 "hooks": {"guard": "gtker_wow_messages_verif", "enable": "RUSTFLAGS='--cfg gtker_wow_messages_verif' (no hook commits exist: the checks use only the public API)",
           "baseline_off_cmd": "cd /repo && cargo test --workspace --no-fail-fast --offline", "source_commits": [], "add_only": True},
 "engines": [{"name": "lean4+correspondence", "path": "/verif/lean", "serves_properties": sorted(CLAIMED),
              "kind_free_text": "Lean 4 model + theorems (lake project WowVerif), compiled line-protocol driver wowdrv, Rust harness crates under /verif/harness, python orchestrator ./check"}],
 "checks": checks,
 "notes": "See DESIGN.md. Genuine defects are listed in known_findings.json.",
 "not_applicable": [{"property_id": p, "reason": NA_REASON} for p in props if p not in CLAIMED],
}
json.dump(m, open(os.path.join(here, "MANIFEST.json"), "w"), indent=1)
print("claimed:", sorted(CLAIMED))
