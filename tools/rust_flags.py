"""T-gen translator for C12: re-extracts every generated flag type (and every flag struct synthesised for conditional
members) from /repo's current sources, pairs it with its wowm definition (read independently by tools/wowm.py) and emits
one `flagitem` obligation per (type, method) in the Lean driver's line format.

Strict: a method that is missing, duplicated or unreadable becomes an obligation that fails."""
import os, re, sys, json
sys.path.insert(0, os.path.dirname(__file__))
import wowm, rustmini as rm

REPO = os.environ.get("VERIF_REPO", "/repo")
GEN_DIRS = ["wow_world_base/src/inner", "wow_world_messages/src/world", "wow_login_messages/src/logon"]
WIDTH = {"u8": 8, "u16": 16, "u32": 32, "u64": 64, "u48": 64, "i8": 8, "i16": 16, "i32": 32, "i64": 64}
DOC_RE = re.compile(r"Auto generated from the original `wowm` in file \[`(wow_message_parser/wowm/[^`:]+):(\d+)`\]")
STRUCT_RE = re.compile(r"pub(?:\(crate\))? struct (\w+) \{\n((?:\s+[^\n}]*\n)*?)\}")


def version_of_path(rel):
    """expansion/login version implied by where a generated file lives (used to resolve parent flags of synthesised structs)"""
    m = re.search(r"/(vanilla|tbc|wrath)/", rel)
    if m:
        return {"vanilla": (1, 12), "tbc": (2, 4, 3), "wrath": (3, 3, 5)}[m.group(1)]
    m = re.search(r"/version_(\d+)/", rel)
    if m:
        return ("login", int(m.group(1)))
    return None


class Corpus:
    def __init__(self):
        self.objs = wowm.load_tree(os.path.join(REPO, "wow_message_parser/wowm"))
        self.by_loc = {}
        for o in self.objs:
            rel = os.path.relpath(o["file"], REPO)
            self.by_loc.setdefault((rel, o["line"]), []).append(o)
        self.flags = [o for o in self.objs if o["kind"] == "flag"]
        self.enums = [o for o in self.objs if o["kind"] == "enum"]

    def at(self, rel, line):
        return self.by_loc.get((rel, line), [])

    def definer_for(self, name, user):
        """the definer called `name` that an object `user` (with versions) refers to: its versions must cover all of user's"""
        cands = []
        for d in self.objs:
            if d["kind"] not in ("flag", "enum") or d["name"] != name:
                continue
            if user["login"]:
                ok = all(any(dv == "*" or dv == uv for dv in d["login"]) for uv in user["login"]) if d["login"] else False
            else:
                ok = all(any(wowm.world_covers(dv, uv) for dv in d["world"]) for uv in user["world"]) if d["world"] else False
            if ok:
                cands.append(d)
        return cands


def to_bitexpr(e, consts, arg_names=("inner", "value")):
    """rustmini expression -> prefix token list"""
    e = rm.unparen(e)
    k = e[0]
    if k == "num":
        return [f"c{e[1]}"]
    if k == "field" and e[2] == "inner":
        b = rm.unparen(e[1])
        if b == ("path", "self"):
            return ["inner"]
        if b[0] == "path" and b[1] in ("rhs", "other"):
            return ["rhs"]
    if k == "path":
        if e[1] in arg_names:
            return ["arg"]
        if "::" in e[1]:
            name = e[1].split("::")[-1]
            if name in consts:
                return [f"c{consts[name]}"]
        return ["unknown"]
    if k == "bin" and e[1] in ("&", "|", "^"):
        op = {"&": "and", "|": "or", "^": "xor"}[e[1]]
        return [op] + to_bitexpr(e[2], consts, arg_names) + to_bitexpr(e[3], consts, arg_names)
    if k == "un" and e[1] == "!":
        return ["not"] + to_bitexpr(e[2], consts, arg_names)
    if k == "call":
        if e[2] == "reverse_bits" and not e[3]:
            return ["rev"] + to_bitexpr(e[1], consts, arg_names)
        if e[2] in ("bitand", "bitor", "bitxor") and len(e[3]) == 1:
            op = {"bitand": "and", "bitor": "or", "bitxor": "xor"}[e[2]]
            return [op] + to_bitexpr(e[1], consts, arg_names) + to_bitexpr(e[3][0], consts, arg_names)
        if e[2] == "as_int" and not e[3] and rm.unparen(e[1])[0] == "path":
            return ["arg"]  # new_x(x: SubEnum): `inner: x.as_int()`  (flag-with-else-if enumerators)
    return ["unknown"]


def to_boolbody(e, consts):
    e = rm.unparen(e)
    if e[0] == "bin" and e[1] == "||":
        return ["orb"] + to_boolbody(e[2], consts) + to_boolbody(e[3], consts)
    if e[0] == "bin" and e[1] in ("!=", "==") and rm.unparen(e[3]) == ("num", 0):
        return [("ne0" if e[1] == "!=" else "eq0")] + to_bitexpr(e[2], consts)
    return ["unknownb"]


ASSIGN_RE = re.compile(r"^self\.inner\s*([|&^])=\s*(.+)$", re.S)
FIELD_SET_RE = re.compile(r"^self\.(\w+)\s*=\s*(Some\(\w+\)|None)$")
OPASSIGN_RE = re.compile(r"^self\.inner\.(bitand|bitor|bitxor)_assign\((.+)\)$", re.S)


def fn_body(fn, consts):
    """symbolically execute a printed method body -> ('val', tokens, fieldsets) | ('test', tokens)"""
    stmts, tail = rm.split_stmts(fn["body"])
    cur = ["inner"]
    fieldsets = {}
    for s in stmts:
        s = " ".join(s.split())
        m = ASSIGN_RE.match(s)
        if m:
            op = {"|": "or", "&": "and", "^": "xor"}[m.group(1)]
            cur = [op] + cur + to_bitexpr(rm.parse_expr(m.group(2)), consts)
            continue
        m = FIELD_SET_RE.match(s)
        if m:
            fieldsets[m.group(1)] = m.group(2)
            continue
        return ("val", ["unknown"], fieldsets)
    tail = " ".join(tail.split())
    if tail in ("*self", "self"):
        return ("val", cur, fieldsets)
    if tail == "" and len(stmts) == 0:
        return ("val", ["unknown"], fieldsets)
    m = OPASSIGN_RE.match(tail)
    if m and cur == ["inner"]:
        op = {"bitand": "and", "bitor": "or", "bitxor": "xor"}[m.group(1)]
        return ("val", [op, "inner"] + to_bitexpr(rm.parse_expr(m.group(2)), consts), fieldsets)
    if cur != ["inner"]:
        return ("val", ["unknown"], fieldsets)
    e = rm.unparen(rm.parse_expr(tail))
    if e[0] == "struct" and e[1] == "Self":
        d = dict(e[2])
        if "inner" in d:
            for f, v in e[2]:
                if f != "inner":
                    vv = rm.unparen(v)
                    fieldsets[f] = "None" if vv == ("path", "None") else ("Some" if vv[0] == "fcall" and vv[1] == "Some" else "?")
            return ("val", to_bitexpr(d["inner"], consts), fieldsets)
    if e[0] == "bin" and e[1] == "&&":
        # `self.inner == 0 && self.a.is_none() && ...` (synthesised structs): the members must all be absent as well
        conj = []
        def flat(x):
            x = rm.unparen(x)
            if x[0] == "bin" and x[1] == "&&":
                flat(x[2]); flat(x[3])
            else:
                conj.append(x)
        flat(e)
        rest_ok = all(c[0] == "call" and c[2] == "is_none" and rm.unparen(c[1])[0] == "field" and rm.unparen(rm.unparen(c[1])[1]) == ("path", "self") for c in conj[1:])
        if rest_ok:
            for c in conj[1:]:
                fieldsets[rm.unparen(c[1])[2]] = "is_none"
            return ("test", to_boolbody(conj[0], consts), fieldsets)
        return ("test", ["unknownb"], fieldsets)
    if e[0] == "bin" and e[1] in ("||", "==", "!="):
        return ("test", to_boolbody(e, consts), fieldsets)
    if e == ("field", ("path", "self"), "inner"):
        return ("val", ["inner"], fieldsets)
    return ("val", ["unknown"], fieldsets)


def collect_fns(src, tyname):
    """{fn name: [fn dicts]} over all inherent impls of tyname, plus {trait: {fn: ...}} for trait impls"""
    inherent, traits = {}, {}
    for im in rm.impls(src):
        head = im["head"]
        if head == tyname:
            if "print-testcase" in im["attrs"]:
                continue
            for f in rm.fns(im["body"]):
                inherent.setdefault(f["name"], []).append(f)
        elif head.endswith(" for " + tyname):
            tr = head[: -len(" for " + tyname)]
            traits.setdefault(tr, {})
            for f in rm.fns(im["body"]):
                traits[tr].setdefault(f["name"], []).append(f)
            m = re.search(r"type Error = ([^;]+);", im["body"])
            traits[tr]["__error__"] = m.group(1).strip() if m else None
    return inherent, traits


def item_line(w, role, v, allv, zav, body):
    return f"flagitem {w} {role} {v} {allv} {1 if zav else 0} {body[0]} {' '.join(body[1])}"


def extract(corpus=None):
    """returns (items, types, problems). items: dicts {type, file, method, role, enumerator, line(request)}"""
    corpus = corpus or Corpus()
    items, types, problems = [], [], []
    covered_flags = set()
    for gd in GEN_DIRS:
        for dp, dn, fn in os.walk(os.path.join(REPO, gd)):
            dn.sort()
            for f in sorted(fn):
                if not f.endswith(".rs"):
                    continue
                path = os.path.join(dp, f)
                raw = open(path, encoding="utf-8").read()
                if "inner:" not in raw:
                    continue
                rel = os.path.relpath(path, REPO)
                src = rm.strip_comments(raw)
                docm = DOC_RE.search(raw)
                for sm in STRUCT_RE.finditer(src):
                    tyname, fields_txt = sm.group(1), sm.group(2)
                    fm = re.search(r"^\s*inner:\s*(\w+),", fields_txt, re.M)
                    if not fm:
                        continue
                    base = fm.group(1)
                    if base not in WIDTH:
                        problems.append({"file": rel, "type": tyname, "problem": f"unsupported base type {base}"})
                        continue
                    w = WIDTH[base]
                    other_fields = [x.strip().split(":")[0].replace("pub ", "").strip() for x in fields_txt.strip().split("\n") if ":" in x and not x.strip().startswith("inner:")]
                    inherent, traits = collect_fns(src, tyname)
                    own_consts = {m.group(1): int(m.group(3).replace("_", ""), 0) for m in re.finditer(r"pub const (\w+): (\w+) = (0x[0-9a-fA-F_]+|\d+);", src[sm.end():]) } if not other_fields or True else {}
                    is_definer = bool(re.search(r"impl " + re.escape(tyname) + r" \{\s*pub const fn new\(inner: " + base + r"\) -> Self", src))
                    # ---- wowm side
                    d = None
                    if is_definer:
                        cands = [o for o in (corpus.at(docm.group(1), int(docm.group(2))) if docm else []) if o["kind"] == "flag" and o["name"] == tyname]
                        if not cands:
                            problems.append({"file": rel, "type": tyname, "problem": "no wowm flag found at the documented location"})
                            continue
                        d = cands[0]
                        for c in cands:
                            covered_flags.add((os.path.relpath(c["file"], REPO), c["line"]))
                    else:
                        # synthesised struct: parent flag = the type named in `Parent::NAME`
                        pm = re.search(r"inner (?:\|=|&=) (\w+)::\w+", src[sm.end():])
                        pm = pm or re.search(r"inner: (\w+)::[A-Z0-9_]+,", src[sm.end():])
                        user = [o for o in (corpus.at(docm.group(1), int(docm.group(2))) if docm else [])]
                        if not pm or not user:
                            problems.append({"file": rel, "type": tyname, "problem": "cannot determine the parent flag of a synthesised flag struct"})
                            continue
                        parent = pm.group(1)
                        ver = version_of_path(rel)
                        u = user[0]
                        if len(user) > 1 and ver and ver[0] != "login":
                            uu = [x for x in user if any(wowm.world_covers(v, ver) or wowm.world_covers(ver, v) for v in x["world"])]
                            u = uu[0] if uu else u
                        cands = corpus.definer_for(parent, u)
                        cands = [c for c in cands if c["kind"] == "flag"]
                        if len(cands) != 1:
                            problems.append({"file": rel, "type": tyname, "problem": f"parent flag {parent} not uniquely resolvable ({len(cands)} candidates)"})
                            continue
                        d = cands[0]
                    wvals = [(f["name"], f["int"]) for f in d["fields"]]
                    if any(v is None for _, v in wvals):
                        problems.append({"file": rel, "type": tyname, "problem": "non-integer enumerator value in wowm flag"})
                        continue
                    mask = (1 << w) - 1
                    allv = 0
                    for _, v in wvals:
                        allv |= v & mask
                    zav = any(k == "zero_is_always_valid" and v == "true" for k, v in d["tags"])
                    wconsts = {n: v & mask for n, v in wvals}
                    tinfo = {"type": tyname, "file": rel, "base": base, "width": w, "kind": "definer" if is_definer else "synthesised",
                             "wowm": f"{os.path.relpath(d['file'], REPO)}:{d['line']}", "enumerators": len(wvals), "zero_is_always_valid": zav}
                    types.append(tinfo)

                    def add(method, role, enumerator, v, fnlist, want_kind):
                        if not fnlist:
                            items.append({"type": tyname, "file": rel, "method": method, "role": role, "enumerator": enumerator,
                                          "line": item_line(w, role, v, allv, zav, ("val", ["unknown"])), "note": "method missing"})
                            return None
                        if len(fnlist) > 1:
                            items.append({"type": tyname, "file": rel, "method": method, "role": role, "enumerator": enumerator,
                                          "line": item_line(w, role, v, allv, zav, ("val", ["unknown"])), "note": "method defined twice"})
                            return None
                        kind, toks, fs = fn_body(fnlist[0], own_consts if is_definer else wconsts)
                        items.append({"type": tyname, "file": rel, "method": method, "role": role, "enumerator": enumerator,
                                      "line": item_line(w, role, v, allv, zav, (kind, toks)), "rust": " ".join(fnlist[0]["body"].split())[:200]})
                        return fs

                    if is_definer:
                        # constants: same names, same order, same values as the wowm enumerators
                        rconsts = [(m.group(1), int(m.group(3).replace("_", ""), 0)) for m in re.finditer(r"pub const (\w+): (\w+) = (0x[0-9a-fA-F_]+|\d+);", src)]
                        items.append({"type": tyname, "file": rel, "method": "<constants>", "role": "consts", "enumerator": "*",
                                      "line": None, "consts_rust": rconsts, "consts_wowm": [(n, v & mask) for n, v in wvals]})
                        add("new", "new", "*", 0, inherent.get("new"), "val")
                        add("empty", "empty", "*", 0, inherent.get("empty"), "val")
                        add("is_empty", "isempty", "*", 0, inherent.get("is_empty"), "test")
                        add("all", "all", "*", 0, inherent.get("all"), "val")
                        add("as_int", "asint", "*", 0, inherent.get("as_int"), "val")
                        for tr, fname, role in [("std::ops::BitAnd", "bitand", "opand"), ("std::ops::BitOr", "bitor", "opor"), ("std::ops::BitXor", "bitxor", "opxor"),
                                                ("std::ops::BitAndAssign", "bitand_assign", "opand"), ("std::ops::BitOrAssign", "bitor_assign", "opor"),
                                                ("std::ops::BitXorAssign", "bitxor_assign", "opxor")]:
                            add(f"{tr}::{fname}", role, "*", 0, traits.get(tr, {}).get(fname), "val")
                        for n, v in wvals:
                            if v & mask == 0:
                                continue
                            low = n.lower()
                            add(f"is_{low}", "is", n, v & mask, inherent.get(f"is_{low}"), "test")
                            add(f"new_{low}", "newq", n, v & mask, inherent.get(f"new_{low}"), "val")
                            add(f"set_{low}", "set", n, v & mask, inherent.get(f"set_{low}"), "val")
                            add(f"clear_{low}", "clear", n, v & mask, inherent.get(f"clear_{low}"), "val")
                        tinfo["conversions"] = {tr: (" ".join(fs[next(k for k in fs if k != "__error__")][0]["body"].split()) if any(k != "__error__" for k in fs) else None)
                                                for tr, fs in traits.items() if tr.startswith("From<") or tr.startswith("TryFrom<")}
                    else:
                        add("empty", "empty", "*", 0, inherent.get("empty"), "val")
                        fs = add("is_empty", "isempty", "*", 0, inherent.get("is_empty"), "test")
                        if fs is not None and sorted(k for k, vv in fs.items() if vv == "is_none") != sorted(other_fields):
                            items.append({"type": tyname, "file": rel, "method": "is_empty", "role": "member-tracking", "enumerator": "*", "line": None, "ok": False,
                                          "note": f"is_empty must also require every member absent: {other_fields}, got {fs}"})
                        add("as_int", "asint", "*", 0, inherent.get("as_int"), "val")
                        for n, v in wvals:
                            low = n.lower()
                            present = [m for m in (f"new_{low}", f"set_{low}", f"clear_{low}", f"get_{low}") if m in inherent]
                            if not present:
                                continue  # enumerators with value 0 (or unused ones) get no accessor in a synthesised struct
                            has_member = low in other_fields
                            newfn = inherent.get(f"new_{low}") or [None]
                            if newfn[0] is not None and re.search(r"inner:\s*" + low + r"\.as_int\(\)", newfn[0]["body"]):
                                # enumerator heading an if / else-if chain: the argument is a sub-enum whose as_int() is the chosen enumerator's value
                                am = re.match(low + r":\s*(\w+)", newfn[0]["args"])
                                sub = am.group(1) if am else None
                                arms = {}
                                if sub:
                                    subin, _ = collect_fns(src, sub)
                                    for f in subin.get("as_int", []):
                                        for mm in re.finditer(r"Self::(\w+)\s*(?:\{[^}]*\})?\s*=>\s*(0x[0-9a-fA-F]+|\d+)", f["body"]):
                                            arms[mm.group(1)] = int(mm.group(2), 0)
                                norm = {nn.replace("_", "").lower(): vv & mask for nn, vv in wvals}
                                ok_arms = bool(arms) and all(a.lower() in norm and norm[a.lower()] == val for a, val in arms.items()) and (low.replace("_", "") in [a.lower() for a in arms])
                                k1, t1, f1 = fn_body(newfn[0], wconsts)
                                setfn = inherent.get(f"set_{low}") or [None]
                                k2, t2, f2 = fn_body(setfn[0], wconsts) if setfn[0] else ("val", ["unknown"], {})
                                ok = ok_arms and t1 == ["arg"] and t2 == ["or", "inner", "arg"] and f1.get(low) == "Some" and str(f2.get(low, "")).startswith("Some")
                                items.append({"type": tyname, "file": rel, "method": f"new_{low}/set_{low}", "role": "elseif-group", "enumerator": n, "line": None, "ok": ok,
                                              "note": f"sub-enum {sub} as_int arms {arms} must be enumerators of {d['name']}; new = arg, set = inner | arg; got new={t1} set={t2}"})
                                fs = add(f"clear_{low}", "clear", n, v & mask, inherent.get(f"clear_{low}"), "val")
                                continue
                            fs = add(f"new_{low}", "newq", n, v & mask, inherent.get(f"new_{low}"), "val")
                            if fs is not None and has_member and fs.get(low) != "Some":
                                items.append({"type": tyname, "file": rel, "method": f"new_{low}", "role": "member-tracking", "enumerator": n, "line": None, "ok": False,
                                              "note": f"new_{low} must store the enumerator's members (field `{low}` = Some(..)), got {fs.get(low)}"})
                            fs = add(f"set_{low}", "set", n, v & mask, inherent.get(f"set_{low}"), "val")
                            if fs is not None and has_member and not str(fs.get(low, "")).startswith("Some"):
                                items.append({"type": tyname, "file": rel, "method": f"set_{low}", "role": "member-tracking", "enumerator": n, "line": None, "ok": False,
                                              "note": f"set_{low} must store the enumerator's members, got {fs.get(low)}"})
                            fs = add(f"clear_{low}", "clear", n, v & mask, inherent.get(f"clear_{low}"), "val")
                            if fs is not None and has_member and fs.get(low) != "None":
                                items.append({"type": tyname, "file": rel, "method": f"clear_{low}", "role": "member-tracking", "enumerator": n, "line": None, "ok": False,
                                              "note": f"clear_{low} must drop the enumerator's members, got {fs.get(low)}"})
                            if not has_member:
                                add(f"get_{low}", "is", n, v & mask, inherent.get(f"get_{low}"), "test")
    # every wowm flag must be covered by at least one generated type
    for fl in corpus.flags:
        key = (os.path.relpath(fl["file"], REPO), fl["line"])
        if key not in covered_flags and wowm.is_generated(fl):
            problems.append({"file": key[0], "type": fl["name"], "problem": f"wowm flag at line {key[1]} has no generated Rust type"})
    return items, types, problems


if __name__ == "__main__":
    items, types, problems = extract()
    print(len(items), "items", len(types), "types", len(problems), "problems")
    for p in problems[:20]:
        print("PROBLEM", p)
    import collections
    print(collections.Counter(i["role"] for i in items))
    for i in items[:5]:
        print(i)
