"""T-gen for C13: every typed accessor of helper/*/update_mask/impls.rs (object kind, field, primitive kind, offset) and
the published field table of wowm_language/src/types/update-mask.md; also generates the harness dispatch (gen_um.rs) for a
representative subset of accessors per kind."""
import os, re, sys
REPO = os.environ.get("VERIF_REPO", "/repo")
VERIF = os.path.dirname(os.path.dirname(os.path.abspath(__file__)))
KINDS = ["Item", "Container", "Unit", "Player", "GameObject", "DynamicObject", "Corpse"]
DOC_SECTION = {"objects": "Object", "items": "Item", "containers": "Container", "units": "Unit", "players": "Player", "gameobjects": "GameObject", "dynamicobjects": "DynamicObject", "corpses": "Corpse"}
CHAIN = {"Item": ["Object", "Item"], "Container": ["Object", "Item", "Container"], "Unit": ["Object", "Unit"], "Player": ["Object", "Unit", "Player"],
         "GameObject": ["Object", "GameObject"], "DynamicObject": ["Object", "DynamicObject"], "Corpse": ["Object", "Corpse"]}
WIDTH = {"guid": 2, "int": 1, "float": 1, "bytes": 1, "shorts": 1}


def accessors(exp):
    """{kind: [(setter name, prim, bit, signature)]} from `impl Update<Kind> { pub fn set_x(&mut self, ...) { self.set_<prim>(bit, ..); } }`"""
    src = open(os.path.join(REPO, f"wow_world_messages/src/helper/{exp}/update_mask/impls.rs")).read()
    out = {}
    for k in KINDS:
        m = re.search(r"^impl Update" + k + r" \{\n(.*?)^\}", src, re.S | re.M)
        body = m.group(1) if m else ""
        lst = []
        for fm in re.finditer(r"pub fn (set_\w+)\(&mut self, ([^)]*)\) \{\s*self\.set_(guid|int|float|bytes|shorts)\((\d+), [^;]*\);\s*\}", body):
            lst.append((fm.group(1), fm.group(3), int(fm.group(4)), " ".join(fm.group(2).split())))
        getters = {}
        for gm in re.finditer(r"pub fn (\w+)\(&self\) -> Option<[^>]*(?:>\s*)?\{\s*self\.get_(guid|int|float|bytes|shorts)\((\d+)\)", body):
            getters[gm.group(1)] = (gm.group(2), int(gm.group(3)))
        out[k] = {"setters": lst, "getters": getters}
    return out


def indexed_accessors(exp):
    """enum-indexed guid-array accessors of UpdatePlayer: [(setter, getter, enum path, enumerator values)] -- `set_x(&mut self, slot: crate::<exp>::E, item: Guid)`
    whose body computes the offset from the enumerator.  The offset expression itself is NOT trusted: the harness calls the accessor
    for every enumerator and the model places the guid at published offset + 2 * value."""
    src = open(os.path.join(REPO, f"wow_world_messages/src/helper/{exp}/update_mask/impls.rs")).read()
    m = re.search(r"^impl UpdatePlayer \{\n(.*?)^\}", src, re.S | re.M)
    out = []
    for fm in re.finditer(r"pub fn (set_\w+)\(&mut self, (\w+): crate::" + exp + r"::(\w+), (\w+): Guid\) \{", m.group(1) if m else ""):
        en = fm.group(3)
        snake = re.sub(r"(?<!^)(?=[A-Z])", "_", en).lower()
        ef = os.path.join(REPO, f"wow_world_base/src/inner/{exp}/{snake}.rs")
        if not os.path.exists(ef):
            continue
        vals = [int(x, 0) for x in re.findall(r"^///     [A-Z_0-9]+ = (0x[0-9a-fA-F]+|\d+);", open(ef).read(), re.M)]
        out.append((fm.group(1), fm.group(1)[4:], en, sorted(set(vals))))
    return out


def struct_accessors(exp):
    """struct-valued accessors of UpdatePlayer (`set_x(&mut self, v: crate::<exp>::S, index: I)` / `x(&self, index: I) -> Option<S>`) with the
    fields of S re-read from world/<exp>/<s>.rs: [(setter, getter, struct, index type, [(field, rust type)])]"""
    src = open(os.path.join(REPO, f"wow_world_messages/src/helper/{exp}/update_mask/impls.rs")).read()
    m = re.search(r"^impl UpdatePlayer \{\n(.*?)^\}", src, re.S | re.M)
    out = []
    for fm in re.finditer(r"pub fn (set_\w+)\(&mut self, \w+: crate::" + exp + r"::(\w+), index: (\w+)\) \{", m.group(1) if m else ""):
        st, sname, idx = fm.group(1), fm.group(2), fm.group(3)
        if not re.search(r"pub fn " + st[4:] + r"\(&self, index: " + idx + r"\) -> Option<crate::" + exp + "::" + sname + ">", m.group(1)):
            continue
        snake = re.sub(r"(?<!^)(?=[A-Z])", "_", sname).lower()
        f = os.path.join(REPO, f"wow_world_messages/src/world/{exp}/{snake}.rs")
        if not os.path.exists(f):
            continue
        sm = re.search(r"pub struct " + sname + r" \{\n(.*?)\n\}", open(f).read(), re.S)
        fields = re.findall(r"pub (\w+): ([^,\n]+),", sm.group(1)) if sm else []
        out.append((st, st[4:], sname, idx, fields))
    return out


def value_expr(ty, k):
    """Rust expression of a value of type `ty` derived from the request's seed `s` (u32) and the field position k"""
    if ty == "u32":
        return f"s.wrapping_mul(2654435761).wrapping_add({k * 977 + 1})"
    if ty == "u16":
        return f"(s.wrapping_mul(40503).wrapping_add({k * 7919 + 3}) as u16)"
    if ty == "u8":
        return f"(s.wrapping_mul(167).wrapping_add({k * 31 + 5}) as u8)"
    if ty == "Guid":
        return f"Guid::new(((s as u64) << 24) | {k + 1})"
    am = re.fullmatch(r"\[(\w+); (\d+)\]", ty)
    if am:
        return "[" + ", ".join(value_expr(am.group(1), k * 16 + j + 1) for j in range(int(am.group(2)))) + "]"
    # an enum of the base crate: the (s mod 40)-th declared value
    return f"match pick::<wow_world_messages::EXP::{ty}>(s.wrapping_add({k})) {{ Some(x) => x, None => return \"noenumerator\".into() }}"


def doc_table(version_heading):
    """{object class: {FIELD: (offset, size, TYPE)}} from update-mask.md for one version section"""
    txt = open(os.path.join(REPO, "wowm_language/src/types/update-mask.md")).read()
    i = txt.index("### Version " + version_heading)
    j = txt.find("### Version ", i + 10)
    sec = txt[i: j if j > 0 else len(txt)]
    out = {}
    cur = None
    for line in sec.split("\n"):
        m = re.match(r"Fields that all (\w+) have:", line)
        if m:
            cur = DOC_SECTION.get(m.group(1))
            out.setdefault(cur, {})
            continue
        m = re.match(r"\|`(\w+)`\| (0x[0-9a-fA-F]+) \| (\d+) \| (\w+) \|", line)
        if m and cur:
            out[cur][m.group(1)] = (int(m.group(2), 16), int(m.group(3)), m.group(4))
    return out


def check_tables(exp, version_heading):
    """obligations: each typed accessor whose name matches a published row addresses that row's offset with a compatible
    primitive; no two accessors of one kind with different names overlap unless one is an indexed part of an array field"""
    acc = accessors(exp)
    doc = doc_table(version_heading)
    problems, n = [], 0
    TYPE_PRIM = {"GUID": "guid", "INT": "int", "FLOAT": "float", "BYTES": "bytes", "TWO_SHORT": "shorts"}
    for k in KINDS:
        rows = {}
        for cls in CHAIN[k]:
            for name, (off, size, ty) in doc.get(cls, {}).items():
                rows[name.lower()] = (off, size, ty, cls)
        for (setter, prim, bit, sig) in acc[k]["setters"]:
            name = setter[4:]
            if name in rows:
                n += 1
                off, size, ty, cls = rows[name]
                if bit != off:
                    problems.append({"exp": exp, "kind": k, "accessor": setter, "offset_in_code": bit, "offset_published": off})
                elif TYPE_PRIM.get(ty) not in (prim,) and not (ty in ("INT", "BYTES", "TWO_SHORT") and prim in ("int", "bytes", "shorts")):
                    problems.append({"exp": exp, "kind": k, "accessor": setter, "prim_in_code": prim, "type_published": ty})
                elif prim == "guid" and size % 2 != 0:
                    problems.append({"exp": exp, "kind": k, "accessor": setter, "problem": "guid accessor on a field that is not 2 words"})
        for g, (prim, bit) in acc[k]["getters"].items():
            s = next((x for x in acc[k]["setters"] if x[0] == "set_" + g), None)
            if s:
                n += 1
                if s[2] != bit or s[1] != prim:
                    problems.append({"exp": exp, "kind": k, "accessor": g, "problem": f"getter reads {prim}@{bit}, setter writes {s[1]}@{s[2]}"})
    return n, problems


def gen_harness():
    out = ["// @generated by /verif/tools/update_mask_tables.py — do not edit", "#![allow(clippy::all, unused)]", "use wow_world_messages::Guid;", "",
           "pub enum UmOp { Set(u16, u32), Guid(u16, u32, u32), Idx(u32, u32, u32), Reset, Mark }", "",
           "pub fn um_run(exp: &str, kind: &str, ops: &[UmOp]) -> Option<Result<(Vec<u8>, String), String>> {", "    match (exp, kind) {"]
    chosen = {}
    for exp in ("vanilla", "tbc", "wrath"):
        acc = accessors(exp)
        for k in KINDS:
            setters = [s for s in acc[k]["setters"] if s[1] in ("int", "float", "guid") and re.fullmatch(r"v: (i32|f32|Guid)", s[3])]
            # representative subset: first 8, last 6, every n-th in between (max 28)
            idx = sorted(set(list(range(min(8, len(setters)))) + list(range(max(0, len(setters) - 6), len(setters))) + list(range(8, max(8, len(setters) - 6), max(1, len(setters) // 14)))))
            sub = [setters[i] for i in idx]
            bybit = {}
            for s in sub:
                bybit.setdefault((s[1] == "guid", s[2]), s)
            chosen[(exp, k)] = [(s[0], s[1], s[2]) for s in bybit.values()]
            out.append(f'        ("{exp}", "{k}") => Some((|| {{')
            out.append(f"            let mut m = wow_world_messages::{exp}::Update{k}::new();")
            out.append("            for op in ops {")
            out.append("                match op {")
            out.append("                    UmOp::Set(bit, v) => match bit {")
            for (isg, bit), s in sorted(bybit.items()):
                if not isg:
                    conv = "*v as i32" if s[1] == "int" else "f32::from_bits(*v)"
                    out.append(f"                        {bit} => m.{s[0]}({conv}),")
            out.append('                        _ => return Err(format!("nosetter {bit}")),')
            out.append("                    },")
            out.append("                    UmOp::Guid(bit, lo, hi) => match bit {")
            for (isg, bit), s in sorted(bybit.items()):
                if isg:
                    out.append(f"                        {bit} => m.{s[0]}(Guid::new((*lo as u64) | ((*hi as u64) << 32))),")
            out.append('                        _ => return Err(format!("noguidsetter {bit}")),')
            out.append("                    },")
            idx = indexed_accessors(exp) if k == "Player" else []
            if idx:
                st, gt, en, _vals = idx[0]
                out.append(f"                    UmOp::Idx(slot, lo, hi) => match wow_world_messages::{exp}::{en}::try_from(*slot as u8) {{")
                out.append("                        Ok(sl) => {")
                out.append("                            let g = Guid::new((*lo as u64) | ((*hi as u64) << 32));")
                out.append(f"                            m.{st}(sl, g);")
                out.append(f"                            if m.{gt}(sl) != Some(g) {{ return Err(format!(\"getter-after-setter {{slot}}\")); }}")
                out.append("                        }")
                out.append('                        Err(_) => return Err(format!("noenumerator {slot}")),')
                out.append("                    },")
            else:
                out.append('                    UmOp::Idx(slot, _, _) => return Err(format!("noindexed {slot}")),')
            out.append("                    UmOp::Reset => m.dirty_reset(),")
            out.append("                    UmOp::Mark => m.mark_fully_dirty(),")
            out.append("                }")
            out.append("            }")
            out.append(f"            let mask = wow_world_messages::{exp}::UpdateMask::{k}(m);")
            if exp == "wrath":
                out.append(f"            let msg = wow_world_messages::{exp}::SMSG_UPDATE_OBJECT {{ objects: vec![wow_world_messages::{exp}::Object::Values {{ guid1: Guid::new(0), mask1: mask }}] }};")
            else:
                out.append(f"            let msg = wow_world_messages::{exp}::SMSG_UPDATE_OBJECT {{ has_transport: 0, objects: vec![wow_world_messages::{exp}::Object::Values {{ guid1: Guid::new(0), mask1: mask }}] }};")
            out.append("            let mut w = Vec::new();")
            out.append(f"            wow_world_messages::{exp}::ServerMessage::write_unencrypted_server(&msg, &mut w).map_err(|e| e.to_string())?;")
            # read the written message back through the public reader and write the decoded value again
            out.append(f"            let rt = match wow_world_messages::{exp}::opcodes::ServerOpcodeMessage::read_unencrypted(&mut std::io::Cursor::new(&w)) {{")
            out.append("                Ok(em) => {")
            out.append("                    let mut w2 = Vec::new();")
            out.append("                    em.write_unencrypted_server(&mut w2).map_err(|e| e.to_string())?;")
            out.append(f"                    let kind = match &em {{ wow_world_messages::{exp}::opcodes::ServerOpcodeMessage::SMSG_UPDATE_OBJECT(m2) => match m2.objects.first() {{ Some(wow_world_messages::{exp}::Object::Values {{ mask1, .. }}) => {{ let d = format!(\"{{mask1:?}}\"); d.split('(').next().unwrap_or(\"?\").to_string() }}, _ => \"?\".to_string() }}, _ => \"other-message\".to_string() }};")
            out.append("                    if w2 == w { format!(\"same:{kind}\") } else { format!(\"diff:{kind}:{}\", crate::hex(&w2)) }")
            out.append("                }")
            out.append("                Err(e) => { let d = format!(\"{e:?}\"); let d: String = d.split_whitespace().collect::<Vec<_>>().join(\"_\"); format!(\"err:{}\", &d[..d.len().min(160)]) }")
            out.append("            };")
            out.append("            Ok((w, rt))")
            out.append("        })()),")
    out += ["        _ => None,", "    }", "}"]
    # struct-valued accessors: set, read back through the getter, write, decode the written message
    out += ["", "fn pick<E: TryFrom<u32>>(s: u32) -> Option<E> { (0..4096u32).filter_map(|x| E::try_from(x).ok()).nth((s % 40) as usize) }", "",
            "/// `umx <exp> <accessor> <index> <seed>` -> `ok get=<0|1> rt=<same|diff|err..> words=<n>`",
            "pub fn um_struct(exp: &str, acc: &str, index: u32, s: u32) -> String {", "    match (exp, acc) {"]
    for exp in ("vanilla", "tbc", "wrath"):
        for (st, gt, sname, idx, fields) in struct_accessors(exp):
            init = ", ".join(f"{fn_}: {value_expr(ty, k).replace('EXP', exp)}" for k, (fn_, ty) in enumerate(fields))
            out.append(f'        ("{exp}", "{st}") => {{')
            out.append(f"            if wow_world_messages::{exp}::{idx}::try_from(index as u8).is_err() {{ return \"noindex\".into(); }}")
            out.append(f"            let ix = || wow_world_messages::{exp}::{idx}::try_from(index as u8).ok().unwrap();")
            out.append(f"            let v = wow_world_messages::{exp}::{sname} {{ {init} }};")
            out.append(f"            let mut m = wow_world_messages::{exp}::UpdatePlayer::new();")
            out.append(f"            m.{st}(v, ix());")
            out.append(f"            let got = m.{gt}(ix()) == Some(v);")
            out.append(f"            let b = wow_world_messages::{exp}::UpdatePlayer::builder().{st}(v, ix()).finalize();")
            out.append(f"            let got_b = b.{gt}(ix()) == Some(v);")
            out.append(f"            let mask = wow_world_messages::{exp}::UpdateMask::Player(m);")
            if exp == "wrath":
                out.append(f"            let msg = wow_world_messages::{exp}::SMSG_UPDATE_OBJECT {{ objects: vec![wow_world_messages::{exp}::Object::Values {{ guid1: Guid::new(0), mask1: mask }}] }};")
            else:
                out.append(f"            let msg = wow_world_messages::{exp}::SMSG_UPDATE_OBJECT {{ has_transport: 0, objects: vec![wow_world_messages::{exp}::Object::Values {{ guid1: Guid::new(0), mask1: mask }}] }};")
            out.append("            let mut w = Vec::new();")
            out.append(f"            if let Err(e) = wow_world_messages::{exp}::ServerMessage::write_unencrypted_server(&msg, &mut w) {{ return format!(\"err write {{e}}\"); }}")
            out.append(f"            format!(\"ok get={{}} getb={{}} frame={{}}\", got as u8, got_b as u8, crate::hex(&w))")
            out.append("        }")
    out += ['        _ => "bad-op".into(),', "    }", "}"]
    text = "\n".join(out) + "\n"
    path = os.path.join(VERIF, "harness", "world", "src", "gen_um.rs")
    if not os.path.exists(path) or open(path).read() != text:
        open(path, "w").write(text)
    return chosen


if __name__ == "__main__":
    for exp, ver in (("vanilla", "1.12"), ("tbc", "2.4.3"), ("wrath", "3.3.5")):
        n, p = check_tables(exp, ver)
        print(exp, n, "accessor obligations", len(p), "problems", p[:3])
    ch = gen_harness()
    print({k: len(v) for k, v in list(ch.items())[:7]})
