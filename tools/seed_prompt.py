#!/usr/bin/env python3
"""Prepare a scratch worktree for an independent seeding sub-agent and print its prompt.
usage: seed_prompt.py <PID> <round-tag>
The prompt contains only the property text, the worktree path and one line per earlier seed of the property."""
import json, os, subprocess, sys
pid, tag = sys.argv[1], sys.argv[2]
prop = None
for l in open('/verif/properties.jsonl'):
    p = json.loads(l)
    if p['id'] == pid:
        prop = p
wt = f"/tmp/seed/{pid}-{tag}"
if not os.path.isdir(wt):
    os.makedirs('/tmp/seed', exist_ok=True)
    subprocess.run(['git', '-C', '/repo', 'worktree', 'add', '--detach', wt, 'HEAD'], check=True, stdout=subprocess.DEVNULL, stderr=subprocess.DEVNULL)
earlier = []
for d in sorted(os.listdir('/verif/seeded')):
    if d.startswith(pid + '-'):
        earlier.append(d[len(pid) + 1:].replace('-', ' '))
text = {k: prop[k] for k in ('id', 'title', 'statement', 'quantifier', 'why_tests_cant', 'anchors')}
print(f"""You are helping to evaluate a verification effort for the open-source Rust project gtker/wow_messages (a code generator for World of Warcraft network messages plus the generated Rust codecs). Your job is to act as a realistic source of regressions: produce ONE change to the project that breaks the semantic property below, while the project still compiles and its existing test suite still passes.

Your own scratch git worktree of the repository is at {wt} (detached HEAD). Work ONLY inside that directory (and /tmp/seed/{pid}-{tag}-out for your outputs). Do NOT read or touch /repo, /verif or any other directory under /tmp/seed; do not look for verification machinery anywhere — what you write must be independent of it. The sandbox has no network; build with `cargo ... --offline` inside the worktree (use the worktree's own default target dir; a debug build of wow_world_messages takes ~3-4 minutes cold).

THE PROPERTY (this is all the specification you get):
{json.dumps(text, indent=1)}

Earlier changes already tried for this property (do something DIFFERENT in mechanism and location): {('; '.join(earlier)) if earlier else 'none'}.

Requirements for your change:
1. It must break the property as stated (for some input / history / configuration the property quantifies over), in a way a maintainer could plausibly commit by accident (refactor, optimisation, off-by-one, copy-paste, wrong constant, reordered statements, a generator template edit with the regenerated output, etc.).
2. It must need something SPECIFIC to manifest — an unusual input or boundary value, a rarely taken branch, a multi-step sequence of operations, a particular chunking/interleaving, a particular feature combination, or two cooperating sites that each look fine alone. NOT something that ordinary use or the existing tests would expose at once.
3. The workspace must still compile and the existing test suite must still pass: run `cargo test --workspace --no-fail-fast --offline` in the worktree BEFORE your change (note the pre-existing failures: a handful of cmsg_update_account_data tests already fail on the unchanged tree — those do not count) and AFTER it; the set of passing tests must be unchanged. If the change is in the generator (wow_message_parser) and affects generated files, include the regenerated files in the patch too, as a maintainer would (the generator is run with `cargo run -p wow_message_parser --release --offline` or similar from the worktree root; it writes into the worktree it was built in). If regenerating is impractical, hand-edit the generated output consistently.
4. Write a demonstration: a small Rust test / example / program (or script for generator-level properties) that FAILS with your change and PASSES without it, using only the project's public API (or the generator's command line). Verify both directions yourself.

Deliverables, all in /tmp/seed/{pid}-{tag}-out/ :
- patch.diff : `git diff` of the worktree (the change only, NOT the demonstration; must apply to the original HEAD with `git apply`).
- demo/ : the demonstration files plus a README with the exact commands to run it against a tree, and what it prints with / without the change.
- meta.agent.json : {{"property": "{pid}", "slug": "<short-kebab-case-name>", "breaks": "<mechanism, file(s), why plausible>", "needs_to_manifest": "<the specific input/sequence/config, with a concrete witness, and what does NOT show it>", "files_changed": [...], "tests_before": "<summary>", "tests_after": "<summary>", "demo_with_patch": "<result>", "demo_without_patch": "<result>"}}

When done, leave the worktree with the change applied (uncommitted). Reply with the slug, a 3-5 sentence summary of the change, the concrete witness, and confirmation of the test-suite and demo results. Be thorough and careful; take the time to read the relevant code before choosing the change.""")
