"""T-gen translator (code side): re-reads the generated Rust READERS (`read_inner` of every world / login message, `read` of every
struct) from /repo's current sources and translates each into the closed syntax of `Model/Sem.lean` — the same token format that
tools/corpus.py produces from the wowm definitions (specification side).  The Lean driver then decides whether the two programs
are the same decoder (`progeq`), so the theorems of Thm/C01, C03, C04 are re-checked against what the Rust code says now.

What is translated: the sequence of wire operations (which primitive is read at which width / endianness, which enum type
validates it, which struct / built-in reader is called), loops (counted, fixed, until-end), conditionals (`match` on a validated
enum, `if x.is_FLAG()` chains, `if current_size < body_size` optionals).  What is NOT translated: how the values are moved into the
result (`Ok(Self { .. })`), allocation guards, the size guard at the top (C09 compares that one) — the value plumbing is exercised by
the correspondence streams.

Strict: a statement that is not recognised makes the whole container `untranslated` with the offending text; nothing is skipped
silently.  Identifiers become variable ids through `vid(name)` on both sides (tools/corpus.py, name_ids=True)."""
import os, re, sys, zlib
sys.path.insert(0, os.path.dirname(__file__))

REPO = os.environ.get("VERIF_REPO", "/repo")
EXPS = {"vanilla": (1, 12), "tbc": (2, 4, 3), "wrath": (3, 3, 5)}
LOGIN_VERSIONS = [2, 3, 5, 6, 7, 8]
PRIM_READS = {"UpdateMask", "AuraMask", "EnchantMask", "InspectTalentGearMask", "CacheMask", "NamedGuid", "VariableItemRandomProperty", "AddonArray"}
PRIM_VERSIONED = {"AuraMask", "AddonArray", "UpdateMask"}


def vid(name):
    """variable id of a member name (shared with tools/corpus.py)"""
    if name.startswith("r#"):
        name = name[2:]
    return zlib.crc32(name.encode()) & 0x3FFFFFFF


class Untranslated(Exception):
    pass


# ------------------------------------------------------------------------------------------------ lexer / statement parser
TOK = re.compile(r"""\s*(?:
    (?P<id>(?:r\#)?[A-Za-z_][A-Za-z0-9_]*!?) |
    (?P<num>0x[0-9a-fA-F_]+(?:_?[ui]\d+)?|\d[\d_]*(?:\.\d+)?(?:_?[a-z]+\d+)?) |
    (?P<str>"(?:[^"\\]|\\.)*") |
    (?P<chr>'(?:[^'\\]|\\.)') |
    (?P<op>::|->|=>|==|!=|<=|>=|&&|\|\||\+=|-=|\*=|\.\.=|\.\.|<<|>>|[{}()\[\];,.<>=+\-*/&|!?:\#%^@$'])
)""", re.X)


def lex(src):
    out, i, n = [], 0, len(src)
    while i < n:
        # comments
        while True:
            m = re.compile(r"\s*").match(src, i)
            i = m.end()
            if src.startswith("//", i):
                j = src.find("\n", i)
                i = n if j < 0 else j
                continue
            if src.startswith("/*", i):
                i = src.find("*/", i) + 2
                continue
            break
        if i >= n:
            break
        m = TOK.match(src, i)
        if not m or m.end() == i:
            raise Untranslated(f"lexer stuck at {src[i:i+30]!r}")
        out.append(m.group(m.lastgroup))
        i = m.end()
    return out


OPEN = {"{": "}", "(": ")", "[": "]"}
CLOSE = set(OPEN.values())


class P:
    """statement-level parser of the printed Rust subset"""

    def __init__(self, toks):
        self.t, self.i = toks, 0

    def peek(self, k=0):
        return self.t[self.i + k] if self.i + k < len(self.t) else None

    def eat(self, x=None):
        v = self.peek()
        if x is not None and v != x:
            raise Untranslated(f"expected {x!r}, found {v!r} near {' '.join(self.t[max(0, self.i - 8):self.i + 4])}")
        self.i += 1
        return v

    def flat_until(self, stops, stop_at_brace=False):
        """tokens up to (not including) one of `stops` at nesting depth 0"""
        out, depth = [], 0
        while True:
            v = self.peek()
            if v is None:
                raise Untranslated("unexpected end of input")
            if depth == 0 and (v in stops or (stop_at_brace and v == "{")):
                return out
            if v in OPEN:
                depth += 1
            elif v in CLOSE:
                if depth == 0:
                    return out
                depth -= 1
            out.append(self.eat())

    def block(self):
        self.eat("{")
        stmts = []
        while self.peek() != "}":
            stmts.append(self.stmt())
        self.eat("}")
        return stmts

    def expr(self, stops):
        v = self.peek()
        if v == "{":
            return ("block", self.block())
        if v == "if":
            return self.if_()
        if v == "match":
            return self.match_()
        return ("flat", self.flat_until(stops))

    def if_(self):
        self.eat("if")
        cond = self.flat_until((), stop_at_brace=True)
        then = self.block()
        els = None
        if self.peek() == "else":
            self.eat()
            els = [("expr", self.if_())] if self.peek() == "if" else self.block()
        return ("if", cond, then, els)

    def match_(self):
        self.eat("match")
        scrut = self.flat_until((), stop_at_brace=True)
        self.eat("{")
        arms = []
        while self.peek() != "}":
            pat = self.flat_until(("=>",))
            self.eat("=>")
            if self.peek() == "{":
                body = self.block()
            else:
                body = [("expr", ("flat", self.flat_until((",",))))]
            if self.peek() == ",":
                self.eat()
            arms.append((pat, body))
        self.eat("}")
        return ("match", scrut, arms)

    def stmt(self):
        v = self.peek()
        if v == "let":
            self.eat()
            if self.peek() == "mut":
                self.eat()
            pat = self.flat_until(("=", ";"))
            e = None
            if self.peek() == "=":
                self.eat()
                e = self.expr((";",))
            self.eat(";")
            return ("let", pat, e)
        if v == "for":
            self.eat()
            pat = self.flat_until(("in",))
            self.eat("in")
            it = self.flat_until((), stop_at_brace=True)
            return ("for", pat, it, self.block())
        if v == "while":
            self.eat()
            cond = self.flat_until((), stop_at_brace=True)
            return ("while", cond, self.block())
        if v == "return":
            self.eat()
            e = self.flat_until((";",))
            self.eat(";")
            return ("return", e)
        if v in ("if", "match", "{"):
            e = self.expr((";",))
            if self.peek() == ";":
                self.eat()
            return ("expr", e)
        # assignment or expression statement
        j, depth = self.i, 0
        lhs = None
        while j < len(self.t):
            x = self.t[j]
            if depth == 0 and x in ("=", "+=", "-=") and j > self.i:
                lhs = self.t[self.i:j]
                op = x
                break
            if depth == 0 and x in (";", "}"):
                break
            if x in OPEN:
                depth += 1
            elif x in CLOSE:
                depth -= 1
            j += 1
        if lhs is not None:
            self.i = j + 1
            e = self.expr((";",))
            self.eat(";")
            return ("assign", lhs, op, e)
        e = self.flat_until((";",))
        if self.peek() == ";":
            self.eat()
            return ("expr", ("flat", e))
        return ("expr", ("flat", e))      # trailing expression of a block


# ------------------------------------------------------------------------------------------------ type index
INT_W = {"u8": 1, "u16": 2, "u32": 4, "u64": 8, "i8": 1, "i16": 2, "i32": 4, "i64": 8, "f32": 4, "u48": 6}


def exps_of_shared(fname):
    s = fname[:-3]
    out = []
    while True:
        for e in ("wrath", "tbc", "vanilla"):
            if s.endswith("_" + e):
                out.append(e)
                s = s[:-len(e) - 1]
                break
        else:
            break
    return out


class Index:
    """(expansion | 'loginN', type name) -> file, for generated enums / flags (wow_world_base, login) and structs / messages"""

    def __init__(self):
        self.defs = {}       # (ctx, name) -> path
        self.cache = {}
        base = os.path.join(REPO, "wow_world_base/src/inner")
        world = os.path.join(REPO, "wow_world_messages/src/world")
        for root in (base, world):
            for e in EXPS:
                d = os.path.join(root, e)
                for f in sorted(os.listdir(d)):
                    if f.endswith(".rs") and f not in ("mod.rs", "opcodes.rs"):
                        self.add(e, os.path.join(d, f))
            d = os.path.join(root, "shared")
            for f in sorted(os.listdir(d)):
                if f.endswith(".rs") and f != "mod.rs":
                    for e in exps_of_shared(f):
                        self.add(e, os.path.join(d, f))
        lg = os.path.join(REPO, "wow_login_messages/src/logon")
        for v in LOGIN_VERSIONS:
            # a login version re-exports the definitions of earlier versions that it does not redefine (mod.rs `pub use`)
            modrs = open(os.path.join(lg, f"version_{v}/mod.rs")).read()
            for m in re.finditer(r"pub use crate::logon::(\w+)::(\w+)::\*;|pub use crate::logon::(\w+)::(\w+);", modrs):
                ver, mod = (m.group(1), m.group(2)) if m.group(1) else (m.group(3), None)
                if mod:
                    p = os.path.join(lg, ver, mod + ".rs")
                    if os.path.exists(p):
                        self.add(f"login{v}", p)
            for f in sorted(os.listdir(os.path.join(lg, f"version_{v}"))):
                if f.endswith(".rs") and f not in ("mod.rs", "opcodes.rs"):
                    self.add(f"login{v}", os.path.join(lg, f"version_{v}", f))
            for f in sorted(os.listdir(os.path.join(lg, "all"))):
                if f.endswith(".rs") and f not in ("mod.rs", "opcodes.rs"):
                    self.add(f"login{v}", os.path.join(lg, "all", f), weak=True)

    def src(self, path):
        if path not in self.cache:
            self.cache[path] = open(path, encoding="utf-8").read()
        return self.cache[path]

    def add(self, ctx, path, weak=False):
        s = self.src(path)
        for m in re.finditer(r"(?m)^pub(?:\(crate\))? (?:struct|enum) (\w+)", s):
            if weak and (ctx, m.group(1)) in self.defs:
                continue
            self.defs[(ctx, m.group(1))] = path

    def lookup(self, ctx, name):
        p = self.defs.get((ctx, name))
        if p is None:
            raise Untranslated(f"type {name} not found for {ctx}")
        return p

    def enum_values(self, ctx, name):
        """declared enumerators (variant, value) of a generated enum, from its as_int table"""
        s = self.src(self.lookup(ctx, name))
        m = re.search(r"impl " + name + r" \{\s*pub(?:\(crate\))? const fn as_int\(&self\) -> (\w+) \{\s*match self \{(.*?)\n\s*\}\s*\}", s, re.S)
        if not m:
            raise Untranslated(f"{name}: no as_int table")
        vals = []
        for line in m.group(2).strip().split("\n"):
            mm = re.fullmatch(r"\s*Self::(\w+) => (-?(?:0x[0-9a-fA-F_]+|\d+)),", line)
            if not mm:
                raise Untranslated(f"{name}: unreadable as_int arm {line.strip()!r}")
            vals.append((mm.group(1), int(mm.group(2).replace("_", ""), 0)))
        return m.group(1), vals

    def flag_consts(self, ctx, name):
        s = self.src(self.lookup(ctx, name))
        m = re.search(r"pub struct " + name + r" \{\s*inner: (\w+),", s)
        if not m:
            raise Untranslated(f"{name}: not a flag type")
        consts = {}
        for mm in re.finditer(r"pub const (\w+): " + m.group(1) + r" = (0x[0-9a-fA-F_]+|\d+);", s):
            consts[mm.group(1)] = int(mm.group(2).replace("_", ""), 0)
        isx = {}
        for mm in re.finditer(r"pub const fn (is_\w+)\(&self\) -> bool \{\s*\(self\.inner & Self::(\w+)\) != 0\s*\}", s):
            isx[mm.group(1)] = consts[mm.group(2)]
        return m.group(1), isx

    def kind(self, ctx, name):
        s = self.src(self.lookup(ctx, name))
        if re.search(r"pub struct " + name + r" \{\s*inner: \w+,\s*\}", s):
            return "flag"
        if re.search(r"impl " + name + r" \{\s*pub(?:\(crate\))? const fn as_int\(&self\)", s):
            return "enum"
        return "struct"


# ------------------------------------------------------------------------------------------------ translation
READ_RE = re.compile(r"crate :: util :: (?:tokio_|astd_)?read_(\w+) \( (?:& mut r|r) (?:, ([^)]*))?\) (?:\. await )?\?")
STRUCT_READ_RE = re.compile(r"(?:crate :: \w+ :: )?(\w+) :: (?:tokio_|astd_)?read \( & mut r \) (?:\. await )?\?")
UTIL_STRUCT_RE = re.compile(r"crate :: util :: (\w+)_read \( & mut r \) (?:\. await )?\?")


class Translator:
    def __init__(self, index=None):
        self.ix = index or Index()
        self.struct_memo = {}

    # ---- field declarations of the types defined in a file (for the target type of `.try_into()?`)
    def field_types(self, src):
        out = {}
        head = src.split("\nimpl ", 1)[0] if "\nimpl " in src else src
        for body in re.findall(r"pub(?:\(crate\))? (?:struct|enum) \w+ \{\n(.*?)\n\}", src, re.S):
            for m in re.finditer(r"(?m)^\s+(?:pub )?((?:r#)?\w+): ([^\n]+?),$", body):
                t = m.group(2)
                t = re.sub(r"^(?:Option|Vec)<(.*)>$", r"\1", t)
                t = re.sub(r"^\[(.*); \d+\]$", r"\1", t)
                out.setdefault(m.group(1), set()).add(t)
        return out

    def fn_body(self, src, names):
        for nm in names:
            m = re.search(r"\n    (?:pub\(crate\) |pub )?fn " + nm + r"(?:<[^>]*>)?\(", src)
            if m:
                i = src.index("{", src.index(")", m.end()))
                # return type may contain braces? no
                depth, j = 0, i
                while True:
                    c = src[j]
                    if c == '"':
                        j += 1
                        while src[j] != '"':
                            j += 2 if src[j] == "\\" else 1
                    elif c == "{":
                        depth += 1
                    elif c == "}":
                        depth -= 1
                        if depth == 0:
                            return src[i:j + 1]
                    j += 1
        return None

    def container(self, ctx, path, type_name, fn_names):
        src = self.ix.src(path)
        # several types may live in one file (flag helper structs); cut the impl block of `type_name`
        m = re.search(r"\nimpl " + re.escape(type_name) + r" \{\n", src)
        body = None
        while m:
            end = src.find("\n}\n", m.end())
            blk = src[m.start():end + 3]
            body = self.fn_body(blk, fn_names)
            if body:
                break
            m = re.compile(r"\nimpl " + re.escape(type_name) + r" \{\n").search(src, end)
        if body is None:
            raise Untranslated(f"{type_name}: no {'/'.join(fn_names)} function")
        stmts = P(lex(body)).block()
        st = {"ctx": ctx, "ftypes": self.field_types(src), "scruts": [], "lens": {}, "fixed": {}, "types": {}, "flagty": {}}
        return self.ops_to_tokens(self.block(stmts, st))

    # ---- ops:  ("f", name, typetoks) | ("fe", name, typetoks) | ("if", var, [(condtoks, ops)], elseops) | ("opt", ops)
    #            | ("loopv", var, ops) | ("loopf", n, ops) | ("loope", ops)
    def ops_to_tokens(self, ops):
        out = []
        for o in ops:
            if o[0] == "f":
                out += ["f", str(vid(o[1])), "p"] + o[2]
            elif o[0] == "fe":
                out += ["fe", str(vid(o[1]))] + o[2]
            elif o[0] == "if":
                out += ["if", str(vid(o[1])), str(len(o[2]))]
                for c, b in o[2]:
                    out += c + self.ops_to_tokens(b) + ["end"]
                out += self.ops_to_tokens(o[3]) + ["end"]
            elif o[0] == "opt":
                out += ["opt"] + self.ops_to_tokens(o[1]) + ["end"]
            else:
                raise Untranslated(f"loop outside an array context: {o[0]}")
        return out

    def elem_type(self, ops, what):
        if len(ops) != 1 or ops[0][0] != "f":
            raise Untranslated(f"{what}: loop body is not a single element read ({[o[0] for o in ops]})")
        return ops[0][2]

    def strip_if(self, name, st):
        for s in st["scruts"]:
            if name.startswith(s + "_if_"):
                return name[len(s) + 4:]
        return name

    def leaf(self, text, name, st):
        """flat expression text (space-joined tokens) -> type tokens or None when it reads nothing"""
        ctx = st["ctx"]
        m = UTIL_STRUCT_RE.search(text)
        if m and m.group(1) not in ("monster_move_spline",):
            return self.util_struct(ctx, m.group(1))
        m = STRUCT_READ_RE.search(text)
        if m:
            t = m.group(1)
            if t in PRIM_READS:
                return ["prim", t + ("_" + (ctx[5:] if ctx.startswith("login") else "_".join(map(str, EXPS[ctx]))) if t in PRIM_VERSIONED else "")]
            return self.struct(ctx, t)
        m = READ_RE.search(text)
        if not m:
            return None
        fn, arg = m.group(1), m.group(2)
        pre, post = text[:m.start()].strip(), text[m.end():].strip()
        mi = re.fullmatch(r"([uif])(\d+)_(le|be)", fn)
        if mi:
            k, e = int(mi.group(2)) // 8, mi.group(3)
            base = ["int", str(k), e]
            if post == ". try_into ( ) ?" and pre == "":
                ty = self.enum_target(name, st)
                ity, vals = self.ix.enum_values(ctx, ty)
                vs = [v + (1 << (8 * k)) if v < 0 else v for _, v in vals]
                return ["enum", str(k), e, str(len(vs))] + [str(v) for v in vs]
            if pre == "" and post == "":
                return base
            if pre == "" and post == ". into ( )" and mi.group(1) == "f":
                return base          # Population: an f32 newtype
            mw = re.fullmatch(r"(\w+) :: new \(", pre)
            if mw and post in (")", "as u8 )"):
                w = mw.group(1)
                if w == "Level":
                    if post == "as u8 )":
                        return ["lvl", str(k)]
                    if k == 1:
                        return base
                elif post == ")":
                    if w == "Gold" and k == 4:
                        return base
                    if self.ix.kind(ctx, w) == "flag":
                        fty, _ = self.ix.flag_consts(ctx, w)
                        if INT_W[fty] != k:
                            # a flag read at another width than its own (upcast)
                            raise Untranslated(f"flag {w} ({fty}) read at width {k}")
                        st["flagty"][name] = w
                        return base
            if re.fullmatch(r"Duration :: from_(secs|millis) \(", pre) and post in (". into ( ) )", ")") and k == 4:
                return base
            if pre == "DateTime :: try_from (" and post == ") ?" and k == 4 and e == "le":
                return ["datetime"]
            if pre == "Ipv4Addr :: from (" and post == ")" and k == 4:
                return base
            raise Untranslated(f"unrecognised wrapper around read_{fn}: {text}")
        if pre == "" and post == "":
            simple = {"guid": ["int", "8", "le"], "packed_guid": ["packedguid"], "bool_u8": ["bool", "1"], "bool_u16": ["bool", "2"], "bool_u32": ["bool", "4"],
                      "c_string_to_vec": ["cstring"], "monster_move_spline": ["prim", "MonsterMoveSplines"],
                      "achievement_done": ["prim", "AchievementDoneArray"], "achievement_in_progress": ["prim", "AchievementInProgressArray"]}
            if fn in simple and not arg:
                return simple[fn]
            if fn == "sized_c_string_to_vec" and arg:
                a = arg.strip()
                if st["lens"].get(a) == ["int", "4", "le"]:
                    st["lens"][a] = "used"
                    return ["sizedcstring"]
            if fn == "fixed_string_to_vec" and arg:
                a = re.sub(r" as usize$", "", arg.strip())
                if st["lens"].get(a) == ["int", "1", "le"]:
                    st["lens"][a] = "used"
                    return ["string"]
        raise Untranslated(f"unrecognised read: {text}")

    def enum_target(self, name, st):
        if name in st["types"]:
            return st["types"][name]
        ts = st["ftypes"].get(name) or st["ftypes"].get("r#" + name)
        if ts and len(ts) > 1:
            ts = {t for t in ts if (st["ctx"], t) in self.ix.defs and self.ix.kind(st["ctx"], t) == "enum"}
        if ts and len(ts) == 1:
            return next(iter(ts))
        raise Untranslated(f"cannot determine the enum type of `{name}` ({ts})")

    def struct(self, ctx, name):
        key = (ctx, name)
        if key not in self.struct_memo:
            self.struct_memo[key] = None
            try:
                path = self.ix.lookup(ctx, name)
                self.struct_memo[key] = ["struct"] + self.container(ctx, path, name, ["read", "read_inner"]) + ["end"]
            except Untranslated as ex:
                self.struct_memo[key] = ex
        if self.struct_memo[key] is None:
            raise Untranslated(f"recursive struct {name}")
        if isinstance(self.struct_memo[key], Untranslated):
            raise Untranslated(f"struct {name}: {self.struct_memo[key]}")
        return self.struct_memo[key]

    def util_struct(self, ctx, fn):
        key = (ctx, "util::" + fn)
        if key not in self.struct_memo:
            path = os.path.join(REPO, "wow_world_messages/src/util/functions/shared.rs")
            src = self.ix.src(path)
            m = re.search(r"\npub\(crate\) fn " + fn + r"_read<R: std::io::Read>\(mut r: R\) -> Result<([\w:]+), [\w:]+> \{\n", src)
            if not m:
                raise Untranslated(f"util reader {fn}_read not found")
            end = src.find("\n}\n", m.end())
            body = src[m.end() - 2:end + 2]
            ret = m.group(1).split("::")
            tname = ret[-1]
            # field types of the returned struct (wow_world_base)
            tctx = ret[1] if ret[1] in EXPS else ctx
            tsrc = self.ix.src(self.ix.lookup(tctx, tname))
            st = {"ctx": ctx, "ftypes": self.field_types(tsrc), "scruts": [], "lens": {}, "fixed": {}, "types": {}, "flagty": {}}
            try:
                self.struct_memo[key] = ["struct"] + self.ops_to_tokens(self.block(P(lex(body)).block(), st)) + ["end"]
            except Untranslated as ex:
                self.struct_memo[key] = ex
        if isinstance(self.struct_memo[key], Untranslated):
            raise Untranslated(f"util reader {fn}: {self.struct_memo[key]}")
        return self.struct_memo[key]

    NOOP = [r"Default :: default \( \)", r"Vec :: with_capacity \(.*\)", r"\[ .* ; \d+ \]( \. map \(.*\))?", r"u64 :: from \( \w+ \)( \* \d+)?",
            r"String :: from_utf8 \( \w+ \) \?", r"\w+ \{.*\}", r"\w+( :: \w+)* \{.*\}", r"Ok \(.*\)", r"Some \(.*\)", r"None", r"\w+", r"\d+( \+ .*)?",
            r"\w+ \. push \( \w+ \)", r"String :: default \( \)", r"Self :: \w+", r"\w+( :: \w+)+"]

    def expr_ops(self, e, name, st):
        """ops performed by evaluating expression e whose value is bound to `name`"""
        k = e[0]
        if k == "flat":
            text = " ".join(e[1])
            mp = re.fullmatch(r"(\w+) \. push \( (.*) \)", text)
            if mp:
                text = mp.group(2)
                name = name or mp.group(1)
            t = self.leaf(text, name, st)
            if t is None:
                if "read" in text and "r" in e[1] and re.search(r"\bread\w*\b \(", text):
                    raise Untranslated(f"unrecognised reading expression: {text}")
                if not any(re.fullmatch(p, text) for p in self.NOOP):
                    raise Untranslated(f"unrecognised expression: {text}")
                return []
            return [("f", name or "_", t)]
        if k == "block":
            stmts = e[1]
            if len(stmts) == 3 and stmts[2][0] == "expr" and stmts[2][1][0] == "flat":
                m48 = re.fullmatch(r"(\w+) :: new \( \( a as u64 \) \| \( \( b as u64 \) << 32 \) \)", " ".join(stmts[2][1][1]))
                if m48:
                    two = self.block(stmts[:2], st)
                    if two == [("f", "a", ["int", "4", "le"]), ("f", "b", ["int", "2", "le"])] and self.ix.kind(st["ctx"], m48.group(1)) == "flag":
                        st["flagty"][name] = m48.group(1)
                        return [("f", name, ["int", "6", "le"])]
            ops = self.block(stmts, st)
            return self.rename(ops, name)
        if k == "if":
            return self.if_ops(e, name, st)
        if k == "match":
            return self.match_ops(e, st)
        raise Untranslated(f"expression kind {k}")

    def rename(self, ops, name):
        vals = [o for o in ops if o[0] in ("f", "fe")]
        if len(ops) == 1 and len(vals) == 1 and name:
            o = ops[0]
            return [(o[0], name, o[2])]
        return ops

    def if_ops(self, e, name, st):
        _, cond, then, els = e
        ctext = " ".join(cond)
        m = re.fullmatch(r"(\w+) \. (is_\w+) \( \)", ctext)
        if m:
            var, isx = m.group(1), m.group(2)
            fty = st["flagty"].get(var)
            if not fty:
                raise Untranslated(f"`{var}` is not a flag read in this reader")
            _, table = self.ix.flag_consts(st["ctx"], fty)
            if isx not in table:
                raise Untranslated(f"{fty} has no {isx}")
            arms = [(["and", "1", str(table[isx])], self.block(then, st))]
            elsops = []
            while els is not None:
                if len(els) == 1 and els[0][0] == "expr" and els[0][1][0] == "if":
                    _, c2, t2, e2 = els[0][1]
                    m2 = re.fullmatch(r"(\w+) \. (is_\w+) \( \)", " ".join(c2))
                    if not m2 or m2.group(1) != var or m2.group(2) not in table:
                        raise Untranslated(f"else-if over something else: {' '.join(c2)}")
                    arms.append((["and", "1", str(table[m2.group(2)])], self.block(t2, st)))
                    els = e2
                else:
                    elsops = self.block(els, st)
                    els = None
            return [("if", var, arms, elsops)]
        if re.fullmatch(r"current_size < body_size as usize|current_size < \( body_size as usize \)", ctext):
            if els is None or self.block(els, st):
                raise Untranslated("optional with a reading else branch")
            return [("opt", self.block(then, st))]
        if re.fullmatch(r"! \( \d+ \.\.= \d+ \) \. contains \( & body_size \)|body_size != \d+|body_size > \d+", ctext) or \
           re.fullmatch(r"allocation_size > crate :: errors :: \w+|u64 :: from \( \w+ \) > crate :: errors :: \w+", ctext):
            # size guard (C09 compares it) / allocation guard: must only return an error
            if els is not None or not all(s[0] == "return" for s in then):
                raise Untranslated(f"guard with a body other than return: {ctext}")
            return []
        raise Untranslated(f"unrecognised condition: {ctext}")

    def match_ops(self, e, st):
        _, scrut, arms = e
        var = " ".join(scrut)
        if not re.fullmatch(r"\w+", var):
            raise Untranslated(f"match on {var}")
        ety = None
        parsed = []
        for pat, body in arms:
            ptxt = " ".join(pat)
            m = re.fullmatch(r"(\w+) :: (\w+)", ptxt)
            if not m:
                raise Untranslated(f"match arm pattern {ptxt}")
            if ety and m.group(1) != ety:
                raise Untranslated("match arms over several types")
            ety = m.group(1)
            parsed.append((m.group(2), body))
        _, vals = self.ix.enum_values(st["ctx"], ety)
        table = dict(vals)
        if st["types"].get(var) not in (None, ety):
            raise Untranslated(f"`{var}` matched as {ety} but read as {st['types'][var]}")
        if [p[0] for p in parsed] != [v[0] for v in vals]:
            raise Untranslated(f"match on {var}: arms {[p[0] for p in parsed][:4]}… are not exactly the enumerators of {ety}")
        st["scruts"].append(var)
        out = []
        for vn, body in parsed:
            out.append((["eq", "1", str(table[vn])], self.block(body, st)))
        st["scruts"].pop()
        if not any(b for _, b in out):
            return []           # a match that only builds the result value performs no wire operation
        return [("if", var, out, [])]

    def block(self, stmts, st):
        ops = []
        # pre-pass: the enum type of a matched variable is known from its arms
        for s in stmts:
            e = s[2] if s[0] == "let" else s[3] if s[0] == "assign" else s[1] if s[0] == "expr" else None
            if e and e[0] == "match" and e[2]:
                m = re.fullmatch(r"(\w+) :: (\w+)", " ".join(e[2][0][0]))
                if m and re.fullmatch(r"\w+", " ".join(e[1])):
                    st["types"].setdefault(" ".join(e[1]), m.group(1))
        for s in stmts:
            k = s[0]
            if k == "let" or k == "assign":
                if k == "let":
                    pat, e = s[1], s[2]
                    ptxt = " ".join(pat)
                    m = re.fullmatch(r"(\w+)(?: : .*)?", ptxt)
                    if not m:
                        raise Untranslated(f"let pattern {ptxt}")
                    name = m.group(1)
                    if e is None:
                        continue
                else:
                    lhs, op, e = s[1], s[2], s[3]
                    ltxt = " ".join(lhs)
                    if ltxt == "current_size" and op == "+=":
                        continue
                    m = re.fullmatch(r"\*? ?(\w+)", ltxt)
                    if not m or op != "=":
                        raise Untranslated(f"assignment to {ltxt} {op}")
                    name = self.strip_if(m.group(1), st)
                    if name == "i":
                        name = "_elem"
                if name == "current_size":
                    continue
                if name.startswith("_") and name != "_elem":
                    name = name[1:]
                if e[0] == "flat":
                    text = " ".join(e[1])
                    mf = re.fullmatch(r"\[ .* ; (\d+) \]( \. map \(.*\))?", text)
                    if mf:
                        st["fixed"][name] = int(mf.group(1))
                        continue
                    if re.fullmatch(r"(\w+) \{ inner : (\w+) \. as_int \( \) ,.*\}", text):
                        continue
                new = self.expr_ops(e, name, st)
                for o in new:
                    if o[0] == "f" and o[2] in (["int", "4", "le"], ["int", "1", "le"]):
                        st["lens"][o[1]] = o[2]
                # a length prefix consumed by the following sized read disappears into that leaf
                if new and new[-1][0] == "f" and new[-1][2] in (["sizedcstring"], ["string"]) and ops and ops[-1][0] == "f" and ops[-1][2] in (["int", "4", "le"], ["int", "1", "le"]) and st["lens"].get(ops[-1][1]) == "used":
                    st["lens"].pop(ops[-1][1])
                    ops.pop()
                ops += new
            elif k == "for":
                pat, it, body = " ".join(s[1]), " ".join(s[2]), s[3]
                inner = self.block(body, st)
                m = re.fullmatch(r"0 \.\. (\w+)", it)
                m2 = re.fullmatch(r"(\w+) \. iter_mut \( \)", it)
                if m:
                    ops.append(("f", "_arr", ["arrv", str(vid(m.group(1)))] + self.elem_type(inner, it)))
                elif m2 and m2.group(1) in st["fixed"]:
                    ops.append(("f", m2.group(1), ["arrf", str(st["fixed"][m2.group(1)])] + self.elem_type(inner, it)))
                else:
                    raise Untranslated(f"for loop over {it}")
            elif k == "while":
                ctext = " ".join(s[1])
                if not re.fullmatch(r"current_size < \( body_size as usize \)", ctext):
                    raise Untranslated(f"while {ctext}")
                inner = self.block(s[2], st)
                ops.append(("fe", "_arr", self.elem_type(inner, ctext)))
            elif k == "return":
                raise Untranslated(f"return outside a guard: {' '.join(s[1])}")
            elif k == "expr":
                e = s[1]
                if e[0] == "flat":
                    text = " ".join(e[1])
                    m = re.fullmatch(r"r \. read_exact \( & mut (\w+) \) \?", text)
                    if m and m.group(1) in st["fixed"]:
                        ops.append(("f", m.group(1), ["arrf", str(st["fixed"][m.group(1)]), "int", "1", "le"]))
                        continue
                ops += self.expr_ops(e, None, st)
            else:
                raise Untranslated(f"statement kind {k}")
        return ops


def message_files():
    """(ctx, kind-agnostic type name, path) of every generated world / login message"""
    world = os.path.join(REPO, "wow_world_messages/src/world")
    out = []
    for e in EXPS:
        for f in sorted(os.listdir(os.path.join(world, e))):
            if re.match(r"(c|s)?msg_", f):
                out.append((e, os.path.join(world, e, f)))
    for f in sorted(os.listdir(os.path.join(world, "shared"))):
        if re.match(r"(c|s)?msg_", f):
            for e in exps_of_shared(f):
                out.append((e, os.path.join(world, "shared", f)))
    lg = os.path.join(REPO, "wow_login_messages/src/logon")
    for v in LOGIN_VERSIONS:
        seen = set()
        d = os.path.join(lg, f"version_{v}")
        for f in sorted(os.listdir(d)):
            if f.startswith("cmd_"):
                out.append((f"login{v}", os.path.join(d, f)))
                seen.add(f)
        for m in re.finditer(r"pub use crate::logon::(\w+)::(cmd_\w+)::\*;", open(os.path.join(d, "mod.rs")).read()):
            out.append((f"login{v}", os.path.join(lg, m.group(1), m.group(2) + ".rs")))
        for f in sorted(os.listdir(os.path.join(lg, "all"))):
            if f.startswith("cmd_"):
                out.append((f"login{v}", os.path.join(lg, "all", f)))
    return out


MSG_TYPE_RE = re.compile(r"(?m)^impl (?:crate::Message|ClientMessage|ServerMessage|crate::private::Sealed) for (\w+)")


def translate_all():
    """-> list of dict(key-ish fields, tokens | untranslated)"""
    tr = Translator()
    out = []
    for ctx, path in message_files():
        src = tr.ix.src(path)
        m = re.search(r"(?m)^pub (?:struct|enum) (\w+)", src)
        name = m.group(1)
        d = {"ctx": ctx, "rust_type": name, "file": os.path.relpath(path, REPO)}
        try:
            d["tokens"] = tr.container(ctx, path, name, ["read_inner", "read"]) + ["end"]
        except Untranslated as ex:
            d["untranslated"] = str(ex)
        out.append(d)
    return out


if __name__ == "__main__":
    import collections
    res = translate_all()
    bad = [r for r in res if "untranslated" in r]
    print(len(res), "readers;", len(bad), "untranslated")
    c = collections.Counter(re.sub(r"`[^`]*`|\d+", "#", b["untranslated"])[:90] for b in bad)
    for k, v in c.most_common(40):
        print(v, k)
    for b in bad[:int(sys.argv[1]) if len(sys.argv) > 1 else 0]:
        print(b["file"], b["untranslated"][:200])
