"""T-gen translator (code side): re-reads the generated Rust READERS (`read_inner` of every world / login message, `read` of every
struct) from /repo's current sources and translates each into the closed syntax of `Model/Sem.lean` — the same token format that
tools/corpus.py produces from the wowm definitions (specification side).  The Lean driver then decides whether the two programs
are the same decoder (`progeq`), so the theorems of Thm/C01, C03, C04 are re-checked against what the Rust code says now.

What is translated: the sequence of wire operations (which primitive is read at which width / endianness, which enum type
validates it, which struct / built-in reader is called), loops (counted, fixed, until-end), conditionals (`match` on a validated
enum, `if x.is_FLAG()` chains, `if current_size < body_size` optionals).  What is NOT translated: how the values are moved into the
result (`Ok(Self { .. })`), allocation guards, the size guard at the top (C09 compares that one) — the value plumbing is exercised by
the correspondence streams.

Strict: a statement that is not recognised makes the whole container `untranslated` with the offending text; nothing is skipped
silently.  Identifiers become variable ids through `vid(name)` on both sides (tools/corpus.py, name_ids=True)."""
import os, re, sys, zlib
sys.path.insert(0, os.path.dirname(__file__))

REPO = os.environ.get("VERIF_REPO", "/repo")
EXPS = {"vanilla": (1, 12), "tbc": (2, 4, 3), "wrath": (3, 3, 5)}
LOGIN_VERSIONS = [2, 3, 5, 6, 7, 8]
PRIM_READS = {"UpdateMask", "AuraMask", "EnchantMask", "InspectTalentGearMask", "CacheMask", "NamedGuid", "VariableItemRandomProperty", "AddonArray"}
PRIM_VERSIONED = {"AuraMask", "AddonArray", "UpdateMask"}


def vid(name):
    """variable id of a member name (shared with tools/corpus.py)"""
    if name.startswith("r#"):
        name = name[2:]
    return zlib.crc32(name.encode()) & 0x3FFFFFFF


class Untranslated(Exception):
    pass


# ------------------------------------------------------------------------------------------------ lexer / statement parser
TOK = re.compile(r"""\s*(?:
    (?P<id>(?:r\#)?[A-Za-z_][A-Za-z0-9_]*!?) |
    (?P<num>0x[0-9a-fA-F_]+(?:_?[ui]\d+)?|\d[\d_]*(?:\.\d+)?(?:_?[a-z]+\d+)?) |
    (?P<str>"(?:[^"\\]|\\.)*") |
    (?P<chr>'(?:[^'\\]|\\.)') |
    (?P<op>::|->|=>|==|!=|<=|>=|&&|\|\||\+=|-=|\*=|\.\.=|\.\.|<<|>>|[{}()\[\];,.<>=+\-*/&|!?:\#%^@$'])
)""", re.X)


def lex(src):
    out, i, n = [], 0, len(src)
    while i < n:
        # comments
        while True:
            m = re.compile(r"\s*").match(src, i)
            i = m.end()
            if src.startswith("//", i):
                j = src.find("\n", i)
                i = n if j < 0 else j
                continue
            if src.startswith("/*", i):
                i = src.find("*/", i) + 2
                continue
            break
        if i >= n:
            break
        m = TOK.match(src, i)
        if not m or m.end() == i:
            raise Untranslated(f"lexer stuck at {src[i:i+30]!r}")
        out.append(m.group(m.lastgroup))
        i = m.end()
    return out


OPEN = {"{": "}", "(": ")", "[": "]"}
CLOSE = set(OPEN.values())


class P:
    """statement-level parser of the printed Rust subset"""

    def __init__(self, toks):
        self.t, self.i = toks, 0

    def peek(self, k=0):
        return self.t[self.i + k] if self.i + k < len(self.t) else None

    def eat(self, x=None):
        v = self.peek()
        if x is not None and v != x:
            raise Untranslated(f"expected {x!r}, found {v!r} near {' '.join(self.t[max(0, self.i - 8):self.i + 4])}")
        self.i += 1
        return v

    def flat_until(self, stops, stop_at_brace=False):
        """tokens up to (not including) one of `stops` at nesting depth 0"""
        out, depth = [], 0
        while True:
            v = self.peek()
            if v is None:
                raise Untranslated("unexpected end of input")
            if depth == 0 and (v in stops or (stop_at_brace and v == "{")):
                return out
            if v in OPEN:
                depth += 1
            elif v in CLOSE:
                if depth == 0:
                    return out
                depth -= 1
            out.append(self.eat())

    def block(self):
        self.eat("{")
        stmts = []
        while self.peek() != "}":
            stmts.append(self.stmt())
        self.eat("}")
        return stmts

    def expr(self, stops):
        v = self.peek()
        if v == "{":
            return ("block", self.block())
        if v == "if":
            return self.if_()
        if v == "match":
            return self.match_()
        return ("flat", self.flat_until(stops))

    def if_(self):
        self.eat("if")
        cond = self.flat_until((), stop_at_brace=True)
        then = self.block()
        els = None
        if self.peek() == "else":
            self.eat()
            els = [("expr", self.if_())] if self.peek() == "if" else self.block()
        return ("if", cond, then, els)

    def match_(self):
        self.eat("match")
        scrut = self.flat_until((), stop_at_brace=True)
        self.eat("{")
        arms = []
        while self.peek() != "}":
            pat = self.flat_until(("=>",))
            self.eat("=>")
            if self.peek() == "{":
                body = self.block()
            else:
                body = [("expr", ("flat", self.flat_until((",",))))]
            if self.peek() == ",":
                self.eat()
            arms.append((pat, body))
        self.eat("}")
        return ("match", scrut, arms)

    def stmt(self):
        v = self.peek()
        if v == "let":
            self.eat()
            if self.peek() == "mut":
                self.eat()
            pat = self.flat_until(("=", ";"))
            e = None
            if self.peek() == "=":
                self.eat()
                e = self.expr((";",))
            self.eat(";")
            return ("let", pat, e)
        if v == "for":
            self.eat()
            pat = self.flat_until(("in",))
            self.eat("in")
            it = self.flat_until((), stop_at_brace=True)
            return ("for", pat, it, self.block())
        if v == "while":
            self.eat()
            cond = self.flat_until((), stop_at_brace=True)
            return ("while", cond, self.block())
        if v == "return":
            self.eat()
            e = self.flat_until((";",))
            self.eat(";")
            return ("return", e)
        if v in ("if", "match", "{"):
            e = self.expr((";",))
            if self.peek() == ";":
                self.eat()
            return ("expr", e)
        # assignment or expression statement
        j, depth = self.i, 0
        lhs = None
        while j < len(self.t):
            x = self.t[j]
            if depth == 0 and x in ("=", "+=", "-=") and j > self.i:
                lhs = self.t[self.i:j]
                op = x
                break
            if depth == 0 and x in (";", "}"):
                break
            if x in OPEN:
                depth += 1
            elif x in CLOSE:
                depth -= 1
            j += 1
        if lhs is not None:
            self.i = j + 1
            e = self.expr((";",))
            self.eat(";")
            return ("assign", lhs, op, e)
        e = self.flat_until((";",))
        if self.peek() == ";":
            self.eat()
            return ("expr", ("flat", e))
        return ("expr", ("flat", e))      # trailing expression of a block


# ------------------------------------------------------------------------------------------------ type index
INT_W = {"u8": 1, "u16": 2, "u32": 4, "u64": 8, "i8": 1, "i16": 2, "i32": 4, "i64": 8, "f32": 4, "u48": 6}


def exps_of_shared(fname):
    s = fname[:-3]
    out = []
    while True:
        for e in ("wrath", "tbc", "vanilla"):
            if s.endswith("_" + e):
                out.append(e)
                s = s[:-len(e) - 1]
                break
        else:
            break
    return out


class Index:
    """(expansion | 'loginN', type name) -> file, for generated enums / flags (wow_world_base, login) and structs / messages"""

    def __init__(self):
        self.defs = {}       # (ctx, name) -> path
        self.cache = {}
        base = os.path.join(REPO, "wow_world_base/src/inner")
        world = os.path.join(REPO, "wow_world_messages/src/world")
        for root in (base, world):
            for e in EXPS:
                d = os.path.join(root, e)
                for f in sorted(os.listdir(d)):
                    if f.endswith(".rs") and f not in ("mod.rs", "opcodes.rs"):
                        self.add(e, os.path.join(d, f))
            d = os.path.join(root, "shared")
            for f in sorted(os.listdir(d)):
                if f.endswith(".rs") and f != "mod.rs":
                    for e in exps_of_shared(f):
                        self.add(e, os.path.join(d, f))
        lg = os.path.join(REPO, "wow_login_messages/src/logon")
        for v in LOGIN_VERSIONS:
            # a login version re-exports the definitions of earlier versions that it does not redefine (mod.rs `pub use`)
            modrs = open(os.path.join(lg, f"version_{v}/mod.rs")).read()
            for m in re.finditer(r"pub use crate::logon::(\w+)::(\w+)::\*;|pub use crate::logon::(\w+)::(\w+);", modrs):
                ver, mod = (m.group(1), m.group(2)) if m.group(1) else (m.group(3), None)
                if mod:
                    p = os.path.join(lg, ver, mod + ".rs")
                    if os.path.exists(p):
                        self.add(f"login{v}", p)
            for f in sorted(os.listdir(os.path.join(lg, f"version_{v}"))):
                if f.endswith(".rs") and f not in ("mod.rs", "opcodes.rs"):
                    self.add(f"login{v}", os.path.join(lg, f"version_{v}", f))
            for f in sorted(os.listdir(os.path.join(lg, "all"))):
                if f.endswith(".rs") and f not in ("mod.rs", "opcodes.rs"):
                    self.add(f"login{v}", os.path.join(lg, "all", f), weak=True)

    def src(self, path):
        if path not in self.cache:
            self.cache[path] = open(path, encoding="utf-8").read()
        return self.cache[path]

    def add(self, ctx, path, weak=False):
        s = self.src(path)
        for m in re.finditer(r"(?m)^pub(?:\(crate\))? (?:struct|enum) (\w+)", s):
            if weak and (ctx, m.group(1)) in self.defs:
                continue
            self.defs[(ctx, m.group(1))] = path

    def lookup(self, ctx, name):
        p = self.defs.get((ctx, name))
        if p is None:
            raise Untranslated(f"type {name} not found for {ctx}")
        return p

    def enum_values(self, ctx, name):
        """declared enumerators (variant, value) of a generated enum, from its as_int table"""
        s = self.src(self.lookup(ctx, name))
        m = re.search(r"impl " + name + r" \{\s*pub(?:\(crate\))? const fn as_int\(&self\) -> (\w+) \{\s*match self \{(.*?)\n\s*\}\s*\}", s, re.S)
        if not m:
            raise Untranslated(f"{name}: no as_int table")
        vals = []
        for line in m.group(2).strip().split("\n"):
            mm = re.fullmatch(r"\s*Self::(\w+) => (-?(?:0x[0-9a-fA-F_]+|\d+)),", line)
            if not mm:
                raise Untranslated(f"{name}: unreadable as_int arm {line.strip()!r}")
            vals.append((mm.group(1), int(mm.group(2).replace("_", ""), 0)))
        return m.group(1), vals

    def flag_consts(self, ctx, name):
        s = self.src(self.lookup(ctx, name))
        m = re.search(r"pub struct " + name + r" \{\s*inner: (\w+),", s)
        if not m:
            raise Untranslated(f"{name}: not a flag type")
        consts = {}
        for mm in re.finditer(r"pub const (\w+): " + m.group(1) + r" = (0x[0-9a-fA-F_]+|\d+);", s):
            consts[mm.group(1)] = int(mm.group(2).replace("_", ""), 0)
        isx = {}
        for mm in re.finditer(r"pub const fn (is_\w+)\(&self\) -> bool \{\s*\(self\.inner & Self::(\w+)\) != 0\s*\}", s):
            isx[mm.group(1)] = consts[mm.group(2)]
        return m.group(1), isx

    def kind(self, ctx, name):
        s = self.src(self.lookup(ctx, name))
        if re.search(r"pub struct " + name + r" \{\s*inner: \w+,\s*\}", s):
            return "flag"
        if re.search(r"impl " + name + r" \{\s*pub(?:\(crate\))? const fn as_int\(&self\)", s):
            return "enum"
        return "struct"


# ------------------------------------------------------------------------------------------------ translation
READ_RE = re.compile(r"crate :: util :: (?:tokio_|astd_)?read_(\w+) \( (?:& mut r|r) (?:, ([^)]*))?\) (?:\. await )?\?")
STRUCT_READ_RE = re.compile(r"(?:crate :: \w+ :: )?(\w+) :: (?:tokio_|astd_)?read \( & mut r \) (?:\. await )?\?")
UTIL_STRUCT_RE = re.compile(r"crate :: util :: (\w+)_read \( & mut r \) (?:\. await )?\?")


def fixed_size(toks):
    """static size in bytes of a type given as tokens, or None when it depends on the value"""
    pos = [0]

    def ty():
        t = toks[pos[0]]
        pos[0] += 1
        if t == "int":
            k = int(toks[pos[0]])
            pos[0] += 2
            return k
        if t in ("bool", "lvl"):
            k = int(toks[pos[0]])
            pos[0] += 1
            return k
        if t == "enum":
            k = int(toks[pos[0]])
            n = int(toks[pos[0] + 2])
            pos[0] += 3 + n
            return k
        if t == "datetime":
            return 4
        if t == "prim":
            pos[0] += 1
            return None
        if t in ("cstring", "sizedcstring", "string", "packedguid"):
            return None
        if t == "arrf":
            n = int(toks[pos[0]])
            pos[0] += 1
            e = ty()
            return None if e is None else n * e
        if t == "arrv":
            pos[0] += 1
            ty()
            return None
        if t == "struct":
            total = 0
            while toks[pos[0]] != "end":
                if toks[pos[0]] != "f":
                    # conditional / endless / optional member: variable
                    depth = 0
                    return None
                role = toks[pos[0] + 2]
                pos[0] += 4 if role == "c" else 3
                e = ty()
                total = None if (total is None or e is None) else total + e
            pos[0] += 1
            return total
        raise Untranslated(f"fixed_size: token {t}")
    try:
        return ty()
    except (IndexError, ValueError):
        return None


class Translator:
    def __init__(self, index=None):
        self.ix = index or Index()
        self.struct_memo = {}

    # ---- field declarations of the types defined in a file (for the target type of `.try_into()?`)
    def field_types(self, src):
        out = {}
        head = src.split("\nimpl ", 1)[0] if "\nimpl " in src else src
        for body in re.findall(r"pub(?:\(crate\))? (?:struct|enum) \w+ \{\n(.*?)\n\}", src, re.S):
            for m in re.finditer(r"(?m)^\s+(?:pub )?((?:r#)?\w+): ([^\n]+?),$", body):
                t = m.group(2)
                t = re.sub(r"^(?:Option|Vec)<(.*)>$", r"\1", t)
                t = re.sub(r"^\[(.*); \d+\]$", r"\1", t)
                out.setdefault(m.group(1), set()).add(t)
        return out

    def fn_body(self, src, names):
        for nm in names:
            m = re.search(r"\n    (?:pub\(crate\) |pub )?fn " + nm + r"(?:<[^>]*>)?\(", src)
            if m:
                i = src.index("{", src.index(")", m.end()))
                # return type may contain braces? no
                depth, j = 0, i
                while True:
                    c = src[j]
                    if c == '"':
                        j += 1
                        while src[j] != '"':
                            j += 2 if src[j] == "\\" else 1
                    elif c == "{":
                        depth += 1
                    elif c == "}":
                        depth -= 1
                        if depth == 0:
                            return src[i:j + 1]
                    j += 1
        return None

    def container(self, ctx, path, type_name, fn_names):
        src = self.ix.src(path)
        # several types may live in one file (flag helper structs); cut the impl block of `type_name`
        m = re.search(r"\nimpl " + re.escape(type_name) + r" \{\n", src)
        body = None
        while m:
            end = src.find("\n}\n", m.end())
            blk = src[m.start():end + 3]
            body = self.fn_body(blk, fn_names)
            if body:
                break
            m = re.compile(r"\nimpl " + re.escape(type_name) + r" \{\n").search(src, end)
        if body is None:
            raise Untranslated(f"{type_name}: no {'/'.join(fn_names)} function")
        stmts = P(lex(body)).block()
        st = {"ctx": ctx, "ftypes": self.field_types(src), "scruts": [], "lens": {}, "fixed": {}, "types": {}, "flagty": {}, "top": None}
        return self.ops_to_tokens(self.block(stmts, st))

    # ---- ops:  ("f", name, typetoks) | ("fe", name, typetoks) | ("if", var, [(condtoks, ops)], elseops) | ("opt", ops)
    #            | ("loopv", var, ops) | ("loopf", n, ops) | ("loope", ops)
    def count_renames(self, ops, ren):
        """the count variable of a counted array is named after the array (`len:<array>`), as the writer and the specification side do"""
        for o in ops:
            if o[0] == "f" and len(o[2]) > 1 and o[2][0] == "arrv" and o[2][1].startswith("@var:"):
                ren.setdefault(o[2][1][5:], "len:" + o[1])
            elif o[0] == "if":
                for _, b in o[2]:
                    self.count_renames(b, ren)
                self.count_renames(o[3], ren)
            elif o[0] == "opt":
                self.count_renames(o[1], ren)
        return ren

    def ops_to_tokens(self, ops, ren=None):
        if ren is None:
            ren = self.count_renames(ops, {})
        out = []
        nm = lambda n: str(vid(ren.get(n, n)))
        fix = lambda toks: [nm(t[5:]) if t.startswith("@var:") else t for t in toks]
        for o in ops:
            if o[0] == "f":
                out += ["f", nm(o[1]), "p"] + fix(o[2])
            elif o[0] == "fe":
                out += ["fe", nm(o[1])] + fix(o[2])
            elif o[0] == "if":
                out += ["if", nm(o[1]), str(len(o[2]))]
                for c, b in o[2]:
                    out += c + self.ops_to_tokens(b, ren) + ["end"]
                out += self.ops_to_tokens(o[3], ren) + ["end"]
            elif o[0] == "opt":
                out += ["opt"] + self.ops_to_tokens(o[1], ren) + ["end"]
            else:
                raise Untranslated(f"loop outside an array context: {o[0]}")
        return out

    def check_increment(self, et, incs):
        """the until-the-end loop must advance `current_size` by exactly the bytes of the element it has just read"""
        if len(incs) != 1:
            raise Untranslated(f"endless loop advances current_size {len(incs)} times")
        inc = incs[0]
        fs = fixed_size([t for t in et if not t.startswith("@var:")] if not any(t.startswith("@var:") for t in et) else ["arrv", "0", "int", "1", "le"])
        if re.fullmatch(r"\d+", inc):
            if fs is None or fs != int(inc):
                raise Untranslated(f"endless loop counts {inc} bytes per element, the element {' '.join(et[:6])}… takes {fs if fs is not None else 'a variable number of'} bytes")
            return
        if re.fullmatch(r"\w+ \. size \( \)", inc) and et[0] in ("struct", "prim"):
            return
        if re.fullmatch(r"crate :: util :: packed_guid_size \( & \w+ \)", inc) and et == ["packedguid"]:
            return
        if re.fullmatch(r"\w+ \. len \( \) \+ 1", inc) and et == ["cstring"]:
            return
        if re.fullmatch(r"\w+ \. len \( \) \+ 5", inc) and et == ["sizedcstring"]:
            return
        raise Untranslated(f"endless loop counts `{inc}` per element of type {' '.join(et[:6])}…")

    def elem_type(self, ops, what):
        if len(ops) != 1 or ops[0][0] != "f":
            raise Untranslated(f"{what}: loop body is not a single element read ({[o[0] for o in ops]})")
        return ops[0][2]

    def strip_if(self, name, st):
        for s in st["scruts"]:
            if name.startswith(s + "_if_"):
                return name[len(s) + 4:]
        return name

    def leaf(self, text, name, st):
        """flat expression text (space-joined tokens) -> type tokens or None when it reads nothing"""
        ctx = st["ctx"]
        m = UTIL_STRUCT_RE.search(text)
        if m and m.group(1) not in ("monster_move_spline",):
            return self.util_struct(ctx, m.group(1))
        m = STRUCT_READ_RE.search(text)
        if m:
            t = m.group(1)
            if t in PRIM_READS:
                return ["prim", t + ("_" + (ctx[5:] if ctx.startswith("login") else "_".join(map(str, EXPS[ctx]))) if t in PRIM_VERSIONED else "")]
            return self.struct(ctx, t)
        m = READ_RE.search(text)
        if not m:
            return None
        fn, arg = m.group(1), m.group(2)
        pre, post = text[:m.start()].strip(), text[m.end():].strip()
        mi = re.fullmatch(r"([uif])(\d+)_(le|be)", fn)
        if mi:
            k, e = int(mi.group(2)) // 8, mi.group(3)
            base = ["int", str(k), e]
            if post == ". try_into ( ) ?" and pre == "":
                ty = self.enum_target(name, st)
                ity, vals = self.ix.enum_values(ctx, ty)
                vs = [v + (1 << (8 * k)) if v < 0 else v for _, v in vals]
                return ["enum", str(k), e, str(len(vs))] + [str(v) for v in vs]
            if pre == "" and post == "":
                return base
            if pre == "" and post == ". into ( )" and mi.group(1) == "f":
                return base          # Population: an f32 newtype
            mw = re.fullmatch(r"(\w+) :: new \(", pre)
            if mw and post in (")", "as u8 )"):
                w = mw.group(1)
                if w == "Level":
                    if post == "as u8 )":
                        return ["lvl", str(k)]
                    if k == 1:
                        return base
                elif post == ")":
                    if w == "Gold" and k == 4:
                        return base
                    if self.ix.kind(ctx, w) == "flag":
                        fty, _ = self.ix.flag_consts(ctx, w)
                        if INT_W[fty] != k:
                            # a flag read at another width than its own (upcast)
                            raise Untranslated(f"flag {w} ({fty}) read at width {k}")
                        st["flagty"][name] = w
                        return base
            if re.fullmatch(r"Duration :: from_(secs|millis) \(", pre) and post in (". into ( ) )", ")") and k == 4:
                return base
            if pre == "DateTime :: try_from (" and post == ") ?" and k == 4 and e == "le":
                return ["datetime"]
            if pre == "Ipv4Addr :: from (" and post == ")" and k == 4:
                return base
            raise Untranslated(f"unrecognised wrapper around read_{fn}: {text}")
        if pre == "" and post == "":
            simple = {"guid": ["int", "8", "le"], "packed_guid": ["packedguid"], "bool_u8": ["bool", "1"], "bool_u16": ["bool", "2"], "bool_u32": ["bool", "4"],
                      "c_string_to_vec": ["cstring"], "monster_move_spline": ["prim", "MonsterMoveSplines"],
                      "achievement_done": ["prim", "AchievementDoneArray"], "achievement_in_progress": ["prim", "AchievementInProgressArray"]}
            if fn in simple and not arg:
                return simple[fn]
            if fn == "sized_c_string_to_vec" and arg:
                a = arg.strip()
                if st["lens"].get(a) == ["int", "4", "le"]:
                    st["lens"][a] = "used"
                    return ["sizedcstring"]
            if fn == "fixed_string_to_vec" and arg:
                a = re.sub(r" as usize$", "", arg.strip())
                if st["lens"].get(a) == ["int", "1", "le"]:
                    st["lens"][a] = "used"
                    return ["string"]
        raise Untranslated(f"unrecognised read: {text}")

    def enum_target(self, name, st):
        if name in st["types"]:
            return st["types"][name]
        ts = st["ftypes"].get(name) or st["ftypes"].get("r#" + name)
        if ts and len(ts) > 1:
            ts = {t for t in ts if (st["ctx"], t) in self.ix.defs and self.ix.kind(st["ctx"], t) == "enum"}
        if ts and len(ts) == 1:
            return next(iter(ts))
        raise Untranslated(f"cannot determine the enum type of `{name}` ({ts})")

    def struct(self, ctx, name):
        key = (ctx, name)
        if key not in self.struct_memo:
            self.struct_memo[key] = None
            try:
                path = self.ix.lookup(ctx, name)
                self.struct_memo[key] = ["struct"] + self.container(ctx, path, name, ["read", "read_inner"]) + ["end"]
            except Untranslated as ex:
                self.struct_memo[key] = ex
        if self.struct_memo[key] is None:
            raise Untranslated(f"recursive struct {name}")
        if isinstance(self.struct_memo[key], Untranslated):
            raise Untranslated(f"struct {name}: {self.struct_memo[key]}")
        return self.struct_memo[key]

    def util_struct(self, ctx, fn):
        key = (ctx, "util::" + fn)
        if key not in self.struct_memo:
            path = os.path.join(REPO, "wow_world_messages/src/util/functions/shared.rs")
            src = self.ix.src(path)
            m = re.search(r"\npub\(crate\) fn " + fn + r"_read<R: std::io::Read>\(mut r: R\) -> Result<([\w:]+), [\w:]+> \{\n", src)
            if not m:
                raise Untranslated(f"util reader {fn}_read not found")
            end = src.find("\n}\n", m.end())
            body = src[m.end() - 2:end + 2]
            ret = m.group(1).split("::")
            tname = ret[-1]
            # field types of the returned struct (wow_world_base)
            tctx = ret[1] if ret[1] in EXPS else ctx
            tsrc = self.ix.src(self.ix.lookup(tctx, tname))
            st = {"ctx": ctx, "ftypes": self.field_types(tsrc), "scruts": [], "lens": {}, "fixed": {}, "types": {}, "flagty": {}}
            try:
                self.struct_memo[key] = ["struct"] + self.ops_to_tokens(self.block(P(lex(body)).block(), st)) + ["end"]
            except Untranslated as ex:
                self.struct_memo[key] = ex
        if isinstance(self.struct_memo[key], Untranslated):
            raise Untranslated(f"util reader {fn}: {self.struct_memo[key]}")
        return self.struct_memo[key]

    NOOP = [r"Default :: default \( \)", r"Vec :: with_capacity \(.*\)", r"\[ .* ; \d+ \]( \. map \(.*\))?", r"u64 :: from \( \w+ \)( \* \d+)?",
            r"String :: from_utf8 \( \w+ \) \?", r"\w+ \{.*\}", r"\w+( :: \w+)* \{.*\}", r"Ok \(.*\)", r"Some \(.*\)", r"None", r"\w+", r"\d+( \+ .*)?",
            r"\w+ \. push \( \w+ \)", r"String :: default \( \)", r"Self :: \w+", r"\w+( :: \w+)+"]

    def expr_ops(self, e, name, st):
        """ops performed by evaluating expression e whose value is bound to `name`"""
        k = e[0]
        if k == "flat":
            text = " ".join(e[1])
            mp = re.fullmatch(r"(\w+) \. push \( (.*) \)", text)
            if mp:
                text = mp.group(2)
                name = name or mp.group(1)
            t = self.leaf(text, name, st)
            if t is None:
                if "read" in text and "r" in e[1] and re.search(r"\bread\w*\b \(", text):
                    raise Untranslated(f"unrecognised reading expression: {text}")
                if not any(re.fullmatch(p, text) for p in self.NOOP):
                    raise Untranslated(f"unrecognised expression: {text}")
                return []
            return [("f", name or "_", t)]
        if k == "block":
            stmts = e[1]
            if len(stmts) == 3 and stmts[2][0] == "expr" and stmts[2][1][0] == "flat":
                m48 = re.fullmatch(r"(\w+) :: new \( \( a as u64 \) \| \( \( b as u64 \) << 32 \) \)", " ".join(stmts[2][1][1]))
                if m48:
                    two = self.block(stmts[:2], st)
                    if two == [("f", "a", ["int", "4", "le"]), ("f", "b", ["int", "2", "le"])] and self.ix.kind(st["ctx"], m48.group(1)) == "flag":
                        st["flagty"][name] = m48.group(1)
                        return [("f", name, ["int", "6", "le"])]
            ops = self.block(stmts, st)
            return self.rename(ops, name)
        if k == "if":
            return self.if_ops(e, name, st)
        if k == "match":
            return self.match_ops(e, st)
        raise Untranslated(f"expression kind {k}")

    def rename(self, ops, name):
        vals = [o for o in ops if o[0] in ("f", "fe")]
        if len(ops) == 1 and len(vals) == 1 and name:
            o = ops[0]
            return [(o[0], name, o[2])]
        return ops

    def if_ops(self, e, name, st):
        _, cond, then, els = e
        ctext = " ".join(cond)
        m = re.fullmatch(r"(\w+) \. (is_\w+) \( \)", ctext)
        if m:
            var, isx = m.group(1), m.group(2)
            fty = st["flagty"].get(var)
            if not fty:
                raise Untranslated(f"`{var}` is not a flag read in this reader")
            _, table = self.ix.flag_consts(st["ctx"], fty)
            if isx not in table:
                raise Untranslated(f"{fty} has no {isx}")
            arms = [(["and", "1", str(table[isx])], self.block(then, st))]
            elsops = []
            while els is not None:
                if len(els) == 1 and els[0][0] == "expr" and els[0][1][0] == "if":
                    _, c2, t2, e2 = els[0][1]
                    m2 = re.fullmatch(r"(\w+) \. (is_\w+) \( \)", " ".join(c2))
                    if not m2 or m2.group(1) != var or m2.group(2) not in table:
                        raise Untranslated(f"else-if over something else: {' '.join(c2)}")
                    arms.append((["and", "1", str(table[m2.group(2)])], self.block(t2, st)))
                    els = e2
                else:
                    elsops = self.block(els, st)
                    els = None
            return [("if", var, arms, elsops)]
        if re.fullmatch(r"current_size < body_size as usize|current_size < \( body_size as usize \)", ctext):
            if els is None or self.block(els, st):
                raise Untranslated("optional with a reading else branch")
            return [("opt", self.block(then, st))]
        if re.fullmatch(r"! \( \d+ \.\.= \d+ \) \. contains \( & body_size \)|body_size != \d+|body_size > \d+", ctext) or \
           re.fullmatch(r"allocation_size > crate :: errors :: \w+|u64 :: from \( \w+ \) > crate :: errors :: \w+", ctext):
            # size guard (C09 compares it) / allocation guard: must only return an error
            if els is not None or not all(s[0] == "return" for s in then):
                raise Untranslated(f"guard with a body other than return: {ctext}")
            return []
        raise Untranslated(f"unrecognised condition: {ctext}")

    def match_ops(self, e, st):
        _, scrut, arms = e
        var = " ".join(scrut)
        if not re.fullmatch(r"\w+", var):
            raise Untranslated(f"match on {var}")
        ety = None
        parsed = []
        for pat, body in arms:
            ptxt = " ".join(pat)
            m = re.fullmatch(r"(\w+) :: (\w+)", ptxt)
            if not m:
                raise Untranslated(f"match arm pattern {ptxt}")
            if ety and m.group(1) != ety:
                raise Untranslated("match arms over several types")
            ety = m.group(1)
            parsed.append((m.group(2), body))
        _, vals = self.ix.enum_values(st["ctx"], ety)
        table = dict(vals)
        if st["types"].get(var) not in (None, ety):
            raise Untranslated(f"`{var}` matched as {ety} but read as {st['types'][var]}")
        if [p[0] for p in parsed] != [v[0] for v in vals]:
            raise Untranslated(f"match on {var}: arms {[p[0] for p in parsed][:4]}… are not exactly the enumerators of {ety}")
        st["scruts"].append(var)
        out = []
        for vn, body in parsed:
            out.append((["eq", "1", str(table[vn])], self.block(body, st)))
        st["scruts"].pop()
        if not any(b for _, b in out):
            return []           # a match that only builds the result value performs no wire operation
        return [("if", var, out, [])]

    def check_initial_size(self, e, st):
        """`let mut current_size = { … }` in front of an until-the-end loop: the bytes of everything read before the array.  Compared with the
        members the reader has read so far (top level of the container); a conditional member before the array makes the static sum wrong"""
        top = st.get("top")
        if top is None or e[0] != "block" or len(e[1]) != 1 or e[1][0][0] != "expr" or e[1][0][1][0] != "flat":
            return
        toks = e[1][0][1][1]
        terms, cur, depth = [], [], 0
        for t in toks:
            if t in OPEN:
                depth += 1
            elif t in CLOSE:
                depth -= 1
            if t == "+" and depth == 0:
                terms.append(" ".join(cur))
                cur = []
            else:
                cur.append(t)
        terms.append(" ".join(cur))
        got_const = sum(int(t) for t in terms if re.fullmatch(r"\d+", t))
        got_sym = sorted(t for t in terms if not re.fullmatch(r"\d+", t))
        want_const, want_sym = 0, []
        for o in top:
            if o[0] in ("if", "opt"):
                raise Untranslated(f"current_size of the endless array is a static sum ({' + '.join(terms)[:80]}) although conditional members are read before the array")
            if o[0] != "f":
                return
            name, tk = o[1], o[2]
            if any(t.startswith("@var:") for t in tk):
                return              # counted array before the endless one: not compared
            fs = fixed_size(tk)
            if fs is not None:
                want_const += fs
            elif tk == ["cstring"]:
                want_const += 1
                want_sym.append(f"{name} . len ( )")
            elif tk == ["sizedcstring"]:
                want_const += 5
                want_sym.append(f"{name} . len ( )")
            elif tk == ["packedguid"]:
                want_sym.append(f"crate :: util :: packed_guid_size ( & {name} )")
            elif tk[0] in ("struct", "prim"):
                want_sym.append(f"{name} . size ( )")
            else:
                return
        if got_const != want_const or got_sym != sorted(want_sym):
            raise Untranslated(f"current_size of the endless array starts at {' + '.join(terms)[:120]} but the members read before it take {want_const}{''.join(' + ' + x for x in want_sym)} bytes")

    def block(self, stmts, st):
        ops = []
        is_top = st.get("top") is None
        if is_top:
            st["top"] = ops
        try:
            return self.block_(stmts, st, ops)
        finally:
            if is_top:
                st["top"] = None

    def block_(self, stmts, st, ops):
        # pre-pass: the enum type of a matched variable is known from its arms
        for s in stmts:
            e = s[2] if s[0] == "let" else s[3] if s[0] == "assign" else s[1] if s[0] == "expr" else None
            if e and e[0] == "match" and e[2]:
                m = re.fullmatch(r"(\w+) :: (\w+)", " ".join(e[2][0][0]))
                if m and re.fullmatch(r"\w+", " ".join(e[1])):
                    st["types"].setdefault(" ".join(e[1]), m.group(1))
        for s in stmts:
            k = s[0]
            if k == "let" or k == "assign":
                if k == "let":
                    pat, e = s[1], s[2]
                    ptxt = " ".join(pat)
                    m = re.fullmatch(r"(\w+)(?: : .*)?", ptxt)
                    if not m:
                        raise Untranslated(f"let pattern {ptxt}")
                    name = m.group(1)
                    if e is None:
                        continue
                else:
                    lhs, op, e = s[1], s[2], s[3]
                    ltxt = " ".join(lhs)
                    if ltxt == "current_size" and op == "+=":
                        st.setdefault("incs", []).append(" ".join(e[1]) if e[0] == "flat" else "<block>")
                        continue
                    m = re.fullmatch(r"\*? ?(\w+)", ltxt)
                    if not m or op != "=":
                        raise Untranslated(f"assignment to {ltxt} {op}")
                    name = self.strip_if(m.group(1), st)
                    if name == "i":
                        name = "_elem"
                if name == "current_size":
                    self.check_initial_size(e, st)
                    continue
                if name.startswith("_") and name != "_elem":
                    name = name[1:]
                if e[0] == "flat":
                    text = " ".join(e[1])
                    mf = re.fullmatch(r"\[ .* ; (\d+) \]( \. map \(.*\))?", text)
                    if mf:
                        st["fixed"][name] = int(mf.group(1))
                        continue
                    if re.fullmatch(r"(\w+) \{ inner : (\w+) \. as_int \( \) ,.*\}", text):
                        continue
                new = self.expr_ops(e, name, st)
                for o in new:
                    if o[0] == "f" and o[2] in (["int", "4", "le"], ["int", "1", "le"]):
                        st["lens"][o[1]] = o[2]
                # a length prefix consumed by the following sized read disappears into that leaf
                if new and new[-1][0] == "f" and new[-1][2] in (["sizedcstring"], ["string"]) and ops and ops[-1][0] == "f" and ops[-1][2] in (["int", "4", "le"], ["int", "1", "le"]) and st["lens"].get(ops[-1][1]) == "used":
                    st["lens"].pop(ops[-1][1])
                    ops.pop()
                ops += new
            elif k == "for":
                pat, it, body = " ".join(s[1]), " ".join(s[2]), s[3]
                inner = self.block(body, st)
                m = re.fullmatch(r"0 \.\. (\w+)", it)
                m2 = re.fullmatch(r"(\w+) \. iter_mut \( \)", it)
                if m:
                    ops.append(("f", "_arr", ["arrv", "@var:" + m.group(1)] + self.elem_type(inner, it)))
                elif m2 and m2.group(1) in st["fixed"]:
                    ops.append(("f", m2.group(1), ["arrf", str(st["fixed"][m2.group(1)])] + self.elem_type(inner, it)))
                else:
                    raise Untranslated(f"for loop over {it}")
            elif k == "while":
                ctext = " ".join(s[1])
                if not re.fullmatch(r"current_size < \( body_size as usize \)", ctext):
                    raise Untranslated(f"while {ctext}")
                saved_incs = st.get("incs", [])
                st["incs"] = []
                inner = self.block(s[2], st)
                incs, st["incs"] = st["incs"], saved_incs
                et = self.elem_type(inner, ctext)
                self.check_increment(et, incs)
                ops.append(("fe", "_arr", et))
            elif k == "return":
                raise Untranslated(f"return outside a guard: {' '.join(s[1])}")
            elif k == "expr":
                e = s[1]
                if e[0] == "flat":
                    text = " ".join(e[1])
                    m = re.fullmatch(r"r \. read_exact \( & mut (\w+) \) \?", text)
                    if m and m.group(1) in st["fixed"]:
                        ops.append(("f", m.group(1), ["arrf", str(st["fixed"][m.group(1)]), "int", "1", "le"]))
                        continue
                ops += self.expr_ops(e, None, st)
            else:
                raise Untranslated(f"statement kind {k}")
        return ops


def message_files():
    """(ctx, kind-agnostic type name, path) of every generated world / login message"""
    world = os.path.join(REPO, "wow_world_messages/src/world")
    out = []
    for e in EXPS:
        for f in sorted(os.listdir(os.path.join(world, e))):
            if re.match(r"(c|s)?msg_", f):
                out.append((e, os.path.join(world, e, f)))
    for f in sorted(os.listdir(os.path.join(world, "shared"))):
        if re.match(r"(c|s)?msg_", f):
            for e in exps_of_shared(f):
                out.append((e, os.path.join(world, "shared", f)))
    lg = os.path.join(REPO, "wow_login_messages/src/logon")
    for v in LOGIN_VERSIONS:
        seen = set()
        d = os.path.join(lg, f"version_{v}")
        for f in sorted(os.listdir(d)):
            if f.startswith("cmd_"):
                out.append((f"login{v}", os.path.join(d, f)))
                seen.add(f)
        for m in re.finditer(r"pub use crate::logon::(\w+)::(cmd_\w+)::\*;", open(os.path.join(d, "mod.rs")).read()):
            out.append((f"login{v}", os.path.join(lg, m.group(1), m.group(2) + ".rs")))
        for f in sorted(os.listdir(os.path.join(lg, "all"))):
            if f.startswith("cmd_"):
                out.append((f"login{v}", os.path.join(lg, "all", f)))
    return out


MSG_TYPE_RE = re.compile(r"(?m)^impl (?:crate::Message|ClientMessage|ServerMessage|crate::private::Sealed) for (\w+)")


def translate_all(tr=None, only=None):
    """-> list of dict(key-ish fields, tokens | untranslated)"""
    tr = tr or Translator()
    out = []
    for ctx, path in message_files():
        src = tr.ix.src(path)
        m = re.search(r"(?m)^pub (?:struct|enum) (\w+)", src)
        name = m.group(1)
        if only is not None and not only(name):
            continue
        d = {"ctx": ctx, "rust_type": name, "file": os.path.relpath(path, REPO)}
        try:
            d["tokens"] = tr.container(ctx, path, name, ["read_inner", "read"]) + ["end"]
        except Untranslated as ex:
            d["untranslated"] = str(ex)
        out.append(d)
    return out


if __name__ == "__main__":
    import collections
    res = translate_all()
    bad = [r for r in res if "untranslated" in r]
    print(len(res), "readers;", len(bad), "untranslated")
    c = collections.Counter(re.sub(r"`[^`]*`|\d+", "#", b["untranslated"])[:90] for b in bad)
    for k, v in c.most_common(40):
        print(v, k)
    for b in bad[:int(sys.argv[1]) if len(sys.argv) > 1 else 0]:
        print(b["file"], b["untranslated"][:200])


# ================================================================================================ writers
# `write_into_vec` of every generated message / struct -> the closed syntax (with roles: constants and self.size fields as the writer
# emits them).  A write statement names the value it writes (`self.x`, a destructured variant field, `if_statement.x`, the loop variable);
# its wire form follows from the Rust type of that value (struct / variant field declarations) and the conversion applied.

def parse_decls(src):
    """type declarations of a generated file: name -> ("struct", {field: type}) | ("enum", [(variant, {field: type})])"""
    out = {}
    for m in re.finditer(r"(?m)^pub(?:\(crate\))? struct (\w+) \{\n((?:[^\n]*\n)*?)\}", src):
        fields = {}
        for fm in re.finditer(r"(?m)^\s+(?:pub )?((?:r#)?\w+): ([^\n]+?),$", m.group(2)):
            fields[fm.group(1).replace("r#", "")] = fm.group(2)
        out[m.group(1)] = ("struct", fields)
    for m in re.finditer(r"(?m)^pub(?:\(crate\))? struct (\w+);", src):
        out[m.group(1)] = ("struct", {})
    for m in re.finditer(r"(?m)^pub(?:\(crate\))? enum (\w+) \{\n(.*?)\n\}", src, re.S):
        variants, cur = [], None
        for line in m.group(2).split("\n"):
            t = line.strip()
            if not t or t.startswith("///") or t.startswith("#["):
                continue
            mv = re.fullmatch(r"(\w+),", t)
            mo = re.fullmatch(r"(\w+) \{", t)
            mf = re.fullmatch(r"((?:r#)?\w+): (.+?),", t)
            if mv and cur is None:
                variants.append((mv.group(1), {}))
            elif mo:
                cur = (mo.group(1), {})
            elif mf and cur is not None:
                cur[1][mf.group(1).replace("r#", "")] = mf.group(2)
            elif t == "}," and cur is not None:
                variants.append(cur)
                cur = None
        out[m.group(1)] = ("enum", variants)
    return out


def as_int_table(src, tname):
    """variant -> value of `impl tname { fn as_int }` (patterns `Self::A => 1,` or `Self::A { .. } => 1,`)"""
    m = None
    for im in re.finditer(r"(?m)^impl " + re.escape(tname) + r" \{\n", src):
        end = src.find("\n}\n", im.end())
        m = re.search(r"(?:pub(?:\(crate\))? )?const fn as_int\(&self\) -> (\w+) \{\s*match self \{(.*?)\n\s*\}\s*\}", src[im.start():end], re.S)
        if m:
            break
    if not m:
        return None
    vals = []
    for line in m.group(2).strip().split("\n"):
        mm = re.fullmatch(r"\s*Self::(\w+)(?: \{ \.\. \})? => (-?(?:0x[0-9a-fA-F_]+|\d+)),", line)
        if not mm:
            return None
        vals.append((mm.group(1), int(mm.group(2).replace("_", ""), 0)))
    return m.group(1), vals


class WriterTranslator:
    def __init__(self, reader=None):
        self.rd = reader or Translator()
        self.ix = self.rd.ix
        self.memo = {}
        self.decls_cache = {}

    def decls(self, path):
        if path not in self.decls_cache:
            self.decls_cache[path] = parse_decls(self.ix.src(path))
        return self.decls_cache[path]

    def type_home(self, ctx, tname, here):
        """file that declares type `tname` (the current file first)"""
        if tname in self.decls(here):
            return here
        p = self.ix.defs.get((ctx, tname))
        if p is None:
            raise Untranslated(f"type {tname} not found for {ctx}")
        return p

    def container(self, ctx, path, tname):
        key = (ctx, path, tname)
        if key in self.memo:
            if self.memo[key] is None:
                raise Untranslated(f"recursive struct {tname}")
            if isinstance(self.memo[key], Untranslated):
                raise Untranslated(f"struct {tname}: {self.memo[key]}")
            return self.memo[key]
        self.memo[key] = None
        try:
            src = self.ix.src(path)
            body = None
            for m in re.finditer(r"\nimpl (?:crate::Message for )?" + re.escape(tname) + r" \{\n", src):
                end = src.find("\n}\n", m.end())
                body = self.rd.fn_body(src[m.start():end + 3], ["write_into_vec"])
                if body:
                    break
            if body is None:
                raise Untranslated(f"{tname}: no write_into_vec")
            stmts = P(lex(body)).block()
            st = {"ctx": ctx, "path": path, "self": tname, "vars": {"self": tname}, "lens": {}, "src": src}
            ops = self.block(stmts, st)
            self.memo[key] = ops
        except Untranslated as ex:
            self.memo[key] = ex
            raise
        return self.memo[key]

    # ---- typing
    def strip_ty(self, t):
        t = t.strip()
        while True:
            m = re.fullmatch(r"&(?:'\w+ )?(.*)", t) or re.fullmatch(r"Option<(.*)>", t) or re.fullmatch(r"Box<(.*)>", t)
            if not m:
                return t
            t = m.group(1).strip()

    def field_type(self, tname, field, st):
        home = self.type_home(st["ctx"], tname, st["path"])
        d = self.decls(home).get(tname)
        if d is None:
            raise Untranslated(f"no declaration of {tname}")
        if d[0] == "struct":
            if field not in d[1]:
                raise Untranslated(f"{tname} has no field {field}")
            return d[1][field]
        raise Untranslated(f"field {field} of enum {tname} accessed by path")

    def path_type(self, toks, st):
        """type of `a . b . c` (tokens) ; a is a bound variable"""
        parts = [t for t in toks if t != "."]
        if parts and parts[0] == "*":
            parts = parts[1:]
        if not parts or parts[0] not in st["vars"]:
            raise Untranslated(f"unbound value {' '.join(toks)}")
        t = st["vars"][parts[0]]
        for f in parts[1:]:
            t = self.field_type(self.strip_ty(t), f.replace("r#", ""), st)
        return t.strip()

    def name_of(self, toks):
        parts = [t for t in toks if t not in (".", "*", "&")]
        n = parts[-1].replace("r#", "")
        return None if n in ("self", "i", "v", "if_statement") else n

    INTS = {"u8": 1, "u16": 2, "u32": 4, "u64": 8, "i8": 1, "i16": 2, "i32": 4, "i64": 8, "f32": 4}

    def enum_or_flag(self, tname, k, e, st):
        """wire type of a value of definer type `tname` written at width k"""
        ctx = st["ctx"]
        home = self.type_home(ctx, tname, st["path"])
        src = self.ix.src(home)
        if re.search(r"pub struct " + re.escape(tname) + r" \{\s*inner: \w+,", src):
            return ["int", str(k), e]                      # flag type or synthesised flag struct: raw bits
        tab = as_int_table(src, tname)
        if tab is None:
            raise Untranslated(f"{tname}: no as_int table")
        vs = [v + (1 << (8 * k)) if v < 0 else v for _, v in tab[1]]
        return ["enum", str(k), e, str(len(vs))] + [str(v) for v in vs]

    def as_int_width(self, tname, st):
        home = self.type_home(st["ctx"], tname, st["path"])
        src = self.ix.src(home)
        for im in re.finditer(r"(?m)^impl " + re.escape(tname) + r" \{\n", src):
            end = src.find("\n}\n", im.end())
            m = re.search(r"const fn as_int\(&self\) -> (\w+)", src[im.start():end])
            if m:
                return m.group(1)
        raise Untranslated(f"{tname}: no as_int")

    # ---- statements
    def block(self, stmts, st):
        prim = []          # primitive ops before the string peephole
        for s in stmts:
            k = s[0]
            if k == "expr":
                e = s[1]
                if e[0] == "flat":
                    prim += self.flat(e[1], st)
                elif e[0] == "if":
                    prim += self.if_(e, st)
                elif e[0] == "match":
                    prim += self.match_(e, st)
                else:
                    raise Untranslated("block statement")
            elif k == "for":
                prim += self.for_(s, st)
            elif k == "let":
                raise Untranslated("let in a writer: " + " ".join(s[1]))
            else:
                raise Untranslated(f"statement kind {k}")
        return self.peephole(prim)

    def peephole(self, prim):
        out, i = [], 0
        while i < len(prim):
            o = prim[i]
            if o[0] == "lenp1" and i + 2 < len(prim) and prim[i + 1] == ("bytes", o[1]) and prim[i + 2] == ("zero",):
                out.append(("f", o[1], ["p"], ["sizedcstring"]))
                i += 3
            elif o[0] == "len" and o[2] == 1 and i + 1 < len(prim) and prim[i + 1] == ("bytes", o[1]):
                out.append(("f", o[1], ["p"], ["string"]))
                i += 2
            elif o[0] == "bytes" and i + 1 < len(prim) and prim[i + 1] == ("zero",):
                out.append(("f", o[1], ["p"], ["cstring"]))
                i += 2
            elif o[0] == "len":
                out.append(("f", "len:" + o[1], ["p"], ["int", str(o[2]), "le"]))
                i += 1
            elif o[0] in ("f", "fe", "if", "opt", "arr", "ifenum", "lo48", "hi48"):
                out.append(o)
                i += 1
            else:
                raise Untranslated(f"dangling string piece {o}")
        return out

    def flat(self, toks, st):
        text = " ".join(toks)
        if text in ("Ok ( ( ) )",) or text.startswith("assert_ne!"):
            return []
        m = re.fullmatch(r"w \. write_all \( (.*) \) \?", text)
        if m:
            return self.write_all(m.group(1), st)
        m = re.fullmatch(r"((?:\w+ \. )*\w+) \. write_into_vec \( & mut w \) \?", text)
        if m:
            p = m.group(1).split(" ")
            t = self.strip_ty(self.path_type(p, st))
            return [("f", self.name_of(p), ["p"], self.struct_or_prim(t, st))]
        m = re.fullmatch(r"crate :: util :: write_packed_guid \( &? ?((?:\w+ \. )*\w+) , & mut w \) \?", text)
        if m:
            return [("f", self.name_of(m.group(1).split(" ")), ["p"], ["packedguid"])]
        m = re.fullmatch(r"crate :: util :: (\w+)_write_into_vec \( &? ?((?:\w+ \. )*\w+) , & mut w \) \?", text)
        if m:
            return [("f", self.name_of(m.group(2).split(" ")), ["p"], self.util_struct(m.group(1), st))]
        m = re.fullmatch(r"crate :: util :: write_monster_move_spline \( ((?:\w+ \. )*\w+) \. as_slice \( \) , & mut w \) \?", text)
        if m:
            return [("f", self.name_of(m.group(1).split(" ")), ["p"], ["prim", "MonsterMoveSplines"])]
        m = re.fullmatch(r"crate :: util :: write_addon_array \( ((?:\w+ \. )*\w+) \. as_slice \( \) , & mut w \) \?", text)
        if m:
            ctx = st["ctx"]
            return [("f", self.name_of(m.group(1).split(" ")), ["p"], ["prim", "AddonArray_" + "_".join(map(str, EXPS[ctx]))])]
        m = re.fullmatch(r"crate :: util :: write_achievement_(done|in_progress) \( ((?:\w+ \. )*\w+)(?: \. as_slice \( \))? , & mut w \) \?", text)
        if m:
            return [("f", self.name_of(m.group(2).split(" ")), ["p"], ["prim", "AchievementDoneArray" if m.group(1) == "done" else "AchievementInProgressArray"])]
        raise Untranslated(f"unrecognised writer statement: {text}")

    def struct_or_prim(self, t, st):
        ctx = st["ctx"]
        if t in PRIM_READS:
            return ["prim", t + ("_" + (ctx[5:] if ctx.startswith("login") else "_".join(map(str, EXPS[ctx]))) if t in PRIM_VERSIONED else "")]
        home = self.type_home(ctx, t, st["path"])
        return ["struct"] + self.ops_to_tokens(self.container(ctx, home, t)) + ["end"]

    def util_struct(self, fn, st):
        key = (st["ctx"], "util::" + fn)
        if key not in self.memo:
            path = os.path.join(REPO, "wow_world_messages/src/util/functions/shared.rs")
            src = self.ix.src(path)
            m = re.search(r"\npub\(crate\) fn " + fn + r"_write_into_vec\(s: &([\w:]+), mut w: impl std::io::Write\) -> Result<\(\), std::io::Error> \{\n", src)
            if not m:
                raise Untranslated(f"util writer {fn}_write_into_vec not found")
            end = src.find("\n}\n", m.end())
            body = src[m.end() - 2:end + 2]
            ret = m.group(1).split("::")
            tname = ret[-1]
            tctx = ret[1] if ret[1] in EXPS else st["ctx"]
            tpath = self.ix.lookup(tctx, tname)
            st2 = {"ctx": st["ctx"], "path": tpath, "self": tname, "vars": {"s": tname}, "lens": {}, "src": src}
            self.memo[key] = ["struct"] + self.ops_to_tokens(self.block(P(lex(body)).block(), st2)) + ["end"]
        return self.memo[key]

    PATH = r"((?:\* )?(?:\w+ \. )*(?:r\#)?\w+)"

    def write_all(self, a, st):
        P_ = self.PATH
        m = re.fullmatch(r"& " + P_ + r" \. to_(le|be)_bytes \( \)", a)
        if m:
            p = m.group(1).split(" ")
            t = self.strip_ty(self.path_type(p, st))
            if t not in self.INTS:
                raise Untranslated(f"to_{m.group(2)}_bytes on a value of type {t}: {a}")
            return [("f", self.name_of(p), ["p"], ["int", str(self.INTS[t]), m.group(2)])]
        m = re.fullmatch(r"& Self :: (\w+)_VALUE \. to_(le|be)_bytes \( \)", a)
        if m:
            mc = re.search(r"pub const " + m.group(1) + r"_VALUE: (\w+) = (0x[0-9a-fA-F_]+|\d+);", st["src"])
            if not mc or mc.group(1) not in self.INTS:
                raise Untranslated(f"constant {m.group(1)}_VALUE not found")
            v = int(mc.group(2).replace("_", ""), 0)
            return [("f", m.group(1).lower(), ["c", str(v)], ["int", str(self.INTS[mc.group(1)]), m.group(2)])]
        m = re.fullmatch(r"& \( \( self \. size \( \) - (\d+) \) as (u\d+) \) \. to_(le|be)_bytes \( \)", a)
        if m:
            return [("f", None, ["s", m.group(1)], ["int", str(self.INTS[m.group(2)]), m.group(3)])]
        m = re.fullmatch(r"& " + P_ + r" \. guid \( \) \. to_le_bytes \( \)", a)
        if m:
            p = m.group(1).split(" ")
            t = self.strip_ty(self.path_type(p, st))
            if t != "Guid":
                raise Untranslated(f".guid() on {t}")
            return [("f", self.name_of(p), ["p"], ["int", "8", "le"])]
        if a == "& Self :: OPCODE . to_le_bytes ( )":
            return []           # login writers start with the opcode byte; the framing (lib/semcorr.frame) accounts for it
        m = re.fullmatch(r"& " + P_ + r" \. as_int \( \) \. to_le_bytes \( \)", a)
        if m:
            p = m.group(1).split(" ")
            t = self.strip_ty(self.path_type(p, st))
            if t == "Level":
                return [("f", self.name_of(p), ["p"], ["int", "1", "le"])]
            if t == "DateTime":
                return [("f", self.name_of(p), ["p"], ["datetime"])]
            if t in ("Gold", "Population"):
                return [("f", self.name_of(p), ["p"], ["int", "4", "le"])]
            raise Untranslated(f"x.as_int() on {t}")
        m = re.fullmatch(r"& \( " + P_ + r" \. as_int \( \) \. to_(le|be)_bytes \( \) \)", a)
        if m:
            p = m.group(1).split(" ")
            t = self.strip_ty(self.path_type(p, st))
            w = self.as_int_width(t, st)
            return [("f", self.name_of(p), ["p"], self.enum_or_flag(t, self.INTS[w], m.group(2), st))]
        m = re.fullmatch(r"& (u\d+|i\d+) :: from \( " + P_ + r" \. as_int \( \) \) \. to_(le|be)_bytes \( \)", a)
        if m:
            p = m.group(2).split(" ")
            t = self.strip_ty(self.path_type(p, st))
            k = self.INTS[m.group(1)]
            if t == "Level":
                return [("f", self.name_of(p), ["p"], ["lvl", str(k)])]
            return [("f", self.name_of(p), ["p"], self.enum_or_flag(t, k, m.group(3), st))]
        m = re.fullmatch(r"(u\d+) :: from \( " + P_ + r" \) \. to_le_bytes \( \) \. as_slice \( \)", a)
        if m:
            p = m.group(2).split(" ")
            t = self.strip_ty(self.path_type(p, st))
            if t != "bool":
                raise Untranslated(f"uN::from on {t}")
            return [("f", self.name_of(p), ["p"], ["bool", str(self.INTS[m.group(1)])])]
        m = re.fullmatch(r"\( " + P_ + r" \. as_int \( \) \) \. to_le_bytes \( \) \. as_slice \( \)", a)
        if m:
            p = m.group(1).split(" ")
            t = self.strip_ty(self.path_type(p, st))
            if t == "Gold":
                return [("f", self.name_of(p), ["p"], ["int", "4", "le"])]
            if t == "Level":
                return [("f", self.name_of(p), ["p"], ["int", "1", "le"])]
            raise Untranslated(f"(x.as_int()) on {t}")
        m = re.fullmatch(r"\( " + P_ + r" \. as_(millis|secs) \( \) as u32 \) \. to_le_bytes \( \) \. as_slice \( \)", a)
        if m:
            p = m.group(1).split(" ")
            t = self.strip_ty(self.path_type(p, st))
            if t not in ("Duration", "core::time::Duration", "std::time::Duration"):
                raise Untranslated(f"as_millis on {t}")
            return [("f", self.name_of(p), ["p"], ["int", "4", "le"])]
        m = re.fullmatch(r"& \( " + P_ + r" \. len \( \) as (u\d+) \) \. to_le_bytes \( \)", a)
        if m:
            return [("len", self.name_of(m.group(1).split(" ")), self.INTS[m.group(2)])]
        m = re.fullmatch(r"& \( \( " + P_ + r" \. len \( \) \+ 1 \) as u32 \) \. to_le_bytes \( \)", a)
        if m:
            return [("lenp1", self.name_of(m.group(1).split(" ")))]
        m = re.fullmatch(P_ + r" \. as_bytes \( \)", a)
        if m:
            p = m.group(1).split(" ")
            t = self.strip_ty(self.path_type(p, st))
            if t != "String":
                raise Untranslated(f"as_bytes on {t}")
            return [("bytes", self.name_of(p) or "_elem")]
        if a == "& [ 0 ]":
            return [("zero",)]
        m = re.fullmatch(r"& \( " + P_ + r" \. as_int \( \) as u32 \) \. to_le_bytes \( \)", a)
        if m:
            return [("lo48", self.name_of(m.group(1).split(" ")))]
        m = re.fullmatch(r"& \( \( " + P_ + r" \. as_int \( \) >> 32 \) as u16 \) \. to_le_bytes \( \)", a)
        if m:
            return [("hi48", self.name_of(m.group(1).split(" ")))]
        m = re.fullmatch(r"& " + P_ + r" \. octets \( \)", a)
        if m:
            return [("f", self.name_of(m.group(1).split(" ")), ["p"], ["int", "4", "be"])]
        raise Untranslated(f"unrecognised write_all argument: {a}")

    def for_(self, s, st):
        pat, it, body = " ".join(s[1]), " ".join(s[2]), s[3]
        m = re.fullmatch(self.PATH + r" \. iter \( \)", it)
        if not m or pat not in ("i", "v"):
            raise Untranslated(f"for {pat} in {it}")
        p = m.group(1).split(" ")
        t = self.strip_ty(self.path_type(p, st))
        name = self.name_of(p)
        mv = re.fullmatch(r"Vec<(.*)>", t)
        mf = re.fullmatch(r"\[(.*); (\d+)\]", t)
        if not mv and not mf:
            raise Untranslated(f"loop over a value of type {t}")
        elem = (mv or mf).group(1)
        st2 = dict(st, vars=dict(st["vars"], **{pat: elem}))
        inner = self.block(body, st2)
        if len(inner) != 1 or inner[0][0] != "f":
            raise Untranslated(f"loop body is not a single element write: {[o[0] for o in inner]}")
        et = inner[0][3]
        if mf:
            return [("f", name, ["p"], ["arrf", mf.group(2)] + et)]
        return [("arr", name, et)]

    def if_(self, e, st):
        _, cond, then, els = e
        ctext = " ".join(cond)
        m = re.fullmatch(r"let Some \( (\w+) \) = & " + self.PATH, ctext)
        if not m or els is not None:
            raise Untranslated(f"unrecognised writer condition: {ctext}")
        var, p = m.group(1), m.group(2).split(" ")
        t = self.path_type(p, st)
        mo = re.fullmatch(r"Option<(.*)>", t)
        if not mo:
            raise Untranslated(f"if let Some on {t}")
        inner_t = self.strip_ty(mo.group(1))
        st2 = dict(st, vars=dict(st["vars"], **{var: inner_t}))
        body = self.block(then, st2)
        owner_parts = [x for x in p if x != "."]
        if len(owner_parts) >= 3 or (len(owner_parts) == 2 and owner_parts[0] != "self"):
            # `self.flags.on_transport` / `v.flags.x`: a member of a synthesised flag struct
            flag_field = owner_parts[-2]
            opt = owner_parts[-1]
            ft = self.strip_ty(self.path_type(p[:-2], st))
            masks = self.flag_arm_masks(ft, opt, inner_t, st)
            if masks is None:
                raise Untranslated(f"cannot determine the flag mask of {ft}.{opt}")
            if isinstance(masks, int):
                return [("if", flag_field, [(["and", "1", str(masks)], body)], [])]
            # else-if chain: `body` is a match over the synthesised enum, already translated into arms by match_()
            if len(body) != 1 or body[0][0] != "ifenum":
                raise Untranslated(f"else-if flag group {ft}.{opt} without a match")
            arms = [(["and", "1", str(masks[vn])], b) for vn, b in body[0][1]]
            return [("if", flag_field, arms, [])]
        return [("opt", body)]

    def flag_arm_masks(self, ft, opt, inner_t, st):
        """mask of option member `opt` of synthesised flag struct `ft`: an int, or {variant: mask} for an else-if group"""
        home = self.type_home(st["ctx"], ft, st["path"])
        full = self.ix.src(home)
        # only the impl blocks of THIS synthesised flag struct (a file may hold several with equally named members)
        src = ""
        for im in re.finditer(r"(?m)^impl " + re.escape(ft) + r" \{\n", full):
            end = full.find("\n}\n", im.end())
            src += full[im.start():end + 3]
        m = re.search(r"pub fn set_" + re.escape(opt) + r"\(mut self(?:, \w+: [\w:]+)?\) -> Self \{\s*self\.inner \|= (\w+)::(\w+);", src)
        if m:
            _, consts = self.flag_consts_raw(st["ctx"], m.group(1), home)
            return consts.get(m.group(2))
        m = re.search(r"pub fn set_" + re.escape(opt) + r"\(mut self, \w+: ([\w:]+)\) -> Self \{\s*self\.inner \|= \w+\.as_int\(\);", src)
        if m:
            tab = as_int_table(full, inner_t)
            if tab:
                return dict(tab[1])
        return None

    def flag_consts_raw(self, ctx, name, here):
        home = self.type_home(ctx, name, here)
        s = self.ix.src(home)
        m = re.search(r"pub struct " + name + r" \{\s*inner: (\w+),", s)
        if not m:
            raise Untranslated(f"{name}: not a flag type")
        consts = {}
        for mm in re.finditer(r"pub const (\w+): " + m.group(1) + r" = (0x[0-9a-fA-F_]+|\d+);", s):
            consts[mm.group(1)] = int(mm.group(2).replace("_", ""), 0)
        return m.group(1), consts

    def match_(self, e, st):
        _, scrut, arms = e
        stext = " ".join(scrut)
        m = re.fullmatch(r"&? ?" + self.PATH, stext)
        if not m:
            raise Untranslated(f"match on {stext}")
        p = m.group(1).split(" ")
        t = self.strip_ty(self.path_type(p, st))
        home = self.type_home(st["ctx"], t, st["path"])
        d = self.decls(home).get(t)
        if not d or d[0] != "enum":
            raise Untranslated(f"match on a value of type {t}")
        variants = dict(d[1])
        bodies = {}
        for pat, body in arms:
            ptxt = " ".join(pat)
            if ptxt == "_":
                if self.block(body, st):
                    raise Untranslated("wildcard arm that writes")
                continue
            mp = re.fullmatch(r"(?:crate :: \w+ :: )?(\w+) :: (\w+)(?: \{ ?(.*) \})?", ptxt)
            if not mp or mp.group(1) != t or mp.group(2) not in variants:
                raise Untranslated(f"match arm pattern {ptxt}")
            binds = {}
            if mp.group(3):
                for b in [x.strip() for x in mp.group(3).split(",") if x.strip()]:
                    b = b.replace("r# ", "").replace("r#", "")
                    if b == ". .":
                        continue
                    if b not in variants[mp.group(2)]:
                        raise Untranslated(f"{t}::{mp.group(2)} has no field {b}")
                    binds[b] = variants[mp.group(2)][b]
            st2 = dict(st, vars=dict(st["vars"], **binds))
            bodies[mp.group(2)] = self.block(body, st2)
        if len([x for x in p if x != "."]) == 1 and p[0] == "if_statement":
            return [("ifenum", [(vn, bodies.get(vn, [])) for vn, _ in d[1]])]
        tab = as_int_table(self.ix.src(home), t)
        if tab is None:
            raise Untranslated(f"{t}: no as_int table")
        arms_out = [(["eq", "1", str(v)], bodies.get(vn, [])) for vn, v in tab[1]]
        if set(bodies) - {vn for vn, _ in tab[1]}:
            raise Untranslated(f"arms for variants outside as_int of {t}")
        return [("if", self.name_of(p), arms_out, [])]

    # ---- tokens
    def ops_to_tokens(self, ops):
        # array kind: a Vec whose length was written before is counted by that field, otherwise it runs to the end of the message
        out = []
        lens = {o[1][4:] for o in ops if o[0] == "f" and o[1] and o[1].startswith("len:")}
        return self._tok(ops, lens)

    def _tok(self, ops, lens):
        out = []
        lens = set(lens) | {o[1][4:] for o in ops if o[0] == "f" and o[1] and o[1].startswith("len:")}
        i = 0
        ops = list(ops)
        while i < len(ops):
            o = ops[i]
            if o[0] == "lo48" and i + 1 < len(ops) and ops[i + 1] == ("hi48", o[1]):
                out += ["f", str(vid(o[1])), "p", "int", "6", "le"]
                i += 2
                continue
            if o[0] == "f":
                role = o[2] if o[2][0] != "s" else ["s"]
                out += ["f", "?" if o[1] is None else str(vid(o[1]))] + role + o[3]
            elif o[0] == "arr":
                if o[1] in lens:
                    out += ["f", str(vid(o[1])), "p", "arrv", str(vid("len:" + o[1]))] + o[2]
                else:
                    out += ["fe", str(vid(o[1]))] + o[2]
            elif o[0] == "if":
                out += ["if", "?" if o[1] is None else str(vid(o[1])), str(len(o[2]))]
                for c, b in o[2]:
                    out += c + self._tok(b, lens) + ["end"]
                out += self._tok(o[3], lens) + ["end"]
            elif o[0] == "opt":
                out += ["opt"] + self._tok(o[1], lens) + ["end"]
            else:
                raise Untranslated(f"dangling piece {o[0]}")
            i += 1
        return out


def translate_all_writers(reader=None, only=None):
    tr = WriterTranslator(reader)
    out = []
    for ctx, path in message_files():
        src = tr.ix.src(path)
        name = re.search(r"(?m)^pub (?:struct|enum) (\w+)", src).group(1)
        if only is not None and not only(name):
            continue
        d = {"ctx": ctx, "rust_type": name, "file": os.path.relpath(path, REPO)}
        try:
            ops = tr.container(ctx, path, name)
            check_self_size(ops)
            d["tokens"] = tr.ops_to_tokens(ops) + ["end"]
        except Untranslated as ex:
            d["untranslated"] = str(ex)
        out.append(d)
    return out


def check_self_size(ops):
    """a `self.size` field is written as `(self.size() - N)`: the model's size field holds the number of bytes AFTER the field
    (`encMembers_selfSize`, Thm/C01d.lean), so N must be the bytes written up to and including the field — which therefore all have a static size"""
    before = 0
    for o in ops:
        if o[0] == "f" and o[2][0] == "s":
            own = fixed_size(o[3])
            if before is None or own is None:
                raise Untranslated("self.size field after a member without a static size")
            if int(o[2][1]) != before + own:
                raise Untranslated(f"the self.size field is written as self.size() - {o[2][1]} although {before + own} bytes are written up to and including it")
            return
        if before is not None:
            w = fixed_size(o[3]) if o[0] == "f" else None
            if o[0] in ("lo48", "hi48"):
                w = 3
            before = None if w is None else before + w
