"""T-gen for C14: the associated types `type VersionN = …` of every hand-written CollectiveMessage impl, resolved through the file's own
type aliases, against the Rust type that protocol version N really uses for that message (the module index of tools/rust_codec.py:
version N's own file or the file an earlier version re-exports).  A wrong association (e.g. `type Version7 = Self::Version5` where version 7
has its own definition) makes the protocol-parameterised API use another version's codec."""
import os, re, sys
sys.path.insert(0, os.path.dirname(__file__))
import rust_codec

VERSIONS = [2, 3, 5, 6, 7, 8]


def check():
    ix = rust_codec.Index()
    root = os.path.join(rust_codec.REPO, "wow_login_messages/src/collective")
    out, problems = [], []
    for f in sorted(os.listdir(root)):
        if f == "mod.rs" or not f.endswith(".rs"):
            continue
        src = open(os.path.join(root, f)).read()
        aliases = dict(re.findall(r"(?m)^type (\w+) =\s*([\w:]+);", src))
        for m_ in re.finditer(r"(?m)^use (crate::(?:version_\d|all)::(\w+));", src):
            aliases.setdefault(m_.group(2), m_.group(1))
        mi = re.search(r"impl CollectiveMessage for (\w+)", src)
        if mi and mi.group(1) != "Main":
            aliases.setdefault("Main", mi.group(1))
        assoc = dict(re.findall(r"(?m)^\s+type (Version\d) = ([\w:]+);", src))
        if not assoc:
            problems.append({"file": f, "problem": "no associated Version types found"})
            continue

        def resolve(t, depth=0):
            if depth > 10:
                return None
            if t.startswith("Self::"):
                return resolve(assoc.get(t[6:], ""), depth + 1)
            if t == "Self":
                return resolve("Main", depth + 1)
            if t in aliases:
                return resolve(aliases[t], depth + 1)
            return t if t.startswith("crate::") else None
        for v in VERSIONS:
            a = assoc.get(f"Version{v}")
            path = resolve(a) if a else None
            m = re.fullmatch(r"crate::(version_(\d)|all)::(?:\w+::)?(\w+)", path or "")
            if not m:
                problems.append({"file": f, "version": v, "problem": f"type Version{v} = {a} does not resolve to a generated type ({path})"})
                continue
            k = int(m.group(2)) if m.group(2) else v
            ty = m.group(3)
            got = ix.defs.get((f"login{k}", ty))
            want = ix.defs.get((f"login{v}", ty))
            if want is None:
                continue            # protocol version v has no such message (the reconnect messages in version 3): the association is never used
            ok = got is not None and os.path.normpath(want) == os.path.normpath(got)
            out.append({"file": f, "version": v, "type": ty, "resolved": os.path.relpath(got, rust_codec.REPO) if got else None,
                        "expected": os.path.relpath(want, rust_codec.REPO) if want else None, "ok": ok})
    return out, problems


if __name__ == "__main__":
    o, p = check()
    print(len(o), "associations;", sum(1 for x in o if not x["ok"]), "wrong;", len(p), "problems")
    for x in [x for x in o if not x["ok"]][:5] + p[:5]:
        print(x)
