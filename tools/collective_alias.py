"""T-gen for C14: the associated types `type VersionN = …` of every hand-written CollectiveMessage impl, resolved through the file's own
type aliases, against the Rust type that protocol version N really uses for that message (the module index of tools/rust_codec.py:
version N's own file or the file an earlier version re-exports).  A wrong association (e.g. `type Version7 = Self::Version5` where version 7
has its own definition) makes the protocol-parameterised API use another version's codec."""
import os, re, sys
sys.path.insert(0, os.path.dirname(__file__))
import rust_codec

VERSIONS = [2, 3, 5, 6, 7, 8]


def check():
    ix = rust_codec.Index()
    root = os.path.join(rust_codec.REPO, "wow_login_messages/src/collective")
    out, problems = [], []
    for f in sorted(os.listdir(root)):
        if f == "mod.rs" or not f.endswith(".rs"):
            continue
        src = open(os.path.join(root, f)).read()
        aliases = dict(re.findall(r"(?m)^type (\w+) =\s*([\w:]+);", src))
        for m_ in re.finditer(r"(?m)^use (crate::(?:version_\d|all)::(\w+));", src):
            aliases.setdefault(m_.group(2), m_.group(1))
        mi = re.search(r"impl CollectiveMessage for (\w+)", src)
        if mi and mi.group(1) != "Main":
            aliases.setdefault("Main", mi.group(1))
        assoc = dict(re.findall(r"(?m)^\s+type (Version\d) = ([\w:]+);", src))
        if not assoc:
            problems.append({"file": f, "problem": "no associated Version types found"})
            continue

        def resolve(t, depth=0):
            if depth > 10:
                return None
            if t.startswith("Self::"):
                return resolve(assoc.get(t[6:], ""), depth + 1)
            if t == "Self":
                return resolve("Main", depth + 1)
            if t in aliases:
                return resolve(aliases[t], depth + 1)
            return t if t.startswith("crate::") else None
        for v in VERSIONS:
            a = assoc.get(f"Version{v}")
            path = resolve(a) if a else None
            m = re.fullmatch(r"crate::(version_(\d)|all)::(?:\w+::)?(\w+)", path or "")
            if not m:
                problems.append({"file": f, "version": v, "problem": f"type Version{v} = {a} does not resolve to a generated type ({path})"})
                continue
            k = int(m.group(2)) if m.group(2) else v
            ty = m.group(3)
            got = ix.defs.get((f"login{k}", ty))
            want = ix.defs.get((f"login{v}", ty))
            if want is None:
                continue            # protocol version v has no such message (the reconnect messages in version 3): the association is never used
            ok = got is not None and os.path.normpath(want) == os.path.normpath(got)
            out.append({"file": f, "version": v, "type": ty, "resolved": os.path.relpath(got, rust_codec.REPO) if got else None,
                        "expected": os.path.relpath(want, rust_codec.REPO) if want else None, "ok": ok})
    return out, problems


if __name__ == "__main__":
    o, p = check()
    print(len(o), "associations;", sum(1 for x in o if not x["ok"]), "wrong;", len(p), "problems")
    for x in [x for x in o if not x["ok"]][:5] + p[:5]:
        print(x)


def enum_variants(ix, ctx, ty):
    """variant names of a generated login enum (simple `pub enum T { A, B, … }` or the synthesised enums with payloads)"""
    p = ix.defs.get((ctx, ty))
    if p is None:
        return None
    src = ix.src(p)
    m = re.search(r"pub enum " + ty + r" \{\n(.*?)\n\}", src, re.S)
    if not m:
        return None
    return set(re.findall(r"(?m)^    (\w+)(?:,| \{| \()", m.group(1) + "\n"))


def conversion_tables():
    """T-gen of the enum conversion tables of the hand-written CollectiveMessage impls: every `match` of a `from_version_N` (lift) must map an
    enumerator to the enumerator of the same name; every `match` of a `to_version_N` (lower) must do so for each enumerator the older version
    has, explicitly (a wildcard arm may only cover enumerators the older version lacks).  Then lowering a lifted value is the identity on
    these fields, enumerator by enumerator — the first sentence of C14 for the enum-valued members."""
    ix = rust_codec.Index()
    root = os.path.join(rust_codec.REPO, "wow_login_messages/src/collective")
    out, problems = [], []
    for f in sorted(os.listdir(root)):
        if f == "mod.rs" or not f.endswith(".rs"):
            continue
        src = open(os.path.join(root, f)).read()
        aliases = dict(re.findall(r"(?m)^type (\w+) =\s*([\w:]+);", src))

        def home(alias):
            t = aliases.get(alias)
            m = re.fullmatch(r"crate::version_(\d)::(\w+)", t or "")
            return (f"login{m.group(1)}", m.group(2)) if m else None
        for fm in re.finditer(r"(?m)^    fn (from_version_(\d)|to_version_(\d))\(", src):
            fn = fm.group(1)
            lift = fn.startswith("from")
            # function body: up to the next `\n    }\n`
            end = src.find("\n    }\n", fm.end())
            body = src[fm.end():end]
            for mm in re.finditer(r"match ([\w.&*]+) \{", body):
                # the match body by brace matching; arms read on the whitespace-collapsed text (patterns may carry a payload `{ a, b, .. }`)
                i = mm.end() - 1
                depth, j = 0, i
                while j < len(body):
                    if body[j] == "{":
                        depth += 1
                    elif body[j] == "}":
                        depth -= 1
                        if depth == 0:
                            break
                    j += 1
                mbody = " ".join(body[i + 1:j].split())
                arms = re.findall(r"(?:^|, |\}, |\} )(\w+)::(\w+)(?: \{[^{}]*\})? => (\w+)::(\w+)", mbody)
                wild = re.search(r"(?:^|, |\}, |\} )_ =>", mbody) is not None
                if not arms:
                    continue
                src_alias, dst_alias = arms[0][0], arms[0][2]
                hs, hd = home(src_alias), home(dst_alias)
                if hs is None or hd is None:
                    continue
                vs, vd = enum_variants(ix, *hs), enum_variants(ix, *hd)
                if vs is None or vd is None:
                    continue            # not an enum-to-enum table (flag structs are converted field by field)
                listed = {}
                for a, x, b, y in arms:
                    if a == src_alias and b == dst_alias:
                        listed[x] = y
                # arms whose right-hand side is a block: the value the block ends with
                for bm in re.finditer(r"(?:^|, |\}, |\} )" + src_alias + r"::(\w+)(?: \{[^{}]*\})? => \{", mbody):
                    k0 = bm.end() - 1
                    d2, k1 = 0, k0
                    while k1 < len(mbody):
                        if mbody[k1] == "{":
                            d2 += 1
                        elif mbody[k1] == "}":
                            d2 -= 1
                            if d2 == 0:
                                break
                        k1 += 1
                    ends = re.findall(dst_alias + r"::(\w+)", mbody[k0:k1])
                    if ends:
                        listed.setdefault(bm.group(1), ends[-1])
                for x in sorted(vs):
                    if x in vd:
                        ok = listed.get(x) == x
                        out.append({"file": f, "fn": fn, "enum": hs[1], "enumerator": x, "maps_to": listed.get(x, "_ (wildcard)" if wild else None), "ok": ok})
                    elif lift:
                        out.append({"file": f, "fn": fn, "enum": hs[1], "enumerator": x, "maps_to": listed.get(x), "ok": False})
        if "macro_rules!" in src:
            problems.append({"file": f, "fn": "*", "problem": "conversion written with a local macro: the tables cannot be read arm by arm"})
    return out, problems
