"""JSON Typedef (RFC 8927) validator: the eight schema forms, `definitions`/`ref`, `nullable`, `additionalProperties`,
`optionalProperties`, discriminator mappings.  Returns a list of (instance path, schema path) errors (empty = valid)."""

INT_RANGES = {"int8": (-128, 127), "uint8": (0, 255), "int16": (-32768, 32767), "uint16": (0, 65535), "int32": (-2 ** 31, 2 ** 31 - 1), "uint32": (0, 2 ** 32 - 1)}


def check_schema(schema, root=None, path="#"):
    """well-formedness of the schema itself (forms are mutually exclusive, refs resolve)"""
    root = root if root is not None else schema
    errs = []
    forms = [k for k in ("ref", "type", "enum", "elements", "properties", "optionalProperties", "values", "discriminator") if k in schema]
    kinds = set()
    for f in forms:
        kinds.add("properties" if f in ("properties", "optionalProperties") else f)
    if len(kinds) > 1 and kinds != {"discriminator"}:
        if not (kinds == {"discriminator"} or kinds <= {"properties"}):
            errs.append((path, f"more than one form: {sorted(kinds)}"))
    for k in schema:
        if k not in ("ref", "type", "enum", "elements", "properties", "optionalProperties", "additionalProperties", "values", "discriminator", "mapping", "definitions", "nullable", "metadata"):
            errs.append((path, f"unknown keyword {k}"))
    if "definitions" in schema:
        if root is not schema:
            errs.append((path, "definitions below the root"))
        for n, s in schema["definitions"].items():
            errs += check_schema(s, root, f"{path}/definitions/{n}")
    if "ref" in schema and schema["ref"] not in root.get("definitions", {}):
        errs.append((path, f"unresolved ref {schema['ref']}"))
    if "type" in schema and schema["type"] not in ("boolean", "string", "timestamp", "float32", "float64") + tuple(INT_RANGES):
        errs.append((path, f"unknown type {schema['type']}"))
    if "elements" in schema:
        errs += check_schema(schema["elements"], root, path + "/elements")
    if "values" in schema:
        errs += check_schema(schema["values"], root, path + "/values")
    for k in ("properties", "optionalProperties"):
        for n, s in schema.get(k, {}).items():
            errs += check_schema(s, root, f"{path}/{k}/{n}")
    if "discriminator" in schema:
        for n, s in schema.get("mapping", {}).items():
            errs += check_schema(s, root, f"{path}/mapping/{n}")
    return errs


def validate(schema, inst, root=None, ipath="", spath="#", errs=None, limit=50, parent_tag=None):
    root = root if root is not None else schema
    errs = errs if errs is not None else []
    if len(errs) >= limit:
        return errs
    if schema.get("nullable") and inst is None:
        return errs
    if "ref" in schema:
        return validate(root["definitions"][schema["ref"]], inst, root, ipath, f"#/definitions/{schema['ref']}", errs, limit)
    if "type" in schema:
        t = schema["type"]
        ok = True
        if t == "boolean":
            ok = isinstance(inst, bool)
        elif t in ("string", "timestamp"):
            ok = isinstance(inst, str)
        elif t in ("float32", "float64"):
            ok = isinstance(inst, (int, float)) and not isinstance(inst, bool)
        else:
            lo, hi = INT_RANGES[t]
            ok = isinstance(inst, (int, float)) and not isinstance(inst, bool) and float(inst).is_integer() and lo <= inst <= hi
        if not ok:
            errs.append((ipath, spath + "/type"))
        return errs
    if "enum" in schema:
        if not isinstance(inst, str) or inst not in schema["enum"]:
            errs.append((ipath, spath + "/enum"))
        return errs
    if "elements" in schema:
        if not isinstance(inst, list):
            errs.append((ipath, spath + "/elements"))
            return errs
        for i, x in enumerate(inst):
            validate(schema["elements"], x, root, f"{ipath}/{i}", spath + "/elements", errs, limit)
        return errs
    if "properties" in schema or "optionalProperties" in schema:
        if not isinstance(inst, dict):
            errs.append((ipath, spath + "/properties"))
            return errs
        for n, s in schema.get("properties", {}).items():
            if n not in inst:
                errs.append((ipath, f"{spath}/properties/{n}"))
            else:
                validate(s, inst[n], root, f"{ipath}/{n}", f"{spath}/properties/{n}", errs, limit)
        for n, s in schema.get("optionalProperties", {}).items():
            if n in inst:
                validate(s, inst[n], root, f"{ipath}/{n}", f"{spath}/optionalProperties/{n}", errs, limit)
        if not schema.get("additionalProperties"):
            for n in inst:
                if n not in schema.get("properties", {}) and n not in schema.get("optionalProperties", {}) and n != parent_tag:
                    errs.append((f"{ipath}/{n}", spath))
        return errs
    if "values" in schema:
        if not isinstance(inst, dict):
            errs.append((ipath, spath + "/values"))
            return errs
        for n, x in inst.items():
            validate(schema["values"], x, root, f"{ipath}/{n}", spath + "/values", errs, limit)
        return errs
    if "discriminator" in schema:
        tag = schema["discriminator"]
        if not isinstance(inst, dict):
            errs.append((ipath, spath + "/discriminator"))
        elif tag not in inst:
            errs.append((ipath, spath + "/discriminator"))
        elif not isinstance(inst[tag], str):
            errs.append((f"{ipath}/{tag}", spath + "/discriminator"))
        elif inst[tag] not in schema.get("mapping", {}):
            errs.append((f"{ipath}/{tag}", spath + "/mapping"))
        else:
            validate(schema["mapping"][inst[tag]], inst, root, ipath, f"{spath}/mapping/{inst[tag]}", errs, limit, parent_tag=tag)
        return errs
    return errs          # empty form accepts everything


if __name__ == "__main__":
    import json, sys
    s = json.load(open(sys.argv[1]))
    print("schema problems:", check_schema(s)[:5])
    print("instance errors:", validate(s, json.load(open(sys.argv[2])))[:10])
