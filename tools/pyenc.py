"""Reference ENCODER in python for closed-syntax containers that mention built-in types outside the Lean semantics
(MonsterMoveSplines, the mask types, NamedGuid, VariableItemRandomProperty).  It mirrors `Sem.encode` of Model/Sem.lean for
the generic part and adds canonical payload generators for those built-ins.  It is NOT part of the Lean model: frames it
produces are used as an additional correspondence stream (read -> write must reproduce them), labelled as such in the evidence."""
import struct


class Unsupported(Exception):
    pass


# mask-shaped built-ins: (mask bytes, slots, payload bytes per set slot)
MASKS = {"AuraMask_1_12": (4, 32, 2), "AuraMask_2_4_3": (8, 64, 3), "AuraMask_3_3_5": (8, 64, 5), "EnchantMask": (2, 16, 2), "CacheMask": (4, 32, 4)}


def prim_payload(name, rng, size_hint, maximal=False):
    if name in MASKS:
        mb, slots, pb = MASKS[name]
        mode = 1 if maximal else rng.below(5)
        if mode == 0:
            mask = 0
        elif mode == 1:
            mask = (1 << slots) - 1 if size_hint > 1 else 1 << (slots - 1)        # the highest slot
        elif mode == 2:
            mask = 1 << rng.below(slots)
        else:
            mask = 0
            for _ in range(1 + rng.below(5)):
                mask |= 1 << rng.below(slots)
        out = mask.to_bytes(mb, "little")
        for i in range(slots):
            if mask >> i & 1:
                out += rng.bytes(pb)
        return out
    if name == "MonsterMoveSplines":
        n = rng.choice([0, 0, 1, 2, 3, 5]) if size_hint else 0
        out = n.to_bytes(4, "little")
        if n:
            out += struct.pack("<fff", 1.5, -2.25, 100.0) + b"\x00\x00\x00\x00" * (n - 1)
        return out
    if name == "NamedGuid":
        if rng.below(3) == 0:
            return (0).to_bytes(8, "little")
        return (1 + rng.below(1 << 40)).to_bytes(8, "little") + bytes(97 + rng.below(26) for _ in range(rng.below(6))) + b"\x00"
    if name == "VariableItemRandomProperty":
        if rng.below(3) == 0:
            return (0).to_bytes(4, "little")
        return (1 + rng.below(1 << 20)).to_bytes(4, "little") + rng.bytes(4)
    raise Unsupported(name)


class Enc:
    def __init__(self, toks, rng, maxlen=3, sample=None, maximal=False, strlen=None, intval=None):
        self.t, self.i, self.r, self.maxlen, self.sample = toks, 0, rng, maxlen, sample
        self.intval = intval            # every plain (non-count, non-steering) integer field wide enough takes this value
        self.maximal, self.strlen = maximal, strlen   # maximal: longest strings, all flag bits, full masks, optional present
        self.counts = {int(toks[k + 1]) for k in range(len(toks) - 1) if toks[k] == "arrv"}
        self.steer = {int(toks[k + 1]) for k in range(len(toks) - 1) if toks[k] == "if"}
        self.nsteer = 0

    def nxt(self):
        x = self.t[self.i]
        self.i += 1
        return x

    def skip_ty(self):
        k = self.nxt()
        if k == "int":
            self.i += 2
        elif k in ("bool", "lvl"):
            self.i += 1
        elif k == "enum":
            self.i += 2
            n = int(self.nxt())
            self.i += n
        elif k == "prim":
            self.i += 1
        elif k == "struct":
            self.skip_members()
        elif k == "arrf" or k == "arrv":
            self.i += 1
            self.skip_ty()

    def skip_cond(self):
        k = self.nxt()
        if k in ("eq", "and"):
            n = int(self.nxt())
            self.i += n
        else:
            self.i += 1

    def skip_members(self):
        while True:
            k = self.nxt()
            if k == "end":
                return
            if k == "f":
                self.i += 1
                role = self.nxt()
                if role == "c":
                    self.i += 1
                self.skip_ty()
            elif k in ("fe", "fez"):
                self.i += 1
                self.skip_ty()
            elif k == "if":
                self.i += 1
                n = int(self.nxt())
                for _ in range(n):
                    self.skip_cond()
                    self.skip_members()
                self.skip_members()
            elif k == "opt":
                self.skip_members()

    def ty(self, env, vid=None, const=None):
        """-> (bytes, int value or None)"""
        k = self.nxt()
        if k == "int":
            w, e = int(self.nxt()), self.nxt()
            if const is not None:
                v = const
            elif vid in self.counts:
                v = self.maxlen if self.maximal else self.r.below(self.maxlen + 1)
            elif vid in self.steer and self.maximal:
                v = (1 << (8 * w)) - 1
            elif vid in self.steer:
                v = self.steer_value(vid, w)
            elif self.intval is not None and self.intval < (1 << (8 * w)) and (w >= 4 or self.intval >= (1 << (8 * (w - 1))) or w == 1):
                v = self.intval
            else:
                v = self.r.choice([0, 1, (1 << (8 * w)) - 1, self.r.below(1 << (8 * w))])
            return v.to_bytes(w, "little" if e == "le" else "big"), v
        if k == "bool":
            w = int(self.nxt())
            v = self.r.below(2) if const is None else const
            return v.to_bytes(w, "little"), v
        if k == "lvl":
            w = int(self.nxt())
            v = self.r.below(256) if const is None else const
            return v.to_bytes(w, "little"), v
        if k == "enum":
            w, e, n = int(self.nxt()), self.nxt(), int(self.nxt())
            vals = [int(self.nxt()) for _ in range(n)]
            if const is not None:
                v = const
            elif vid in self.steer and self.sample is not None:
                v = vals[(self.sample + self.nsteer) % len(vals)]
                self.nsteer += 1
            else:
                v = self.r.choice(vals)
            return v.to_bytes(w, "little" if e == "le" else "big"), v
        if k == "datetime":
            return (6 << 11).to_bytes(4, "little"), 6 << 11
        if k == "cstring":
            return self.text(255) + b"\x00", None
        if k == "sizedcstring":
            s = self.text(7999)
            return (len(s) + 1).to_bytes(4, "little") + s + b"\x00", None
        if k == "string":
            s = self.text(255)
            return bytes([len(s)]) + s, None
        if k == "packedguid":
            g = self.r.choice([0, 1, self.r.below(1 << 64), self.r.below(1 << 24) << 16])
            bs = g.to_bytes(8, "little")
            mask = sum(1 << i for i in range(8) if bs[i])
            return bytes([mask]) + bytes(b for b in bs if b), g
        if k == "prim":
            return prim_payload(self.nxt(), self.r, self.maxlen, self.maximal), None
        if k == "struct":
            return self.members({}), None
        if k == "arrf":
            n = int(self.nxt())
            start = self.i
            out = b""
            for _ in range(n):
                self.i = start
                out += self.ty(env)[0]
            if n == 0:
                self.skip_ty()
            return out, None
        if k == "arrv":
            var = int(self.nxt())
            if var not in env:
                raise Unsupported("count variable out of scope")
            n = env[var]
            start = self.i
            out = b""
            for _ in range(n):
                self.i = start
                out += self.ty(env)[0]
            if n == 0:
                self.skip_ty()
            return out, None
        raise Unsupported(k)

    def text(self, longest):
        """string payload: random short by default; `strlen` pins the length (capped at the type's longest), maximal uses the longest"""
        if isinstance(self.strlen, tuple):
            # (k, n): only the k-th string written gets n bytes (uncapped: used for over-limit inputs), the others stay short
            self.nstr = getattr(self, "nstr", 0) + 1
            n = self.strlen[1] if self.nstr - 1 == self.strlen[0] else self.r.below(4)
        else:
            n = longest if self.maximal else self.r.below(8) if self.strlen is None else min(self.strlen, longest)
        return bytes(97 + self.r.below(26) for _ in range(n))

    def steer_value(self, vid, w):
        """flag-like steering variable: none / single masks / all, cycling with the sample index"""
        masks = []
        for k in range(len(self.t) - 3):
            if self.t[k] == "if" and int(self.t[k + 1]) == vid:
                j = k + 3
                n = int(self.t[k + 2])
                # first condition only (enough to reach every first arm); further arms are reached by random values
                if self.t[j] == "and":
                    m = int(self.t[j + 1])
                    masks += [int(x) for x in self.t[j + 2:j + 2 + m]]
                elif self.t[j] == "eq":
                    m = int(self.t[j + 1])
                    masks += [int(x) for x in self.t[j + 2:j + 2 + m]]
        opts = [0] + masks + [(1 << (8 * w)) - 1]
        if self.sample is not None:
            v = opts[(self.sample + self.nsteer) % len(opts)]
            self.nsteer += 1
            return v
        return self.r.choice(opts + [self.r.below(1 << (8 * w))])

    def cond(self, env, var):
        k = self.nxt()
        x = env.get(var)
        if x is None:
            raise Unsupported("steering variable without a value")
        if k == "eq":
            n = int(self.nxt())
            vals = [int(self.nxt()) for _ in range(n)]
            return x in vals
        if k == "ne":
            return x != int(self.nxt())
        n = int(self.nxt())
        vals = [int(self.nxt()) for _ in range(n)]
        return any(x & m for m in vals)

    def members(self, env):
        out = b""
        while True:
            k = self.nxt()
            if k == "end":
                return out
            if k == "f":
                vid = int(self.nxt())
                role = self.nxt()
                if role == "c":
                    b, v = self.ty(env, vid, const=int(self.nxt()))
                elif role == "s":
                    # self.size: number of bytes of this object that follow the field
                    start = self.i
                    self.skip_ty()
                    rest = self.members_rest(env)
                    save = self.i
                    self.i = start
                    b, v = self.ty(env, vid, const=len(rest))
                    self.i = save
                    return out + b + rest
                else:
                    b, v = self.ty(env, vid)
                if v is not None:
                    env[vid] = v
                out += b
            elif k == "fe":
                self.i += 1
                start = self.i
                n = self.maxlen if self.maximal else self.r.below(self.maxlen + 1)
                for _ in range(n):
                    self.i = start
                    b = self.ty(env)[0]
                    if not b:
                        raise Unsupported("empty endless element")
                    out += b
                if n == 0:
                    self.skip_ty()
            elif k == "fez":
                # compressed endless array: u32 decompressed size, zlib stream (never empty here: the library's own writer and reader
                # disagree about empty payloads, a known finding outside this encoder's purpose)
                import zlib
                self.i += 1
                start = self.i
                payload = b""
                for _ in range(1 + self.r.below(self.maxlen + 1)):
                    self.i = start
                    payload += self.ty(env)[0]
                out += len(payload).to_bytes(4, "little") + zlib.compress(payload)
            elif k == "if":
                var = int(self.nxt())
                n = int(self.nxt())
                taken = False
                for _ in range(n):
                    c = self.cond(env, var)
                    if c and not taken:
                        taken = True
                        out += self.members(env)
                    else:
                        self.skip_members()
                if not taken:
                    out += self.members(env)
                else:
                    self.skip_members()
            elif k == "opt":
                if self.maximal or self.r.below(2):
                    b = self.members(env)
                    if not b:
                        raise Unsupported("empty optional")
                    out += b
                else:
                    self.skip_members()
            else:
                raise Unsupported(k)

    def members_rest(self, env):
        return self.members(env)


def encode(tokens, rng, maxlen=3, sample=None, maximal=False, strlen=None, intval=None):
    e = Enc(tokens, rng, maxlen, sample, maximal, strlen, intval)
    b = e.members({})
    if e.i != len(tokens):
        raise Unsupported("trailing tokens")
    return b


def literal_pool(repo, which="login"):
    """integer values suggested by the numeric literals of the hand-written codec sources (T-gen of the value dictionary): for a float
    literal L the f32 bit patterns of L, its two neighbours, L +- 0.5, L + 0.25, L + 2e-5 and -L; for an integer literal L - 1, L, L + 1 and the f32
    bit patterns of L, L +- 0.5, L + 0.25, L + 0.999, L +- 1 with their neighbours"""
    import os, re, struct, glob
    if which == "login":
        files = glob.glob(os.path.join(repo, "wow_login_messages/src/manual/*.rs")) + glob.glob(os.path.join(repo, "wow_login_messages/src/util/*.rs"))
    else:
        files = glob.glob(os.path.join(repo, "wow_world_messages/src/manual/**/*.rs"), recursive=True) + glob.glob(os.path.join(repo, "wow_world_messages/src/util/functions/*.rs")) + \
            glob.glob(os.path.join(repo, "wow_world_base/src/manual/**/*.rs"), recursive=True) + glob.glob(os.path.join(repo, "wow_world_base/src/shared/*.rs"))
    pool = set()
    for f in files:
        txt = re.sub(r"//[^\n]*", "", open(f).read())
        for m in re.finditer(r"(?<![\w.])(\d+\.\d+)(?:_?f32|_?f64)?(?![\w.])", txt):
            L = float(m.group(1))
            for x in (L, L + 0.5, L - 0.5, L + 0.25, L + 2e-5, -L):
                try:
                    b = struct.unpack("<I", struct.pack("<f", x))[0]
                except OverflowError:
                    continue
                pool.update({b, b + 1, max(0, b - 1)})
        for m in re.finditer(r"(?<![\w.])(0x[0-9a-fA-F_]+|\d[\d_]*)(?:_?[ui](?:8|16|32|64|size))?(?![\w.])", txt):
            try:
                L = int(m.group(1).replace("_", ""), 0)
            except ValueError:
                continue
            if 1 < L < (1 << 32):
                pool.update({L - 1, L, L + 1})
            if 1 < L < (1 << 24):
                # an integer literal may well be compared with a float read from the wire (after a cast, a match on `value as u32`, ...):
                # the f32 bit patterns of L, of its neighbours and of values inside the unit interval above / below it
                for x in (float(L), L + 0.5, L - 0.5, L + 0.25, L + 0.999, L + 2e-5, float(L + 1), float(L - 1)):
                    b = struct.unpack("<I", struct.pack("<f", x))[0]
                    pool.update({b, b + 1, max(0, b - 1)})
    return sorted(pool)
