"""T-gen for C04: the read expression of every enum-typed member in every generated reader (and the opcode match arms of
every opcodes.rs), paired with the wire width the wowm definition prescribes for that member."""
import os, re, sys
sys.path.insert(0, os.path.dirname(__file__))
import wowm
from rust_flags import Corpus, DOC_RE, REPO, version_of_path
from corpus import INTS

READ_RE = re.compile(r"// (\w+): (\w+)\n\s*let \1 = (\(?)crate::util::(?:tokio_|astd_)?read_([ui]\d+)_(le|be)\(&mut r\)(?:\.await)?\?(?: as ([ui]\d+)\))?\.try_into\(\)\?;")


def find_member(ms, name):
    for m in ms:
        if m["k"] == "field" and m["name"] == name:
            return m
        if m["k"] == "if":
            for sub in [m["members"]] + [e["members"] for e in m["elseifs"]] + ([m["else"]] if m["else"] is not None else []):
                r = find_member(sub, name)
                if r:
                    return r
        if m["k"] == "optional":
            r = find_member(m["members"], name)
            if r:
                return r
    return None


def extract(corpus=None):
    corpus = corpus or Corpus()
    enums = {}
    for o in corpus.objs:
        if o["kind"] == "enum":
            enums.setdefault(o["name"], []).append(o)
    items, problems = [], []
    for gd in ["wow_world_messages/src/world", "wow_login_messages/src/logon"]:
        for dp, dn, fn in os.walk(os.path.join(REPO, gd)):
            dn.sort()
            for f in sorted(fn):
                if not f.endswith(".rs"):
                    continue
                path = os.path.join(dp, f)
                raw = open(path, encoding="utf-8").read()
                if ".try_into()?" not in raw:
                    continue
                rel = os.path.relpath(path, REPO)
                docm = DOC_RE.search(raw)
                objs = [o for o in (corpus.at(docm.group(1), int(docm.group(2))) if docm else []) if o["kind"] not in ("enum", "flag", "test")]
                ver = version_of_path(rel)
                if ver and ver[0] != "login" and len(objs) > 1:
                    pick = [o for o in objs if any(wowm.world_covers(v, ver) for v in o["world"])]
                    objs = pick or objs
                seen = set()
                for m in READ_RE.finditer(raw):
                    name, tyname, paren, rty, endian, cast = m.groups()
                    if (name, rty, cast) in seen:
                        continue        # the sync / tokio / async-std copies of login readers
                    seen.add((name, rty, cast))
                    if tyname not in enums:
                        continue
                    mem = None
                    for o in objs:
                        mem = find_member(o["members"], name)
                        if mem:
                            break
                    if not mem or mem["ty"]["t"] != "name" or mem["ty"]["name"] != tyname:
                        problems.append({"file": rel, "member": name, "problem": f"member {name}: {tyname} not found in the wowm object documented for this file"})
                        continue
                    ds = [x for x in corpus.definer_for(tyname, objs[0]) if x["kind"] == "enum"]
                    if len(ds) != 1:
                        problems.append({"file": rel, "member": name, "problem": f"enum {tyname} resolves to {len(ds)} definitions for this object"})
                        continue
                    base = ds[0]["ty"].replace("_be", "")
                    wire = (mem["ty"].get("upcast") or ds[0]["ty"]).replace("_be", "")
                    wb = INTS[wire][0]
                    rb = INTS[rty][0]
                    shape = f"cast {rb} {INTS[cast][0]}" if cast else f"direct {rb}"
                    items.append({"file": rel, "member": name, "enum": tyname, "wire_bytes": wb, "base_bytes": INTS[base][0], "shape": shape,
                                  "line": f"enumread {wb} {shape}", "rust": m.group(0).split("\n")[-1].strip()})
    return items, problems


OPC_ARM = re.compile(r"^\s+(0x[0-9A-Fa-f]+) => (?:Ok\(Self::|crate::util::assert_empty)")


def opcode_tables(corpus=None):
    """for every world opcodes.rs: the opcodes matched by read_opcodes (client, server) vs the opcodes the wowm defines"""
    corpus = corpus or Corpus()
    out = []
    targets = {"vanilla": (1, 12), "tbc": (2, 4, 3), "wrath": (3, 3, 5)}
    for exp, tv in targets.items():
        src = open(os.path.join(REPO, f"wow_world_messages/src/world/{exp}/opcodes.rs")).read()
        for d, en in (("client", "ClientOpcodeMessage"), ("server", "ServerOpcodeMessage")):
            m = re.search(r"impl " + en + r" \{\s*fn read_opcodes\(.*?\n    \}", src, re.S)
            arms = sorted({int(x, 16) for x in re.findall(r"^\s+(0x[0-9A-Fa-f]+) => ", m.group(0), re.M)}) if m else []
            kinds = ("cmsg", "msg") if d == "client" else ("smsg", "msg")
            want = sorted({o["opcode_int"] for o in corpus.objs if o["kind"] in kinds and any(wowm.world_covers(v, tv) for v in o["world"])})
            out.append({"exp": exp, "dir": d, "rust": arms, "wowm": want})
    return out


if __name__ == "__main__":
    items, problems = extract()
    import collections
    print(len(items), "enum read sites;", len(problems), "problems", collections.Counter(i["shape"].split()[0] for i in items))
    for p in problems[:5]:
        print(p)
    for t in opcode_tables():
        print(t["exp"], t["dir"], len(t["rust"]), len(t["wowm"]), t["rust"] == t["wowm"])
