"""Independent reader of the wowm language (tokenizer + recursive-descent parser + version algebra).

Written from the language specification (wowm_language/src/spec) and the pest grammar; it shares no code with
wow_message_parser.  Used by the translators (T-gen) as "what the definition says".
"""
import os, re

BASIC = {"i8", "i16", "i32", "i64", "u8", "u16", "u32", "u64", "u48", "f32", "f64", "CString",
         "u8_be", "u16_be", "u32_be", "u64_be", "i32_be", "f32_be", "f64_be"}
CONTAINER_KW = {"struct", "clogin", "slogin", "smsg", "cmsg", "msg"}

TOKEN_RE = re.compile(r"""
    (?P<ws>\s+)
  | (?P<bcomment>/\*.*?\*/)
  | (?P<doc>///[^\n]*)
  | (?P<lcomment>//[^\n]*)
  | (?P<str>"[^"]*")
  | (?P<num>0x[0-9A-Fa-f]+|0b[01]+|-?[0-9]+\.[0-9]+|-[0-9]+)
  | (?P<selfsize>self\.size)
  | (?P<id>[A-Za-z0-9_]+)
  | (?P<op>==|!=|\|\||[#{}()\[\];:=&|,\-])
""", re.X | re.S)


class ParseError(Exception):
    pass


class Tok:
    __slots__ = ("k", "s", "line")

    def __init__(self, k, s, line):
        self.k, self.s, self.line = k, s, line

    def __repr__(self):
        return f"{self.k}:{self.s}@{self.line}"


def tokenize(src, fname="?"):
    toks, i, line = [], 0, 1
    n = len(src)
    while i < n:
        m = TOKEN_RE.match(src, i)
        if not m:
            raise ParseError(f"{fname}:{line}: cannot tokenize at {src[i:i+20]!r}")
        k = m.lastgroup
        s = m.group()
        if k not in ("ws", "bcomment", "lcomment"):
            toks.append(Tok(k, s, line))
        line += s.count("\n")
        i = m.end()
    toks.append(Tok("eof", "", line))
    return toks


def parse_int(s):
    """integer value of a wowm value token; None when it is not an integer literal"""
    try:
        if s.startswith("0x"):
            return int(s[2:], 16)
        if s.startswith("0b"):
            return int(s[2:], 2)
        if re.fullmatch(r"-?[0-9]+", s):
            return int(s)
        if s.startswith('"') and s.endswith('"') and len(s) >= 2:
            # string valued enumerators ("Win", "enUS", "\0x86"): the bytes of the text, big-endian, `\0` = NUL
            b = s[1:-1].replace("\\0", "\0").encode("utf-8")
            if len(b) <= 8:
                return int.from_bytes(b, "big")
    except ValueError:
        pass
    return None


class Parser:
    def __init__(self, src, fname):
        self.t = tokenize(src, fname)
        self.i = 0
        self.fname = fname

    def peek(self, o=0):
        return self.t[self.i + o]

    def next(self):
        t = self.t[self.i]
        self.i += 1
        return t

    def err(self, msg):
        t = self.peek()
        raise ParseError(f"{self.fname}:{t.line}: {msg} (at {t.s!r})")

    def expect(self, s):
        t = self.next()
        if t.s != s:
            self.i -= 1
            self.err(f"expected {s!r}")
        return t

    def ident(self):
        t = self.next()
        if t.k != "id":
            self.i -= 1
            self.err("expected identifier")
        return t.s

    def docs(self):
        out = []
        while self.peek().k == "doc":
            out.append(self.next().s[3:].strip())
        return out

    # value := hex | bin | float | int | "text" | self.size | identifier
    def value(self):
        t = self.next()
        if t.k in ("num", "id", "selfsize"):
            return t.s
        if t.k == "str":
            return t.s
        if t.s == "-":  # "-" ASCII_DIGIT+ may be tokenised as num already; lone '-' is the endless marker
            return "-"
        self.i -= 1
        self.err("expected value")

    def key_values(self):
        """{ key = "text"; ... } -> list of (key, text)"""
        kv = []
        self.expect("{")
        while self.peek().s != "}":
            k = self.ident()
            self.expect("=")
            t = self.next()
            if t.k != "str":
                self.i -= 1
                self.err("expected quoted text")
            self.expect(";")
            kv.append((k, t.s[1:-1]))
        self.expect("}")
        return kv

    def file(self):
        commands, objs = [], []
        while self.peek().s == "#":
            self.next()
            cmd = self.ident()
            key = self.ident()
            t = self.next()
            if t.k != "str":
                self.err("expected quoted text in command")
            self.expect(";")
            commands.append((cmd, key, t.s[1:-1]))
        while self.peek().k != "eof":
            d = self.docs()
            t = self.peek()
            if t.k == "eof":
                break
            if t.s in ("enum", "flag"):
                o = self.definer()
            elif t.s in CONTAINER_KW:
                o = self.container()
            elif t.s == "test":
                o = self.test()
            else:
                self.err("expected enum/flag/container/test")
            o["docs"] = d
            o["file"] = self.fname
            objs.append(o)
        return commands, objs

    def definer(self):
        line = self.peek().line
        kind = self.next().s
        name = self.ident()
        self.expect(":")
        ty = self.ident()
        if ty not in BASIC:
            self.err("definer base type must be a basic type")
        self.expect("{")
        fields = []
        while self.peek().s != "}":
            d = self.docs()
            fn = self.ident()
            self.expect("=")
            v = self.value()
            tags = []
            if self.peek().s == "{":
                tags = self.key_values()
            else:
                self.expect(";")
            fields.append({"name": fn, "value": v, "int": parse_int(v), "tags": tags, "docs": d})
        self.expect("}")
        tags = []
        while self.peek().s == "{":
            tags += self.key_values()
        return {"kind": kind, "name": name, "ty": ty, "fields": fields, "tags": tags, "line": line}

    def type_spec(self):
        upcast = None
        if self.peek().s == "(":
            self.next()
            upcast = self.ident()
            self.expect(")")
        name = self.ident()
        if self.peek().s == "[":
            self.next()
            t = self.next()
            if t.s == "-":
                size = ("endless",)
            elif t.k == "num" or (t.k == "id" and parse_int(t.s) is not None):
                size = ("fixed", parse_int(t.s))
            elif t.k == "id":
                size = ("var", t.s)
            else:
                self.i -= 1
                self.err("bad array size")
            self.expect("]")
            return {"t": "array", "inner": name, "size": size}
        return {"t": "name", "name": name, "upcast": upcast}

    def members(self):
        ms = []
        while self.peek().s != "}":
            ms.append(self.member())
        return ms

    def conds(self):
        cs = []
        while True:
            var = self.ident()
            op = self.next().s
            if op not in ("==", "!=", "&"):
                self.i -= 1
                self.err("expected == != &")
            val = self.value()
            cs.append((var, op, val))
            if self.peek().s == "||":
                self.next()
                continue
            break
        return cs

    def member(self):
        d = self.docs()
        t = self.peek()
        line = t.line
        if t.s == "if":
            self.next()
            self.expect("(")
            cs = self.conds()
            self.expect(")")
            self.expect("{")
            ms = self.members()
            self.expect("}")
            elseifs, els = [], None
            while self.peek().s == "else":
                self.next()
                if self.peek().s == "if":
                    self.next()
                    self.expect("(")
                    cs2 = self.conds()
                    self.expect(")")
                    self.expect("{")
                    ms2 = self.members()
                    self.expect("}")
                    elseifs.append({"conds": cs2, "members": ms2})
                else:
                    self.expect("{")
                    els = self.members()
                    self.expect("}")
                    break
            return {"k": "if", "conds": cs, "members": ms, "elseifs": elseifs, "else": els, "docs": d, "line": line}
        if t.s == "optional":
            self.next()
            name = self.ident()
            self.expect("{")
            ms = self.members()
            self.expect("}")
            tags = self.key_values() if self.peek().s == "{" else []
            return {"k": "optional", "name": name, "members": ms, "tags": tags, "docs": d, "line": line}
        if t.s == "unimplemented":
            self.next()
            return {"k": "unimplemented", "line": line}
        ty = self.type_spec()
        name = self.ident()
        val = None
        while self.peek().s == "=":
            self.next()
            val = self.value()
        tags = []
        if self.peek().s == "{":
            tags = self.key_values()
        else:
            self.expect(";")
        return {"k": "field", "ty": ty, "name": name, "value": val, "tags": tags, "docs": d, "line": line}

    def container(self):
        line = self.peek().line
        kind = self.next().s
        name = self.ident()
        opcode = None
        if self.peek().s == "=":
            self.next()
            opcode = self.value()
        self.expect("{")
        ms = self.members()
        self.expect("}")
        tags = self.key_values() if self.peek().s == "{" else []
        return {"kind": kind, "name": name, "opcode": opcode, "opcode_int": parse_int(opcode) if opcode else None,
                "members": ms, "tags": tags, "line": line}

    # ---- tests
    def test_value(self):
        t = self.peek()
        if t.s == "[":
            self.next()
            if self.peek().s == "{" or self.peek().s == "]" and False:
                pass
            items = []
            if self.peek().s == "{":
                while self.peek().s == "{":
                    items.append(self.sub_object())
                    if self.peek().s == ",":
                        self.next()
                self.expect("]")
                return {"t": "objs", "items": items}
            while self.peek().s != "]":
                items.append(self.value())
                if self.peek().s == ",":
                    self.next()
            self.expect("]")
            return {"t": "array", "items": items}
        if t.s == "{":
            return {"t": "obj", "items": self.sub_object()}
        vals = [self.value()]
        while self.peek().s == "|":
            self.next()
            vals.append(self.value())
        return {"t": "values", "items": vals}

    def sub_object(self):
        self.expect("{")
        items = []
        while self.peek().s != "}":
            items.append(self.test_item())
        self.expect("}")
        return items

    def test_item(self):
        name = self.ident()
        self.expect("=")
        v = self.test_value()
        tags = []
        if self.peek().s == "{":
            tags = self.key_values()
        else:
            self.expect(";")
        return {"name": name, "value": v, "tags": tags}

    def test(self):
        line = self.peek().line
        self.next()
        name = self.ident()
        self.expect("{")
        items = []
        while self.peek().s != "}":
            items.append(self.test_item())
        self.expect("}")
        self.expect("[")
        raw = []
        while self.peek().s != "]":
            raw.append(self.value())
            if self.peek().s == ",":
                self.next()
        self.expect("]")
        tags = self.key_values() if self.peek().s == "{" else []
        return {"kind": "test", "name": name, "items": items, "bytes": raw, "tags": tags, "line": line}


# ---------------------------------------------------------------- versions

ALL_WORLD = "*"


def parse_world_version(s):
    if s == "*":
        return "*"
    return tuple(int(x) for x in s.split("."))


def world_covers(a, b):
    """a covers b: every build matching b also matches a (a is a prefix of b, or a is '*')."""
    if a == "*":
        return True
    if b == "*":
        return False
    return len(a) <= len(b) and b[:len(a)] == a


def world_overlaps(a, b):
    return world_covers(a, b) or world_covers(b, a)


def obj_versions(o, commands):
    """returns (world_versions list, login_versions list, paste(bool)) after applying #tag_all"""
    tags = list(o["tags"])
    for cmd, key, text in commands:
        if cmd == "tag_all":
            tags.append((key, text))
    world, login, paste = [], [], False
    for k, v in tags:
        if k == "versions":
            world += [parse_world_version(x) for x in v.split()]
        elif k == "paste_versions":
            world += [parse_world_version(x) for x in v.split()]
            paste = True
        elif k == "login_versions":
            login += [("*" if x == "*" else int(x)) for x in v.split()]
    if "*" in world:
        world = ["*"]
    if "*" in login:
        login = ["*"]
    return world, login, paste


def load_tree(root):
    """parse every .wowm below root -> list of objects with 'world','login','paste' resolved; paste_versions objects are
    expanded into one object per version (as the language spec defines)."""
    objs = []
    for dp, dn, fn in sorted(os.walk(root)):
        dn.sort()
        for f in sorted(fn):
            if not f.endswith(".wowm"):
                continue
            p = os.path.join(dp, f)
            rel = os.path.relpath(p, os.path.dirname(os.path.dirname(root))) if False else p
            cmds, os_ = Parser(open(p, encoding="utf-8").read(), p).file()
            for o in os_:
                w, l, paste = obj_versions(o, cmds)
                o["all_tags"] = list(o["tags"]) + [(key, text) for cmd, key, text in cmds if cmd == "tag_all"]
                if paste:
                    for v in w:
                        c = dict(o)
                        c["world"], c["login"], c["pasted"] = [v], [], True
                        objs.append(c)
                else:
                    o["world"], o["login"], o["pasted"] = w, l, False
                    objs.append(o)
    return objs


MAIN_WORLD = [(1, 12), (2, 4, 3), (3, 3, 5)]


def is_generated(o):
    """objects for which Rust code is generated: any login version, or a world version matching Vanilla 1.12 / TBC 2.4.3 / Wrath 3.3.5"""
    if o["login"]:
        return True
    return any(v == "*" or any(world_covers(v, m) or world_covers(m, v) for m in MAIN_WORLD) for v in o["world"])


def tag(o, key):
    return [v for k, v in o.get("tags", []) if k == key]


if __name__ == "__main__":
    import sys, collections
    objs = load_tree(sys.argv[1] if len(sys.argv) > 1 else "/repo/wow_message_parser/wowm")
    c = collections.Counter(o["kind"] for o in objs)
    print(c, len(objs))
