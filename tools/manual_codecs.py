"""T-gen for the hand-written built-in codecs (wow_world_messages/src/manual/**): the parameters the Lean semantics uses for a built-in
type (`primKind`, driver command `primkind`) are re-read from the current Rust sources on every run.

For the mask types — pattern width of `read`, of `write_into_vec` and of `size()`, slot count, element layout as read, element size as
counted by `size()` — and for NamedGuid / VariableItemRandomProperty the shape `head; if head != 0 { tail }` in read, write and size.
A reader, writer and size function that disagree with each other or with the model are reported (C01): the round-trip theorem `rtPrim`
is about the model's codec, and this is the static half of its tie (the dynamic half is the C01 stream, which generates these values)."""
import os, re, sys
sys.path.insert(0, os.path.dirname(__file__))
sys.path.insert(0, os.path.join(os.path.dirname(__file__), "..", "lib"))

MASKS = {  # model name -> (file, struct)
    "AuraMask_1_12": "vanilla/aura_mask.rs", "AuraMask_2_4_3": "tbc/aura_mask.rs", "AuraMask_3_3_5": "wrath/aura_mask.rs",
    "EnchantMask": "wrath/enchant_mask.rs", "CacheMask": "wrath/cache_mask.rs", "InspectTalentGearMask": "wrath/inspect_talent_gear_mask.rs",
}
W = {"u8": 1, "u16": 2, "u32": 4, "u64": 8}


def fn_body(src, name):
    m = re.search(r"fn " + name + r"\b[^{]*\{", src)
    if not m:
        return None
    i = m.end() - 1
    depth, j = 0, i
    while True:
        if src[j] == "{":
            depth += 1
        elif src[j] == "}":
            depth -= 1
            if depth == 0:
                return src[i:j + 1]
        j += 1


def strip_tests(src):
    i = src.find("#[cfg(test)]")
    return src if i < 0 else src[:i]


READ = re.compile(r"read_(u8|u16|u32|u64)_le|read_(packed_guid)|(\w+Mask)::read|(\w+_aura_read)|(InspectTalentGear)::read")


def read_seq(body, repo):
    """the wire fields a reader body takes, in order"""
    out = []
    for m in READ.finditer(body):
        if m.group(1):
            out.append(m.group(1))
        elif m.group(2):
            out.append("pg")
        elif m.group(3):
            out.append("mask:" + m.group(3))
        elif m.group(4):
            shared = open(os.path.join(repo, "wow_world_messages/src/util/functions/shared.rs")).read()
            out += read_seq(fn_body(shared, m.group(4)) or "", repo)
        elif m.group(5):
            g = open(os.path.join(repo, "wow_world_messages/src/world/wrath/inspect_talent_gear.rs")).read()
            out += read_seq(fn_body(g, "read") or "", repo)
    return out


def mask_params(repo, rel):
    src = strip_tests(open(os.path.join(repo, "wow_world_messages/src/manual", rel)).read())
    p = {}
    m = re.search(r"const (?:MAX_CAPACITY|SIZE): usize = (\d+);", src)
    p["slots"] = int(m.group(1)) if m else None
    rd = fn_body(src, "read") or ""
    seq = read_seq(rd, repo)
    p["read_pattern"] = seq[0] if seq else None
    p["read_elem"] = seq[1:]
    wr = fn_body(src, "write_into_vec") or ""
    m = re.search(r"let mut \w+: (u\d+) = 0;|let mut \w+ = 0_(u\d+);", wr)
    p["write_pattern"] = (m.group(1) or m.group(2)) if m else None
    sz = fn_body(src, "size") or ""
    m = re.search(r"MASK_VARIABLE_SIZE: usize = (?:(?:std|core)::mem::size_of::<(u\d+)>\(\)|(\d+));", sz)
    p["size_pattern"] = (W[m.group(1)] if m.group(1) else int(m.group(2))) if m else None
    m = re.search(r"const (?:AURA_SIZE|MEMBER_SIZE): usize = ([^;]+);", sz)
    if m:
        p["size_elem"] = sum(W[t] for t in re.findall(r"size_of::<(u\d+)>", m.group(1))) + sum(int(x) for x in re.findall(r"(?<![<\w])(\d+)(?![\w>])", m.group(1)))
    else:
        p["size_elem"] = "m.size()" if "m.size()" in sz else None
    return p


def model_params(driver, name):
    a = driver.ask(f"primkind {name}").split()
    if a[0] != "mask":
        return {"kind": a[0]}
    return {"kind": "mask", "w": int(a[1]), "slots": int(a[2]), "elem": a[3].split(",")}


def check(repo=None):
    import semcorr
    from vlib import REPO
    repo = repo or REPO
    d = semcorr.Driver()
    items = []
    for name, rel in MASKS.items():
        mp = model_params(d, name)
        rp = mask_params(repo, rel)
        diffs = []
        if mp.get("kind") != "mask":
            diffs.append(f"the semantics has no mask codec for {name} ({mp})")
        else:
            w = mp["w"]
            for what in ("read_pattern", "write_pattern"):
                if rp[what] is None or W.get(rp[what]) != w:
                    diffs.append(f"{what} is {rp[what]} (model: {w} bytes)")
            if rp["size_pattern"] != w:
                diffs.append(f"size() counts {rp['size_pattern']} pattern bytes (model: {w})")
            if rp["slots"] != mp["slots"]:
                diffs.append(f"{rp['slots']} slots (model: {mp['slots']})")
            want = [("mask:EnchantMask" if e.startswith("mask:") else e) for e in mp["elem"]]
            if rp["read_elem"] != want:
                diffs.append(f"an element is read as {rp['read_elem']} (model: {want})")
            if isinstance(rp["size_elem"], int) and all(e in W for e in mp["elem"]) and rp["size_elem"] != sum(W[e] for e in mp["elem"]):
                diffs.append(f"size() counts {rp['size_elem']} bytes per element (model: {sum(W[e] for e in mp['elem'])})")
            if rp["size_elem"] is None:
                diffs.append("size() per element not recognised")
        items.append({"type": name, "file": "wow_world_messages/src/manual/" + rel, "rust": rp, "model": mp, "differences": diffs})
    # head / optional tail types
    for name, rel, head, tail in (("NamedGuid", "shared/tbc_wrath_named_guid.rs", "u64", "read_c_string_to_vec"), ("VariableItemRandomProperty", "shared/tbc_wrath_variable_item_random_property.rs", "u32", "read_u32_le")):
        src = strip_tests(open(os.path.join(repo, "wow_world_messages/src/manual", rel)).read())
        mp = model_params(d, name)
        diffs = []
        if mp["kind"] != {"NamedGuid": "namedguid", "VariableItemRandomProperty": "virp"}[name]:
            diffs.append(f"the semantics has no codec for {name}")
        rd = re.sub(r"\s+", " ", fn_body(src, "read") or "")
        if not re.search(r"let (\w+) = read_" + head + r"_le\(r\)\?; let \w+ = if \1 != 0 \{ (?:let \w+ = )?(?:Some\()?" + tail + r"\(r\)\?", rd):
            diffs.append("read is not `head = read_" + head + "_le; if head != 0 { " + tail + " }`")
        wr = re.sub(r"\s+", " ", fn_body(src, "write_into_vec") or "")
        if not re.search(r"^\{ w\.write_all\(&self\.\w+(?:\(\))?\.to_le_bytes\(\)\)\?; if let Some\((\w+)\) = &?self\.\w+ \{ w\.write_all\(", wr):
            diffs.append("write_into_vec is not `head; if let Some(tail) { tail }`")
        if name == "NamedGuid" and "w.write_all(&0_u8.to_le_bytes())?;" not in wr:
            diffs.append("the name's terminator is not written")
        items.append({"type": name, "file": "wow_world_messages/src/manual/" + rel, "model": mp, "differences": diffs})
    d.close()
    return items


if __name__ == "__main__":
    for it in check():
        print(it["type"], "OK" if not it["differences"] else it["differences"], it.get("rust", ""))
