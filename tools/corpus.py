"""Resolves the wowm corpus into CLOSED containers (structs inlined, definers as value tables) for every target version,
in the prefix-token format read by the Lean driver (`Model/Sem.lean`).  This is the translator of the specification side:
"what the wowm definition says", independent of wow_message_parser."""
import os, re, sys
sys.path.insert(0, os.path.dirname(__file__))
import wowm

REPO = os.environ.get("VERIF_REPO", "/repo")
WORLD_TARGETS = {"vanilla": (1, 12), "tbc": (2, 4, 3), "wrath": (3, 3, 5)}
LOGIN_TARGETS = [2, 3, 5, 6, 7, 8]

INTS = {"u8": (1, "le"), "u16": (2, "le"), "u32": (4, "le"), "u64": (8, "le"), "u48": (6, "le"),
        "i8": (1, "le"), "i16": (2, "le"), "i32": (4, "le"), "i64": (8, "le"), "f32": (4, "le"), "f64": (8, "le"),
        "u16_be": (2, "be"), "u32_be": (4, "be"), "u64_be": (8, "be"), "i32_be": (4, "be"), "f32_be": (4, "be"), "u8_be": (1, "be")}
ALIAS = {"Guid": "int 8 le", "Gold": "int 4 le", "Level": "int 1 le", "Level16": "lvl 2", "Level32": "lvl 4",
         "Seconds": "int 4 le", "Milliseconds": "int 4 le", "Population": "int 4 le", "Spell": "int 4 le", "Spell16": "int 2 le",
         "Item": "int 4 le", "IpAddress": "int 4 be", "Bool": "bool 1", "Bool16": "bool 2", "Bool32": "bool 4", "Bool64": "bool 8",
         "DateTime": "datetime", "CString": "cstring", "SizedCString": "sizedcstring", "String": "string", "PackedGuid": "packedguid"}
PRIMS = {"UpdateMask", "AuraMask", "EnchantMask", "InspectTalentGearMask", "CacheMask", "MonsterMoveSplines", "MonsterMoveSpline",
         "AchievementDoneArray", "AchievementInProgressArray", "AddonArray", "NamedGuid", "VariableItemRandomProperty"}


class Unsupported(Exception):
    pass


class Resolver:
    def __init__(self, objs=None, name_ids=False):
        # name_ids: fields are numbered by their NAME (crc32) instead of by position, as the dissector programs' variables are (C17, Thm/C17d.lean)
        self.name_ids = name_ids
        self.objs = objs or wowm.load_tree(os.path.join(REPO, "wow_message_parser/wowm"))
        self.by_name = {}
        for o in self.objs:
            if o["kind"] != "test":
                self.by_name.setdefault(o["name"], []).append(o)

    @staticmethod
    def valid_for(o, target):
        if isinstance(target, int):
            return any(v == "*" or v == target for v in o["login"])
        return any(wowm.world_covers(v, target) for v in o["world"])

    def lookup(self, name, target):
        c = [o for o in self.by_name.get(name, []) if self.valid_for(o, target)]
        if len(c) != 1:
            raise Unsupported(f"type {name} resolves to {len(c)} objects for {target}")
        return c[0]

    # ---- closed syntax
    def ty(self, t, target, scope):
        """t: type spec of a field -> token list"""
        if t["t"] == "array":
            inner = self.ty({"t": "name", "name": t["inner"], "upcast": None}, target, scope)
            k = t["size"][0]
            if k == "fixed":
                return ["arrf", str(t["size"][1])] + inner
            if k == "var":
                if t["size"][1] not in scope:
                    raise Unsupported(f"array length variable {t['size'][1]} not in scope")
                return ["arrv", str(scope[t["size"][1]])] + inner
            return ["arre"] + inner
        n = t["name"]
        if n in INTS:
            b, e = INTS[n]
            return ["int", str(b), e]
        if n in ALIAS:
            return ALIAS[n].split()
        if n in PRIMS and getattr(self, "expand_prims", False):
            x = self.expand_prim(n, target)
            if x is not None:
                return x
        if n in PRIMS:
            return ["prim", n + ("_" + (str(target) if isinstance(target, int) else "_".join(map(str, target))) if n in ("AuraMask", "AddonArray", "UpdateMask") else "")]
        o = self.lookup(n, target)
        if o["kind"] in ("enum", "flag"):
            base = o["ty"]
            wire = t.get("upcast") or base
            wb, we = INTS[wire]
            bb, _ = INTS[base]
            vals = []
            for f in o["fields"]:
                v = f["int"]
                if v is None:
                    raise Unsupported(f"enumerator {f['name']} of {n} has no integer value")
                if v < 0:
                    v += 1 << (8 * wb)      # two's complement at the wire width (sign extension of a signed base)
                vals.append(v)
            if o["kind"] == "flag":
                return ["int", str(wb), we]          # flags: every raw value is accepted and written back unchanged
            return ["enum", str(wb), we, str(len(vals))] + [str(v) for v in vals]
        if o["kind"] == "struct":
            return ["struct"] + self.members(o["members"], target, {}, [0]) + ["end"]
        raise Unsupported(f"type {n} is a {o['kind']}")

    # built-in types whose wire form IS expressible in the closed syntax (hand-written codecs under wow_world_messages/src/manual and
    # util): a bit mask followed by one fixed-size payload per set bit; an id followed by a member that exists iff the id is not 0.
    # Used only for the additional "#x" variant of a container (see containers()).
    MASK_SHAPES = {"AuraMask": {(1, 12): (4, 32, 2), (2, 4, 3): (8, 64, 3), (3, 3, 5): (8, 64, 5)}, "EnchantMask": (2, 16, 2), "CacheMask": (4, 32, 4)}

    def expand_prim(self, n, target):
        if n in self.MASK_SHAPES:
            sh = self.MASK_SHAPES[n]
            if isinstance(sh, dict):
                sh = sh.get(tuple(target) if not isinstance(target, int) else target)
            if sh is None:
                return None
            mb, slots, pb = sh
            out = ["struct", "f", "0", "p", "int", str(mb), "le"]
            for i in range(slots):
                out += ["if", "0", "1", "and", "1", str(1 << i), "f", str(i + 1), "p", "int", str(pb), "le", "end", "end"]
            return out + ["end"]
        if n == "NamedGuid":
            return ["struct", "f", "0", "p", "int", "8", "le", "if", "0", "1", "ne", "0", "f", "1", "p", "cstring", "end", "end", "end"]
        if n == "VariableItemRandomProperty":
            return ["struct", "f", "0", "p", "int", "4", "le", "if", "0", "1", "ne", "0", "f", "1", "p", "int", "4", "le", "end", "end", "end"]
        return None

    def definer_of_var(self, ms_all, var, target):
        """declared type object of variable `var` in the member list (searching nested ifs)"""
        for m in ms_all:
            if m["k"] == "field" and m["name"] == var and m["ty"]["t"] == "name":
                n = m["ty"]["name"]
                if n in INTS or n in ALIAS or n in PRIMS:
                    return None
                return self.lookup(n, target)
            if m["k"] == "if":
                for sub in [m["members"]] + [e["members"] for e in m["elseifs"]] + ([m["else"]] if m["else"] is not None else []):
                    r = self.definer_of_var(sub, var, target)
                    if r:
                        return r
        return None

    def cond(self, conds, ms_all, target, scope):
        var = conds[0][0]
        if any(c[0] != var for c in conds):
            raise Unsupported("if statement over several variables")
        d = self.definer_of_var(ms_all, var, target)
        if d is None or var not in scope:
            raise Unsupported(f"if variable {var} is not a definer field in scope")
        vals = {f["name"]: f["int"] for f in d["fields"]}
        ops = {c[1] for c in conds}
        if len(ops) != 1:
            raise Unsupported("mixed operators in one condition")
        op = ops.pop()
        nums = []
        for c in conds:
            if c[2] not in vals:
                raise Unsupported(f"enumerator {c[2]} not in {d['name']}")
            nums.append(vals[c[2]])
        vid = str(scope[var])
        if op == "==":
            return vid, ["eq", str(len(nums))] + [str(x) for x in nums]
        if op == "!=":
            if len(nums) != 1:
                raise Unsupported("!= with ||")
            return vid, ["ne", str(nums[0])]
        return vid, ["and", str(len(nums))] + [str(x) for x in nums]

    def members(self, ms, target, scope, counter, root=None):
        root = root if root is not None else ms
        out = []
        for m in ms:
            if m["k"] == "field":
                vid = counter[0]
                counter[0] += 1
                if getattr(self, "name_ids", False):
                    import zlib
                    vid = zlib.crc32(m["name"].encode()) & 0x3FFFFFFF
                t = self.ty(m["ty"], target, scope)
                scope[m["name"]] = vid
                if m["value"] == "self.size":
                    role = ["s"]
                elif m["value"] is not None:
                    v = wowm.parse_int(m["value"])
                    if v is None:
                        # constant given as an enumerator name
                        d = self.definer_of_var(root, m["name"], target)
                        vals = {f["name"]: f["int"] for f in d["fields"]} if d else {}
                        if m["value"] not in vals:
                            raise Unsupported(f"constant {m['value']} unreadable")
                        v = vals[m["value"]]
                    role = ["c", str(v)]
                else:
                    role = ["p"]
                if any(k == "compressed" for k, _ in m["tags"]):
                    if t[0] != "arre":
                        raise Unsupported("compressed member")
                    # endless compressed array: u32 decompressed size + zlib stream up to the end of the message.  Outside the Lean
                    # semantics; the tokens are only published as `ztokens` for the python reference encoder (tools/pyenc.py)
                    self.has_z = True
                    out += ["fez", str(vid)] + t[1:]
                elif t[0] == "arre":
                    out += ["fe", str(vid)] + t[1:]
                else:
                    out += ["f", str(vid)] + role + t
            elif m["k"] == "if":
                vid, c0 = self.cond(m["conds"], root, target, scope)
                branches = [(c0, m["members"])]
                for e in m["elseifs"]:
                    v2, c = self.cond(e["conds"], root, target, scope)
                    if v2 != vid:
                        raise Unsupported("else-if over a different variable")
                    branches.append((c, e["members"]))
                out += ["if", vid, str(len(branches))]
                for c, bm in branches:
                    out += c + self.members(bm, target, scope, counter, root) + ["end"]
                out += self.members(m["else"] or [], target, scope, counter, root) + ["end"]
            elif m["k"] == "optional":
                out += ["opt"] + self.members(m["members"], target, scope, counter, root) + ["end"]
            else:
                raise Unsupported("unimplemented")
        return out

    def containers(self):
        """yield dict(key, lib, target, kind, name, opcode, tokens | unsupported)"""
        for o in self.objs:
            if o["kind"] in ("enum", "flag", "test", "struct"):
                continue
            targets = []
            if o["kind"] in ("clogin", "slogin"):
                targets = [("login", v) for v in LOGIN_TARGETS if self.valid_for(o, v)]
            else:
                targets = [(e, v) for e, v in WORLD_TARGETS.items() if self.valid_for(o, v)]
            for lib, tv in targets:
                d = {"lib": lib, "target": tv, "kind": o["kind"], "name": o["name"], "opcode": o["opcode_int"], "file": o["file"], "line": o["line"],
                     "key": f"{lib if lib != 'login' else 'login' + str(tv)}:{o['kind']}:{o['name']}"}
                try:
                    if any(k == "compressed" for k, _ in o["tags"]):
                        # whole-body compression: u32 decompressed size + zlib(body); tokens published as `zmsg_tokens` for the python reference encoder only
                        try:
                            self.has_z = False
                            d["zmsg_tokens"] = self.members(o["members"], tv, {}, [0]) + ["end"]
                        except Unsupported:
                            pass
                        raise Unsupported("compressed message")
                    self.has_z = False
                    toks = self.members(o["members"], tv, {}, [0]) + ["end"]
                    if self.has_z:
                        d["ztokens"] = toks
                        raise Unsupported("compressed member")
                    d["tokens"] = toks
                except Unsupported as e:
                    d["unsupported"] = str(e)
                yield d
                if "tokens" in d and "prim" in d["tokens"]:
                    # second variant with the expressible built-in types written out in the closed syntax (key suffix #x): the same wire
                    # format, now inside the Lean semantics (round-trip and bounds theorems apply to it as to any closed program)
                    self.expand_prims = True
                    try:
                        toks = self.members(o["members"], tv, {}, [0]) + ["end"]
                        if toks != d["tokens"]:
                            yield dict(d, key=d["key"] + "#x", tokens=toks, expanded=True)
                    except Unsupported:
                        pass
                    finally:
                        self.expand_prims = False


def write_corpus(path):
    r = Resolver()
    n = 0
    uns = []
    with open(path, "w") as f:
        for c in r.containers():
            if "tokens" in c:
                f.write(f"container {c['key']} {c['opcode']} {' '.join(c['tokens'])}\n")
                n += 1
            else:
                uns.append(c)
    return n, uns


if __name__ == "__main__":
    import collections
    n, uns = write_corpus("/tmp/corpus.txt")
    print(n, "containers;", len(uns), "unsupported")
    print(collections.Counter(re.sub(r"\d+|[A-Z_]{4,}\w*", "#", u["unsupported"]) for u in uns).most_common(12))
    print(open("/tmp/corpus.txt").readline()[:300])
