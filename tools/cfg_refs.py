"""T-gen translator for C19: re-reads the cfg structure of the three libraries from /repo's current sources.
Per crate: the feature table of Cargo.toml (declared features, optional dependencies = implicit features, `a = ["b"]`
implications), the module tree with the `#[cfg(..)]` guard of every module (conjunction along the path from lib.rs), the
guarded items / statements inside every file, and every reference `crate::a::b::…` (target = the longest module prefix) or
`<optional dependency>::…` together with the guard in force at the reference site.  Output: (site guard, target guard)
pairs as formulas over numbered features for the verified checker `Cfg.checkAll`."""
import os, re, sys
sys.path.insert(0, os.path.dirname(__file__))
import rustmini as rm

REPO = os.environ.get("VERIF_REPO", "/repo")
CRATES = ["wow_login_messages", "wow_world_messages", "wow_world_base"]


def parse_cargo(crate):
    text = open(os.path.join(REPO, crate, "Cargo.toml")).read()
    feats, optional, section = {}, set(), None
    cur_dep = None
    for line in text.split("\n"):
        line = line.split("#")[0].rstrip()
        m = re.match(r"\[(.+)\]", line.strip())
        if m:
            section = m.group(1)
            cur_dep = section.split(".", 1)[1] if section.startswith("dependencies.") else None
            continue
        if section == "features":
            m = re.match(r'\s*([\w-]+)\s*=\s*\[(.*)\]', line)
            if m:
                feats[m.group(1)] = re.findall(r'"([^"]+)"', m.group(2))
        elif section == "dependencies":
            m = re.match(r'\s*([\w-]+)\s*=\s*\{(.*)\}', line)
            if m and re.search(r"optional\s*=\s*true", m.group(2)):
                optional.add(m.group(1))
        elif cur_dep and re.match(r"\s*optional\s*=\s*true", line):
            optional.add(cur_dep)
    return feats, optional


class Crate:
    def __init__(self, name):
        self.name = name
        self.feats, self.optional = parse_cargo(name)
        self.universe = []            # feature names in numbering order

    def fid(self, f):
        if f not in self.universe:
            self.universe.append(f)
        return self.universe.index(f)

    def implied(self):
        out = []
        for a, lst in self.feats.items():
            if a == "default":
                continue
            for b in lst:
                if b.startswith("dep:"):
                    out.append((self.fid(a), self.fid(b[4:])))
                elif "/" in b:
                    dep = b.split("/")[0].rstrip("?")
                    if dep in self.optional and "?" not in b.split("/")[0]:
                        out.append((self.fid(a), self.fid(dep)))
                elif b in self.feats or b in self.optional:
                    out.append((self.fid(a), self.fid(b)))
        return out


# ---- cfg expressions -> formula tuples: ('tt',) ('f',name) ('not',x) ('and',a,b) ('or',a,b)
def parse_cfg(text):
    toks = re.findall(r'"[^"]*"|[\w-]+|[(),=]', text)
    pos = [0]

    def peek():
        return toks[pos[0]] if pos[0] < len(toks) else None

    def nxt():
        t = peek()
        pos[0] += 1
        return t

    def expr():
        t = nxt()
        if t in ("all", "any"):
            assert nxt() == "("
            items = []
            while peek() != ")":
                items.append(expr())
                if peek() == ",":
                    nxt()
            nxt()
            if not items:
                return ("tt",) if t == "all" else ("not", ("tt",))
            r = items[0]
            for x in items[1:]:
                r = ("and" if t == "all" else "or", r, x)
            return r
        if t == "not":
            assert nxt() == "("
            x = expr()
            assert nxt() == ")"
            return ("not", x)
        if t == "feature":
            assert nxt() == "="
            return ("f", nxt().strip('"'))
        if peek() == "=":           # target_os = "…" etc.
            nxt()
            return ("f", f"{t}={nxt()}")
        return ("f", "cfg:" + t)    # test, debug_assertions, …
    return expr()


def conj(a, b):
    if a == ("tt",):
        return b
    if b == ("tt",):
        return a
    return ("and", a, b)


CFG_RE = re.compile(r"#\s*\[\s*cfg\s*\(")


def attr_end(src, i):
    """src[i] == '#': index just after the closing ']'"""
    j = src.index("[", i)
    depth = 0
    while True:
        c = src[j]
        if c == "[":
            depth += 1
        elif c == "]":
            depth -= 1
            if depth == 0:
                return j + 1
        elif c == '"':
            j = src.index('"', j + 1)
        j += 1


def guarded_ranges(src):
    """[(start, end, guard)] for every item / statement / block carrying #[cfg(..)] attributes"""
    # brace matching in one pass
    match, stack = {}, []
    for m in re.finditer(r'"(?:[^"\\]|\\.)*"|\'(?:[^\'\\]|\\.)\'|[{}]', src):
        t = m.group(0)
        if t == "{":
            stack.append(m.start())
        elif t == "}":
            if stack:
                match[stack.pop()] = m.start()
    out = []
    # #[cfg_attr(COND, …)]: whatever the attribute mentions is only seen when COND holds
    for m in re.finditer(r"#\s*\[\s*cfg_attr\s*\(", src):
        e = attr_end(src, m.start())
        inner = src[m.end():e]
        depth, cut = 0, None
        for i, c in enumerate(inner):
            if c == "(":
                depth += 1
            elif c == ")":
                depth -= 1
            elif c == "," and depth == 0:
                cut = i
                break
        if cut is not None:
            out.append((m.start(), e, parse_cfg(inner[:cut])))
    pos = 0
    while True:
        m = CFG_RE.search(src, pos)
        if not m:
            break
        start = m.start()
        guard = ("tt",)
        j = start
        # consecutive attributes
        while True:
            e = attr_end(src, j)
            text = src[j:e]
            mm = re.match(r"#\s*\[\s*cfg\s*\((.*)\)\s*\]$", text, re.S)
            if mm:
                guard = conj(guard, parse_cfg(mm.group(1)))
            k = e
            while k < len(src) and src[k].isspace():
                k += 1
            if k < len(src) and src[k] == "#" and re.match(r"#\s*\[", src[k:k + 4]):
                j = k
                continue
            break
        # the item: up to the first ';' or '{' at bracket depth 0 (for struct fields / enum variants / match arms also ',')
        is_item = re.match(r"(?:pub(?:\([^)]*\))?\s+)?(?:(?:async|const|unsafe|default|extern(?:\s+\"[^\"]*\")?)\s+)*(?:fn|impl|mod|struct|enum|union|trait|use|type|const|static|macro_rules)\b", src[k:k + 80]) is not None
        depth, k2, end = 0, k, None
        while k2 < len(src):
            c = src[k2]
            if c in "([":
                depth += 1
            elif c in ")]":
                depth -= 1
                if depth < 0:          # attribute on an expression / argument / struct field inside a list: ends at the closing bracket
                    end = k2
                    break
            elif c == '"':
                k2 = src.index('"', k2 + 1)
            elif depth == 0 and c == ";":
                end = k2 + 1
                break
            elif depth == 0 and c == "," and not is_item:      # enum variant / struct field / match arm without block
                end = k2 + 1
                break
            elif depth == 0 and c == "{":
                end = match.get(k2, len(src)) + 1
                break
            elif depth == 0 and c == "}":
                end = k2
                break
            k2 += 1
        if end is None:
            end = len(src)
        out.append((start, end, guard))
        pos = e
    return out


MOD_RE = re.compile(r"(?m)^[ \t]*(?:pub(?:\([a-z]+\))?\s+)?mod\s+(\w+)\s*;")
INLINE_MOD_RE = re.compile(r"(?m)^[ \t]*(?:pub(?:\([a-z]+\))?\s+)?mod\s+(\w+)\s*\{")


def guard_at(ranges, p):
    g = ("tt",)
    for s, e, gd in ranges:
        if s <= p < e:
            g = conj(g, gd)
    return g


def walk(crate):
    """-> modules {path tuple: guard}, files [(relpath, module path, guard, src, ranges)]"""
    root = os.path.join(REPO, crate.name, "src")
    modules, files = {(): ("tt",)}, []

    def visit(path, mpath, guard):
        raw = open(path, encoding="utf-8").read()
        src = rm.strip_comments(raw)
        ranges = guarded_ranges(src)
        files.append((os.path.relpath(path, REPO), mpath, guard, src, ranges))
        base = os.path.dirname(path)
        stem = os.path.basename(path)[:-3]
        sub = base if stem in ("lib", "mod", "main") else os.path.join(base, stem)
        for m in MOD_RE.finditer(src):
            name = m.group(1)
            g = conj(guard, guard_at(ranges, m.start()))
            # an attribute directly on the `mod x;` line starts before the match: ranges cover [attr start, ';']
            child = None
            for cand in (os.path.join(sub, name + ".rs"), os.path.join(sub, name, "mod.rs")):
                if os.path.exists(cand):
                    child = cand
            modules[mpath + (name,)] = g
            if child:
                visit(child, mpath + (name,), g)
        for m in INLINE_MOD_RE.finditer(src):
            modules.setdefault(mpath + (m.group(1),), conj(guard, guard_at(ranges, m.start())))
    visit(os.path.join(root, "lib.rs"), (), ("tt",))
    return modules, files


ITEM_RE = re.compile(r"(?m)^(?:pub(?:\([a-z]+\))?\s+)?(?:(?:async|const|unsafe)\s+)*(const|static|fn|struct|enum|type|trait)\s+([A-Za-z_]\w*)")
USE_RE = re.compile(r"(?m)^[ \t]*pub(?:\([a-z]+\))?\s+use\s+((?:\w+::)*)(\*|\{[^}]*\}|\w+)\s*;")


def disj(a, b):
    if a is None:
        return b
    if a == ("tt",) or b == ("tt",):
        return ("tt",)
    return a if a == b else ("or", a, b)


def exports_of(modules, files):
    """module path -> {item name: guard under which `crate::<module>::<name>` resolves} (definitions in the module's file plus
    `pub use` re-exports, each under the cfg guard in force where it is written; alternatives are OR-ed)"""
    by_mod = {mp: (src, ranges) for rel, mp, g, src, ranges in files}
    cache = {}

    def ex(mp, depth=0):
        if mp in cache:
            return cache[mp]
        cache[mp] = {}
        out = {}
        if mp not in by_mod or depth > 6:
            return out
        src, ranges = by_mod[mp]
        for m in ITEM_RE.finditer(src):
            out[m.group(2)] = disj(out.get(m.group(2)), guard_at(ranges, m.start()))
        for m in USE_RE.finditer(src):
            g = guard_at(ranges, m.start())
            segs = [x for x in m.group(1).split("::") if x]
            if segs and segs[0] == "crate":
                base = tuple(segs[1:])
            elif segs and segs[0] == "super":
                base = mp[:-1] + tuple(segs[1:])
            elif segs and segs[0] == "self":
                base = mp + tuple(segs[1:])
            else:
                base = mp + tuple(segs)
            what = m.group(2)
            if what == "*":
                if base in modules:
                    for n, gn in ex(base, depth + 1).items():
                        out[n] = disj(out.get(n), conj(conj(g, modules[base]), gn))
            else:
                names = re.findall(r"\w+", what) if what.startswith("{") else [what]
                src_ex = ex(base, depth + 1) if base in modules else {}
                for n in names:
                    if n in src_ex:
                        out[n] = disj(out.get(n), conj(conj(g, modules[base]), src_ex[n]))
        cache[mp] = out
        return out
    return {mp: ex(mp) for mp in modules}


def extract(crate_name):
    crate = Crate(crate_name)
    for f in list(crate.feats) + sorted(crate.optional):
        if f != "default":
            crate.fid(f)
    modules, files = walk(crate)
    exports = exports_of(modules, files)
    deps = {d.replace("-", "_"): d for d in crate.optional}
    refs = {}           # (site formula, target formula) -> example
    nrefs = 0
    path_re = re.compile(r"\bcrate::((?:\w+::)*\w+)")
    dep_re = re.compile(r"(?<![\w:])(" + "|".join(map(re.escape, deps)) + r")::") if deps else None
    for rel, mpath, fguard, src, ranges in files:
        for m in path_re.finditer(src):
            segs = tuple(m.group(1).split("::"))
            k = len(segs)
            while k > 0 and segs[:k] not in modules:
                k -= 1
            if k == 0:
                continue
            target = modules[segs[:k]]
            item = segs[k] if k < len(segs) else None
            if item is not None and item in exports.get(segs[:k], {}):
                # `crate::module::ITEM`: the item itself (or the `pub use` that brings it into the module) can be guarded
                target = conj(target, exports[segs[:k]][item])
            if target == ("tt",):
                continue
            site = conj(fguard, guard_at(ranges, m.start()))
            nrefs += 1
            refs.setdefault((site, target), f"{rel}: crate::{'::'.join(segs[:k])}")
        if dep_re:
            for m in dep_re.finditer(src):
                site = conj(fguard, guard_at(ranges, m.start()))
                nrefs += 1
                refs.setdefault((site, ("f", deps[m.group(1)])), f"{rel}: {m.group(1)}::")
    return crate, modules, files, refs, nrefs


def to_tokens(crate, f):
    """prefix token form for the Lean driver: T | F<n> | N x | A x y | O x y"""
    if f[0] == "tt":
        return ["T"]
    if f[0] == "f":
        return [f"F{crate.fid(f[1])}"]
    if f[0] == "not":
        return ["N"] + to_tokens(crate, f[1])
    return [("A" if f[0] == "and" else "O")] + to_tokens(crate, f[1]) + to_tokens(crate, f[2])


def show(f):
    if f[0] == "tt":
        return "true"
    if f[0] == "f":
        return f[1]
    if f[0] == "not":
        return f"not({show(f[1])})"
    return f"{'all' if f[0] == 'and' else 'any'}({show(f[1])}, {show(f[2])})"


if __name__ == "__main__":
    for c in CRATES:
        crate, modules, files, refs, nrefs = extract(c)
        print(c, "features", crate.universe, "implied", crate.implied(), "modules", len(modules), "files", len(files), "refs", nrefs, "distinct", len(refs))
        import itertools
        n = len(crate.universe)
        imp = crate.implied()

        def ev(f, env):
            if f[0] == "tt":
                return True
            if f[0] == "f":
                return env.get(f[1], False)
            if f[0] == "not":
                return not ev(f[1], env)
            return (ev(f[1], env) and ev(f[2], env)) if f[0] == "and" else (ev(f[1], env) or ev(f[2], env))
        names = set()

        def collect(f):
            if f[0] == "f":
                names.add(f[1])
            elif f[0] != "tt":
                for x in f[1:]:
                    collect(x)
        for (s, t) in refs:
            collect(s)
            collect(t)
        names = sorted(names | set(crate.universe))
        for (s, t), ex in refs.items():
            bad = None
            for bits in itertools.product([False, True], repeat=len(names)):
                env = dict(zip(names, bits))
                if all((not env[crate.universe[a]]) or env[crate.universe[b]] for a, b in imp) and ev(s, env) and not ev(t, env):
                    bad = [k for k, v in env.items() if v]
                    break
            if bad is not None:
                print("   NOT IMPLIED", show(s), "=>", show(t), "   e.g.", ex, "  under", bad)
