"""C07: random well-formed wowm programs over the language features the corpus uses.  Deterministic in the seed.
Every program is a set of definers + structs + one message (Vanilla 1.12, unused opcode).  Names are letter-only and fresh
(the Wireshark printer requires equally named fields to have equal types across all messages and cuts names at digits)."""
import sys, os, re
sys.path.insert(0, os.path.join(os.path.dirname(__file__), "..", "lib"))

INT_TYPES = ["u8", "u16", "u32", "u64", "i32", "f32"]      # the integer types world messages of the corpus use (i8/i16/i64 have no reader in the hand-written util)
SIMPLE = ["Guid", "PackedGuid", "Bool", "Bool32", "CString", "SizedCString", "Level", "Level32", "Gold", "Seconds", "Milliseconds", "Spell", "Item", "DateTime"]
LETTERS = "abcdefghijklmnopqrstuvwxyz"


class Gen:
    def __init__(self, rng, index, avoid=()):
        self.r = rng
        self.index = index
        self.avoid = avoid
        self.names = set()
        self.out = []

    def name(self, prefix="zq"):
        while True:
            n = prefix + "".join(LETTERS[self.r.below(26)] for _ in range(5))
            if n not in self.names:
                self.names.add(n)
                return n

    def tname(self, prefix):
        n = self.name("")
        return prefix + n.capitalize() + "Zq"

    def enum(self):
        ty = self.r.choice(["u8", "u8", "u16", "u32"])
        n = 2 + self.r.below(4)
        name = self.tname("Ve")
        vals = sorted({self.r.below(min(250, 256 ** int(ty[1:]) // 8 if ty != "u8" else 250)) for _ in range(n + 2)})[:n]
        if len(vals) < 2:
            vals = [0, 1]
        ens = [(self.name("").upper(), v) for v in vals]
        self.out.append(f"enum {name} : {ty} {{\n" + "".join(f"    {e} = {v};\n" for e, v in ens) + "} {\n    versions = \"1.12\";\n}\n")
        return name, ty, ens

    def flag(self):
        ty = self.r.choice(["u8", "u16", "u32"])
        bits = int(ty[1:])
        n = 2 + self.r.below(3)
        name = self.tname("Vf")
        pos = sorted({self.r.below(bits) for _ in range(n + 2)})[:n]
        ens = [("NONE", 0)] + [(self.name("").upper(), 1 << p) for p in pos]
        self.out.append(f"flag {name} : {ty} {{\n" + "".join(f"    {e} = 0x{v:X};\n" for e, v in ens) + "} {\n    versions = \"1.12\";\n}\n")
        return name, ty, ens[1:]

    def struct(self):
        name = self.tname("Vs")
        body = []
        for _ in range(1 + self.r.below(3)):
            body.append(f"    {self.r.choice(INT_TYPES + ['Guid', 'CString', 'Bool'])} {self.name()};")
        if self.r.below(3) == 0:
            en, ty, ens = self.enum()
            v = self.name()
            body.append(f"    {en} {v};")
            e0 = ens[self.r.below(len(ens))][0]
            body.append(f"    if ({v} == {e0}) {{\n        {self.r.choice(INT_TYPES)} {self.name()};\n    }}")
        self.out.append(f"struct {name} {{\n" + "\n".join(body) + "\n} {\n    versions = \"1.12\";\n}\n")
        return name

    def plain_member(self, ind):
        k = self.r.below(12)
        pad = " " * ind
        if k < 4:
            return [f"{pad}{self.r.choice(INT_TYPES)} {self.name()};"]
        if k < 7:
            return [f"{pad}{self.r.choice(SIMPLE)} {self.name()};"]
        if k == 7:
            return [f"{pad}{self.r.choice(['u8', 'u16', 'u32'])} {self.name()} = {self.r.below(200)};"]
        if k == 8:
            return [f"{pad}{self.r.choice(['u8', 'u16', 'u32', 'Guid'])}[{1 + self.r.below(4)}] {self.name()};"]
        if k == 9:
            cnt = self.name()
            inner = self.r.choice(["u8", "u32", "Guid", "CString", self.struct() if self.r.below(2) else "u16"])
            return [f"{pad}{self.r.choice(['u8', 'u16', 'u32'])} {cnt};", f"{pad}{inner}[{cnt}] {self.name()};"]
        if k == 10:
            return [f"{pad}{self.struct()} {self.name()};"]
        # upcast enum without if
        en, ty, ens = self.enum()
        wider = [t for t in ("u16", "u32", "u64") if int(t[1:]) > int(ty[1:])]
        if wider and self.r.below(2):
            return [f"{pad}({self.r.choice(wider)}){en} {self.name()};"]
        return [f"{pad}{en} {self.name()};"]

    def block(self, ind, n):
        out = []
        for _ in range(n):
            out += self.plain_member(ind)
        return out

    def if_enum(self, ind, depth):
        pad = " " * ind
        en, ty, ens = self.enum()
        v = self.name()
        out = [f"{pad}{en} {v};"]
        names = [e for e, _ in ens]
        self.r_shuffle(names)
        form = self.r.below(4)
        if form == 0 and len(names) >= 1:
            out.append(f"{pad}if ({v} != {names[0]}) {{")
            if "or-arm+const-or-array" in self.avoid:      # `!=` selects several enumerators: same restriction as `||` arms
                out += [f"{' ' * (ind + 4)}{self.r.choice(INT_TYPES + ['Guid', 'CString', 'Bool', 'Gold'])} {self.name()};" for _ in range(1 + self.r.below(2))]
            else:
                out += self.inner(ind + 4, depth)
            out.append(pad + "}")
            return out
        k = 1 + self.r.below(min(2, len(names)))
        first = names[:k]
        rest = names[k:]
        out.append(f"{pad}if ({' || '.join(f'{v} == {e}' for e in first)}) {{")
        # several enumerators share one arm: the printer builds the arm's value once per enumerator
        if k > 1 and "or-arm+const-or-array" in self.avoid:
            # arms shared by several enumerators: plain scalar members only (constants are emitted once per enumerator, arrays and
            # nested conditionals do not compile — see known findings)
            out += [f"{' ' * (ind + 4)}{self.r.choice(INT_TYPES + ['Guid', 'CString', 'Bool', 'Gold'])} {self.name()};" for _ in range(1 + self.r.below(2))]
        else:
            out += self.inner(ind + 4, depth if not (k > 1 and "or-arm+nested-if" in self.avoid) else 99)
        out.append(pad + "}")
        later = depth if "else-arm+nested-if" not in self.avoid else 99      # nested conditionals in else-if / else arms: see known findings
        if rest and self.r.below(2):
            out.append(f"{pad}else if ({v} == {rest[0]}) {{")
            out += self.inner(ind + 4, later, "else-arm+const" in self.avoid)
            out.append(pad + "}")
            rest = rest[1:]
        if self.r.below(2):
            out.append(pad + "else {")
            out += self.inner(ind + 4, later, "else-arm+const" in self.avoid)
            out.append(pad + "}")
        return out

    def if_flag(self, ind, depth):
        pad = " " * ind
        fn, ty, ens = self.flag()
        v = self.name()
        out = [f"{pad}{fn} {v};"]
        names = [e for e, _ in ens]
        self.r_shuffle(names)
        fdepth = depth if "flag-arm+nested-if" not in self.avoid else 99
        # separate if statements per flag bit (the common corpus form), sometimes an else-if chain
        if len(names) >= 2 and self.r.below(3) == 0 and "flag-else-if" not in self.avoid:
            out.append(f"{pad}if ({v} & {names[0]}) {{")
            out += self.inner(ind + 4, depth)
            out.append(pad + "}")
            out.append(f"{pad}else if ({v} & {names[1]}) {{")
            out += self.inner(ind + 4, depth if "else-arm+nested-if" not in self.avoid else 99)
            out.append(pad + "}")
            return out
        for e in names[:1 + self.r.below(len(names))]:
            out.append(f"{pad}if ({v} & {e}) {{")
            # constants inside the arms of separate flag ifs are handled by the generator (unlike enum arms, see known findings)
            out += self.inner(ind + 4, fdepth, flagarm=True)
            out.append(pad + "}")
        return out

    def inner(self, ind, depth, noconst=False, flagarm=False):
        out = self.block(ind, 1 + self.r.below(2))
        if "nested-if" in self.avoid:
            depth = 99
        if "arm+array" in self.avoid:
            # arrays inside conditional arms: the emitted size() refers to the array outside the arm that binds it (known finding)
            keep, skip = [], False
            for l in out:
                if "[" in l:
                    if keep and re.match(r"\s*(u8|u16|u32) \w+;$", keep[-1]) and re.search(r"\[(\w+)\]", l) and re.search(r"\[(\w+)\]", l).group(1) in keep[-1]:
                        keep.pop()
                    continue
                keep.append(l)
            out = keep or [" " * ind + f"u32 {self.name()};"]
        if noconst or ("arm+const" in self.avoid and not flagarm):
            out = [l for l in out if " = " not in l] or [" " * ind + f"u8 {self.name()};"]
        if depth < 1 and self.r.below(3) == 0:
            out += self.if_enum(ind, depth + 1) if self.r.below(2) else self.if_flag(ind, depth + 1)
        return out

    def r_shuffle(self, xs):
        for i in range(len(xs) - 1, 0, -1):
            j = self.r.below(i + 1)
            xs[i], xs[j] = xs[j], xs[i]

    def message(self, avoid=()):
        kind = self.r.choice(["smsg", "cmsg"])
        name = f"{kind.upper()}_VERIF_{self.name('').upper()}"
        opcode = 0x0C00 + self.index
        body = self.block(4, self.r.below(3))
        for _ in range(self.r.below(3)):
            body += self.if_enum(4, 0) if self.r.below(2) else self.if_flag(4, 0)
            body += self.block(4, self.r.below(2))
        tail = self.r.below(6)
        has_if = any(l.lstrip().startswith("if (") for l in body)
        if tail == 1 and has_if and "if+optional" in avoid:
            tail = 2
        if tail == 0 and has_if and "if+endless" in avoid:
            tail = 2
        if tail == 0:
            body.append(f"    {self.r.choice(['u8', 'u32', 'Guid', 'CString'])}[-] {self.name()};")
        elif tail == 1:
            body.append(f"    optional {self.name()} {{")
            body += self.block(8, 1 + self.r.below(2))
            body.append("    }")
        if not body:
            body = self.block(4, 1)
        self.out.append(f"{kind} {name} = 0x{opcode:04X} {{\n" + "\n".join(body) + "\n} {\n    versions = \"1.12\";\n}\n")
        return name, kind, opcode


SHAPES = {"small": ["u8 {a};"], "large": ["u64 {a};", "u32 {b};"], "string": ["CString {a};"], "packed": ["PackedGuid {a};", "u8 {b};"], "empty": []}


def systematic(rng, start_index):
    """size-shape programs: every combination of (if arm, else-if arm?, else arm) shapes — fixed small, fixed large, variable string,
    packed guid, empty — over `==` and `!=`, so that every way of combining branch minima / maxima occurs"""
    text, msgs = [], []
    names = set()
    idx = start_index
    shapes = list(SHAPES)
    for op in ("==", "!="):
        for a in shapes:
            for b in shapes:
                if a == "empty" and b == "empty":
                    continue
                g = Gen(rng, idx)
                g.names = names
                en, ty, ens = g.enum()
                v = g.name()

                def arm(sh):
                    return "".join("        " + l.format(a=g.name(), b=g.name()) + "\n" for l in SHAPES[sh])
                body = f"    {en} {v};\n    if ({v} {op} {ens[0][0]}) {{\n{arm(a)}    }}\n"
                if b != "empty":
                    body += f"    else {{\n{arm(b)}    }}\n"
                body += f"    u16 {g.name()};\n"
                kind = "smsg" if idx % 2 else "cmsg"
                name = f"{kind.upper()}_VERIF_{g.name('').upper()}"
                g.out.append(f"{kind} {name} = 0x{0x0C00 + idx:04X} {{\n{body}}} {{\n    versions = \"1.12\";\n}}\n")
                text += g.out
                msgs.append((name, kind, 0x0C00 + idx))
                idx += 1
    # flag-arm shapes: members that are on the wire but not in the Rust struct (constants) inside the arms of separate flag ifs, with
    # and without a self.size field in front and with a second arm / a member after the ifs (declared size = bytes written)
    for with_size in (False, True):
        for arm2 in (["u16 {a} = 0;", "u8 {b};"], ["u32 {a} = 7;"], ["u8 {a};", "u16 {b} = 513;"], ["Guid {a};", "u8 {b} = 1;"]):
            for tail in ("", "    u8 {t};\n"):
                g = Gen(rng, idx)
                g.names = names
                fn, ty, ens = g.flag()
                v = g.name()
                body = (f"    u16 {g.name()} = self.size;\n" if with_size else "") + f"    u8 {g.name()};\n    {fn} {v};\n"
                body += f"    if ({v} & {ens[0][0]}) {{\n        u8 {g.name()};\n    }}\n"
                body += f"    if ({v} & {ens[1][0]}) {{\n" + "".join("        " + l.format(a=g.name(), b=g.name()) + "\n" for l in arm2) + "    }\n"
                body += tail.format(t=g.name())
                kind = "smsg" if idx % 2 else "cmsg"
                name = f"{kind.upper()}_VERIF_{g.name('').upper()}"
                g.out.append(f"{kind} {name} = 0x{0x0C00 + idx:04X} {{\n{body}}} {{\n    versions = \"1.12\";\n}}\n")
                text += g.out
                msgs.append((name, kind, 0x0C00 + idx))
                idx += 1
    # array shapes: every array form (fixed count, counted by an earlier field, until the end of the message) over every element
    # type the language allows in an array — integers of every width, Guid, PackedGuid (1-9 bytes per element), CString, a struct of
    # constant size and a struct of variable size — with a member in front and, for the bounded forms, a member behind
    for form in ("fixed", "counted", "endless"):
        for elem in ("u8", "u16", "u32", "u64", "Guid", "PackedGuid", "CString", "struct-fixed", "struct-var"):
            g = Gen(rng, idx)
            g.names = names
            if elem.startswith("struct"):
                sname = g.tname("Vs")
                members = [f"    u16 {g.name()};", f"    Guid {g.name()};"] if elem == "struct-fixed" else [f"    u8 {g.name()};", f"    CString {g.name()};", f"    PackedGuid {g.name()};"]
                g.out.append(f"struct {sname} {{\n" + "\n".join(members) + "\n} {\n    versions = \"1.12\";\n}\n")
                et = sname
            else:
                et = elem
            body = f"    u32 {g.name()};\n"
            if form == "fixed":
                body += f"    {et}[3] {g.name()};\n    u8 {g.name()};\n"
            elif form == "counted":
                cnt = g.name()
                body += f"    u8 {cnt};\n    {et}[{cnt}] {g.name()};\n    u16 {g.name()};\n"
            else:
                body += f"    {et}[-] {g.name()};\n"
            kind = "smsg" if idx % 2 else "cmsg"
            name = f"{kind.upper()}_VERIF_{g.name('').upper()}"
            g.out.append(f"{kind} {name} = 0x{0x0C00 + idx:04X} {{\n{body}}} {{\n    versions = \"1.12\";\n}}\n")
            text += g.out
            msgs.append((name, kind, 0x0C00 + idx))
            idx += 1
    # endless array behind a member that is on the wire but not in the Rust struct (the count of a counted array, a constant, a `self.size` field):
    # the reader's running size must start with those bytes too
    for hidden in ("counted-array", "constant", "self-size", "constant+counted-array"):
        for elem in ("u32", "Guid", "struct-fixed"):
            g = Gen(rng, idx)
            g.names = names
            if elem.startswith("struct"):
                sname = g.tname("Vs")
                g.out.append(f"struct {sname} {{\n    u16 {g.name()};\n    Guid {g.name()};\n}} {{\n    versions = \"1.12\";\n}}\n")
                et = sname
            else:
                et = elem
            body = ""
            for part in hidden.split("+"):
                if part == "counted-array":
                    cnt = g.name()
                    body += f"    u8 {cnt};\n    u32[{cnt}] {g.name()};\n"
                elif part == "constant":
                    body += f"    u16 {g.name()} = 513;\n"
                else:
                    body += f"    u32 {g.name()} = self.size;\n"
            body += f"    {et}[-] {g.name()};\n"
            kind = "smsg" if idx % 2 else "cmsg"
            name = f"{kind.upper()}_VERIF_{g.name('').upper()}"
            g.out.append(f"{kind} {name} = 0x{0x0C00 + idx:04X} {{\n{body}}} {{\n    versions = \"1.12\";\n}}\n")
            text += g.out
            msgs.append((name, kind, 0x0C00 + idx))
            idx += 1
    # the ONLY constant-valued member of a container in each kind of position: top level, if arm, else-if arm, else arm, optional tail, nested if inside an
    # else-if arm (the printers gate the `*_VALUE` constants on "the container has a constant somewhere")
    for where_ in ("top", "if", "else-if", "else"):      # (a conditional followed by an optional tail, and nested conditionals, are known findings with their own probes)
        g = Gen(rng, idx)
        g.names = names
        en, ty, ens = g.enum()
        v = g.name()
        const = f"u16 {g.name()} = 4660;"
        arm = lambda k: ("        " + const + "\n" if where_ == k else "") + f"        u8 {g.name()};\n"
        body = ("    " + const + "\n" if where_ == "top" else "") + f"    {en} {v};\n"
        body += f"    if ({v} == {ens[0][0]}) {{\n{arm('if')}    }}\n"
        inner = ""
        if where_ == "nested-in-else-if":
            en2, ty2, ens2 = g.enum()
            v2 = g.name()
            inner = f"        {en2} {v2};\n        if ({v2} == {ens2[0][0]}) {{\n            {const}\n            u8 {g.name()};\n        }}\n"
        body += f"    else if ({v} == {ens[1][0]}) {{\n{arm('else-if')}{inner}    }}\n"
        body += f"    else {{\n{arm('else')}    }}\n"
        if where_ == "optional":
            body += f"    optional {g.name()} {{\n        {const}\n        u32 {g.name()};\n    }}\n"
        kind = "smsg" if idx % 2 else "cmsg"
        name = f"{kind.upper()}_VERIF_{g.name('').upper()}"
        g.out.append(f"{kind} {name} = 0x{0x0C00 + idx:04X} {{\n{body}}} {{\n    versions = \"1.12\";\n}}\n")
        text += g.out
        msgs.append((name, kind, 0x0C00 + idx))
        idx += 1
    # self.size shapes: the members in front of a `self.size` field are subtracted from size() by the writer (`self.size() - N`): every
    # constant-size member kind in front — nothing, integers, an enum of every width as declared and UPCAST to a wider integer, a Bool, a Guid,
    # a fixed array — over both usual widths of the size field, with a variable-size tail behind
    for szty in ("u16", "u32"):
        for front in ("none", "u8", "u32", "enum", "upcast-u16", "upcast-u32", "upcast-u64", "Bool", "Guid", "u16[2]", "enum+upcast-u32"):
            g = Gen(rng, idx)
            g.names = names
            body = ""
            for part in front.split("+"):
                if part == "none":
                    continue
                if part == "enum" or part.startswith("upcast"):
                    en, ty, ens = g.enum()
                    if part.startswith("upcast"):
                        up = part.split("-")[1]
                        if int(up[1:]) <= int(ty[1:]):
                            up = {"u8": "u16", "u16": "u32", "u32": "u64"}[ty]
                        body += f"    ({up}){en} {g.name()};\n"
                    else:
                        body += f"    {en} {g.name()};\n"
                else:
                    body += f"    {part} {g.name()};\n"
            body += f"    {szty} {g.name()} = self.size;\n    CString {g.name()};\n    u32 {g.name()};\n"
            kind = "smsg" if idx % 2 else "cmsg"
            name = f"{kind.upper()}_VERIF_{g.name('').upper()}"
            g.out.append(f"{kind} {name} = 0x{0x0C00 + idx:04X} {{\n{body}}} {{\n    versions = \"1.12\";\n}}\n")
            text += g.out
            msgs.append((name, kind, 0x0C00 + idx))
            idx += 1
    return "\n".join(text), msgs


def generate(rng, count, avoid=()):
    """-> (wowm text, [(message name, kind, opcode)]); `avoid`: feature combinations not to generate (known findings are probed separately)"""
    text, msgs = [], []
    names = set()
    for i in range(count):
        g = Gen(rng, i, avoid)
        g.names = names
        m = g.message(avoid)
        text += g.out
        msgs.append(m)
    return "\n".join(text), msgs


if __name__ == "__main__":
    from vlib import SplitMix64
    t, m = generate(SplitMix64(int(sys.argv[1]) if len(sys.argv) > 1 else 1), 3)
    print(t)
    print(m)
