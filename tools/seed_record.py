#!/usr/bin/env python3
"""seed_record.py <PID> <tag> <caught|missed> "<caught_by text>" ["<note>"] — copy a sub-agent's deliverables into /verif/seeded and remove its worktree"""
import json, os, shutil, subprocess, sys
pid, tag, status, caught_by = sys.argv[1:5]
note = sys.argv[5] if len(sys.argv) > 5 else ""
out = f"/tmp/seed/{pid}-{tag}-out"
ma = json.load(open(os.path.join(out, "meta.agent.json")))
slug = ma.get("slug", "unnamed")
dst = f"/verif/seeded/{pid}-{slug}"
os.makedirs(dst, exist_ok=True)
shutil.copy(os.path.join(out, "patch.diff"), dst)
shutil.copy(os.path.join(out, "meta.agent.json"), dst)
if os.path.isdir(os.path.join(out, "demo")):
    shutil.copytree(os.path.join(out, "demo"), os.path.join(dst, "demo"), dirs_exist_ok=True)
tb = ""
for f in ("tests_after.log",):
    p = os.path.join(out, f)
    if os.path.exists(p):
        lines = [l for l in open(p, errors="replace") if l.startswith("test result")]
        tb = f"{sum(int(l.split(' passed')[0].split()[-1]) for l in lines)} passed, {sum(int(l.split(' failed')[0].split()[-1]) for l in lines)} failed (agent's tests_after.log)"
meta = {
    "property": pid, "breaks": ma.get("breaks"), "needs_to_manifest": ma.get("needs_to_manifest"), "files_changed": ma.get("files_changed"),
    "produced_by": f"independent sub-agent (round {tag}) given only the property text, a scratch worktree and a one-line description of the earlier seeds of this property",
    "confirmed_by_me": f"sub-agent: demo {ma.get('demo_with_patch')} with patch / {ma.get('demo_without_patch')} without; suite after the change: {ma.get('tests_after')} {tb}; patch applied to /repo and the break reproduced through the check's own replay against the real code",
    "ran_against_checks": f"git -C /repo apply /verif/seeded/{pid}-{slug}/patch.diff; ./check {pid} --tier quick; git -C /repo checkout -- .",
    "caught_by": [caught_by], "missed_by_first_version": status == "missed", "note": note,
}
json.dump(meta, open(os.path.join(dst, "meta.json"), "w"), indent=1)
wt = f"/tmp/seed/{pid}-{tag}"
if os.path.isdir(wt):
    subprocess.run(["git", "-C", "/repo", "worktree", "remove", "--force", wt])
shutil.rmtree(out, ignore_errors=True)
print("recorded", dst)
