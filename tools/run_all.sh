#!/bin/sh
# run every quick check on the tree as it is; one summary line per check (used before committing evidence)
cd /verif
for i in 01 02 03 04 05 06 07 08 09 10 11 12 13 14 15 16 17 18 19 20; do
  ./check C$i --tier quick 2>&1 | grep -v "^KNOWN-FINDING" | tail -2 | cut -c1-300
done
