"""Specification side of the reader comparison: the wowm containers in the closed syntax with the variable ids of tools/rust_codec.py
(`vid(name)`), every role erased (readers do not validate constants) — otherwise exactly tools/corpus.py.  The per-enumerator
expansion of conditionals over an enum (what the generated `match` looks like) is done by the Lean driver (`Sem.expandMs`), not here."""
import os, sys
sys.path.insert(0, os.path.dirname(__file__))
import wowm
from corpus import Resolver, Unsupported
from rust_codec import vid


class NameResolver(Resolver):
    def members(self, ms, target, scope, counter, root=None):
        root = root if root is not None else ms
        out = []
        for m in ms:
            if m["k"] == "field":
                v = vid(m["name"])
                t = self.ty(m["ty"], target, scope)
                scope[m["name"]] = v
                if any(k == "compressed" for k, _ in m["tags"]):
                    raise Unsupported("compressed member")
                if t[0] == "arre":
                    out += ["fe", str(v)] + t[1:]
                else:
                    out += ["f", str(v), "p"] + t
            elif m["k"] == "if":
                v0, c0 = self.cond(m["conds"], root, target, scope)
                branches = [(c0, m["members"])]
                for e in m["elseifs"]:
                    v2, c = self.cond(e["conds"], root, target, scope)
                    if v2 != v0:
                        raise Unsupported("else-if over a different variable")
                    branches.append((c, e["members"]))
                out += ["if", v0, str(len(branches))]
                for c, bm in branches:
                    out += c + self.members(bm, target, scope, counter, root) + ["end"]
                out += self.members(m["else"] or [], target, scope, counter, root) + ["end"]
            elif m["k"] == "optional":
                out += ["opt"] + self.members(m["members"], target, scope, counter, root) + ["end"]
            else:
                raise Unsupported("unimplemented")
        return out

    def spec_containers(self):
        for c in self.containers():
            if c["key"].endswith("#x"):
                continue
            yield c
