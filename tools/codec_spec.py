"""Specification side of the reader / writer comparison: the wowm containers in the closed syntax with the variable ids of
tools/rust_codec.py (`vid(name)`; the count field of a counted array is named `len:<array>`, as the writers see it) — otherwise exactly
tools/corpus.py.  The per-enumerator expansion of conditionals over an enum (what the generated `match` looks like) and the erasure of
roles for the reader comparison are done by the Lean driver (`Sem.expandMs`, `Sem.eraseMs`), not here."""
import os, sys
sys.path.insert(0, os.path.dirname(__file__))
import wowm
from corpus import Resolver, Unsupported
from rust_codec import vid


def count_renames(ms, out=None):
    """writer side: the count field of a counted array is written as `xs.len()` — its id is derived from the array's name"""
    out = {} if out is None else out
    for m in ms:
        if m["k"] == "field" and m["ty"]["t"] == "array" and m["ty"]["size"][0] == "var":
            out.setdefault(m["ty"]["size"][1], "len:" + m["name"])
        elif m["k"] == "if":
            for sub in [m["members"]] + [e["members"] for e in m["elseifs"]] + ([m["else"]] if m["else"] is not None else []):
                count_renames(sub, out)
        elif m["k"] == "optional":
            count_renames(m["members"], out)
    return out


class NameResolver(Resolver):
    writer = True         # keep the roles (constants, self.size) and name count fields after their array (`len:<array>`)

    def members(self, ms, target, scope, counter, root=None):
        if root is None and self.writer:
            ren = count_renames(ms)
            self.ren_stack = getattr(self, "ren_stack", []) + [ren]
            try:
                return self.members(ms, target, scope, counter, ms)
            finally:
                self.ren_stack.pop()
        root = root if root is not None else ms
        ren = self.ren_stack[-1] if (self.writer and getattr(self, "ren_stack", None)) else {}
        out = []
        for m in ms:
            if m["k"] == "field":
                v = vid(ren.get(m["name"], m["name"]))
                t = self.ty(m["ty"], target, scope)
                scope[m["name"]] = v
                if any(k == "compressed" for k, _ in m["tags"]):
                    raise Unsupported("compressed member")
                role = ["p"]
                if self.writer:
                    if m["value"] == "self.size":
                        role = ["s"]
                    elif m["value"] is not None:
                        c = wowm.parse_int(m["value"])
                        if c is None:
                            d = self.definer_of_var(root, m["name"], target)
                            vals = {f["name"]: f["int"] for f in d["fields"]} if d else {}
                            if m["value"] not in vals:
                                raise Unsupported(f"constant {m['value']} unreadable")
                            c = vals[m["value"]]
                        role = ["c", str(c)]
                if t[0] == "arre":
                    out += ["fe", str(v)] + t[1:]
                else:
                    out += ["f", str(v)] + role + t
            elif m["k"] == "if":
                v0, c0 = self.cond(m["conds"], root, target, scope)
                branches = [(c0, m["members"])]
                for e in m["elseifs"]:
                    v2, c = self.cond(e["conds"], root, target, scope)
                    if v2 != v0:
                        raise Unsupported("else-if over a different variable")
                    branches.append((c, e["members"]))
                out += ["if", v0, str(len(branches))]
                for c, bm in branches:
                    out += c + self.members(bm, target, scope, counter, root) + ["end"]
                out += self.members(m["else"] or [], target, scope, counter, root) + ["end"]
            elif m["k"] == "optional":
                out += ["opt"] + self.members(m["members"], target, scope, counter, root) + ["end"]
            else:
                raise Unsupported("unimplemented")
        return out

    def spec_containers(self):
        for c in self.containers():
            if c["key"].endswith("#x"):
                continue
            yield c
