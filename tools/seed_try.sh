#!/bin/sh
# usage: seed_try.sh <patch.diff> <PID> [<PID> ...]   — apply a seeded change to /repo, run the quick checks, undo it
P="$1"; shift
cd /repo || exit 2
git -C /repo diff --quiet || { echo "/repo is dirty"; exit 2; }
git -C /repo apply "$P" || { echo "patch does not apply"; exit 2; }
for id in "$@"; do
  echo "=== $id with $(basename $(dirname $P))"
  (cd /verif && timeout 3000 ./check "$id" --tier quick 2>&1 | tail -25; echo "exit=$?")
done
git -C /repo checkout -- .
git -C /repo status --short | head -5
