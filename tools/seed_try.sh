#!/bin/sh
# usage: seed_try.sh <patch.diff> <PID> [<PID> ...]   — apply a seeded change to /repo, run the quick checks, undo it
P="$1"; shift
cd /repo || exit 2
git -C /repo diff --quiet || { echo "/repo is dirty"; exit 2; }
git -C /repo apply "$P" || { echo "patch does not apply"; exit 2; }
# the evidence files of runs against a patched tree must never be committed: keep the ones of the unchanged tree aside
rm -rf /tmp/evidence.keep; mkdir -p /tmp/evidence.keep; cp /verif/evidence/*.json /tmp/evidence.keep/ 2>/dev/null
for id in "$@"; do
  echo "=== $id with $(basename $(dirname $P))"
  (cd /verif && timeout 3000 ./check "$id" --tier quick 2>&1 | tail -25; echo "exit=$?")
done
git -C /repo checkout -- .
cp /tmp/evidence.keep/*.json /verif/evidence/ 2>/dev/null
git -C /repo status --short | head -5
