"""Minimal reader of the stylised Rust that wow_message_parser prints: impl blocks, fn bodies, small expressions.
Strict: whatever is not recognised is reported as ('unknown', text) and never silently dropped."""
import re


def strip_comments(src):
    out, i, n = [], 0, len(src)
    while i < n:
        c = src[i]
        if src.startswith("//", i):
            j = src.find("\n", i)
            i = n if j < 0 else j
            continue
        if src.startswith("/*", i):
            j = src.find("*/", i + 2)
            i = n if j < 0 else j + 2
            continue
        if c == '"':
            j = i + 1
            while j < n and src[j] != '"':
                j += 2 if src[j] == "\\" else 1
            out.append(src[i:j + 1])
            i = j + 1
            continue
        if c == "'" and i + 2 < n and (src[i + 2] == "'" or (src[i + 1] == "\\" and i + 3 < n and src[i + 3] == "'")):
            j = src.find("'", i + 2 if src[i + 1] != "\\" else i + 3)
            out.append(src[i:j + 1])
            i = j + 1
            continue
        out.append(c)
        i += 1
    return "".join(out)


def match_brace(src, i):
    """src[i] == '{' -> index of matching '}'"""
    depth, n = 0, len(src)
    while i < n:
        c = src[i]
        if c == '"':
            i += 1
            while i < n and src[i] != '"':
                i += 2 if src[i] == "\\" else 1
        elif c == "{":
            depth += 1
        elif c == "}":
            depth -= 1
            if depth == 0:
                return i
        i += 1
    raise ValueError("unbalanced braces")


IMPL_RE = re.compile(r"(?m)^(?P<attrs>(?:[ \t]*#\[[^\n]*\]\n)*)[ \t]*impl(?:<[^>{]*>)?\s+(?P<head>[^{]+?)\s*\{")
FN_RE = re.compile(r"(?P<attrs>(?:[ \t]*#\[[^\n]*\]\s*\n)*)[ \t]*(?P<vis>pub(?:\([a-z]+\))?\s+)?(?P<quals>(?:const\s+|async\s+|unsafe\s+)*)fn\s+(?P<name>[A-Za-z0-9_]+)\s*(?P<generics><[^>(]*>)?\s*\(")


def match_paren(src, i):
    depth, n = 0, len(src)
    while i < n:
        if src[i] == "(":
            depth += 1
        elif src[i] == ")":
            depth -= 1
            if depth == 0:
                return i
        i += 1
    raise ValueError("unbalanced parens")


def impls(src):
    """yield dicts {head, attrs, body, start} for every top-level impl block (src must be comment-stripped)"""
    pos = 0
    while True:
        m = IMPL_RE.search(src, pos)
        if not m:
            return
        ob = m.end() - 1
        cb = match_brace(src, ob)
        yield {"head": " ".join(m.group("head").split()), "attrs": m.group("attrs"), "body": src[ob + 1:cb], "start": m.start()}
        pos = cb + 1


def fns(body):
    """yield dicts {name, vis, quals, args, ret, body, attrs} for every fn in an impl body"""
    pos = 0
    while True:
        m = FN_RE.search(body, pos)
        if not m:
            return
        op = m.end() - 1
        cp = match_paren(body, op)
        # first '{' / ';' after the parameter list, ignoring array types such as `[Self; 2]`
        ob = semi = -1
        depth = 0
        for j in range(cp, len(body)):
            ch = body[j]
            if ch == "[":
                depth += 1
            elif ch == "]":
                depth -= 1
            elif depth == 0 and ch == "{":
                ob = j
                break
            elif depth == 0 and ch == ";":
                semi = j
                break
        if ob < 0:
            pos = cp + 1
            continue
        cb = match_brace(body, ob)
        sig_tail = body[cp + 1:ob].strip()
        ret = sig_tail[2:].strip() if sig_tail.startswith("->") else sig_tail
        yield {"name": m.group("name"), "vis": (m.group("vis") or "").strip(), "quals": m.group("quals").split(),
               "args": " ".join(body[op + 1:cp].split()), "ret": " ".join(ret.split()), "body": body[ob + 1:cb].strip(),
               "attrs": m.group("attrs")}
        pos = cb + 1


# ---------------------------------------------------------------- expressions

TOK = re.compile(r"\s*(?:(?P<num>0x[0-9A-Fa-f_]+|0b[01_]+|[0-9][0-9_]*)(?P<suf>[iu](?:8|16|32|64|128|size))?|(?P<id>[A-Za-z_][A-Za-z0-9_]*(?:::[A-Za-z_][A-Za-z0-9_]*|::<[^>]*>)*)|(?P<op>\|\||&&|==|!=|<=|>=|<<|>>|->|=>|[-+*/%&|^!<>=.,;:(){}\[\]?]))")


def lex(s):
    toks, i = [], 0
    s = s.strip()
    while i < len(s):
        m = TOK.match(s, i)
        if not m or m.end() == i:
            return None
        if m.group("num"):
            toks.append(("num", int(m.group("num").replace("_", ""), 0)))
        elif m.group("id"):
            toks.append(("id", m.group("id")))
        else:
            toks.append(("op", m.group("op")))
        i = m.end()
    return toks


class ExprParser:
    """Pratt parser for the tiny expression subset; produces nested tuples:
    ('num',n) ('path',s) ('field',e,name) ('call',e,name,[args]) ('fcall',path,[args]) ('un',op,e) ('bin',op,a,b)
    ('struct',path,[(field,expr)])"""
    PREC = {"||": 1, "&&": 2, "==": 3, "!=": 3, "<": 3, ">": 3, "<=": 3, ">=": 3, "|": 4, "^": 5, "&": 6, "<<": 7, ">>": 7,
            "+": 8, "-": 8, "*": 9, "/": 9, "%": 9}

    def __init__(self, toks):
        self.t, self.i = toks, 0

    def peek(self):
        return self.t[self.i] if self.i < len(self.t) else ("eof", None)

    def next(self):
        t = self.peek()
        self.i += 1
        return t

    def expr(self, minp=0):
        lhs = self.unary()
        while True:
            k, v = self.peek()
            if k == "id" and v == "as":
                self.next()
                ty = self.next()
                lhs = ("cast", lhs, ty[1])
                continue
            if k != "op" or v not in self.PREC or self.PREC[v] < minp:
                return lhs
            self.next()
            rhs = self.expr(self.PREC[v] + 1)
            lhs = ("bin", v, lhs, rhs)

    def unary(self):
        k, v = self.peek()
        if k == "op" and v in ("!", "-", "*", "&"):
            self.next()
            if v == "&" and self.peek() == ("id", "mut"):
                self.next()
            return ("un", v, self.unary())
        return self.postfix(self.primary())

    def args(self):
        a = []
        assert self.next() == ("op", "(")
        while self.peek() != ("op", ")"):
            a.append(self.expr())
            if self.peek() == ("op", ","):
                self.next()
        self.next()
        return a

    def postfix(self, e):
        while True:
            k, v = self.peek()
            if (k, v) == ("op", "."):
                self.next()
                nk, name = self.next()
                if nk == "num":
                    e = ("field", e, str(name))
                    continue
                if self.peek() == ("op", "("):
                    e = ("call", e, name, self.args())
                else:
                    e = ("field", e, name)
            elif (k, v) == ("op", "?"):
                self.next()
                e = ("try", e)
            elif (k, v) == ("op", "(") and e[0] == "path":
                e = ("fcall", e[1], self.args())
            else:
                return e

    def primary(self):
        k, v = self.next()
        if k == "num":
            return ("num", v)
        if k == "id":
            if self.peek() == ("op", "{") and (v[0].isupper() or v == "Self"):
                self.next()
                fields = []
                while self.peek() != ("op", "}"):
                    fk, fname = self.next()
                    if self.peek() == ("op", ":"):
                        self.next()
                        fields.append((fname, self.expr()))
                    else:
                        fields.append((fname, ("path", fname)))
                    if self.peek() == ("op", ","):
                        self.next()
                self.next()
                return ("struct", v, fields)
            return ("path", v)
        if (k, v) == ("op", "("):
            e = self.expr()
            if self.next() != ("op", ")"):
                raise ValueError("expected )")
            return ("paren", e)
        raise ValueError(f"unexpected token {k} {v}")


def parse_expr(text):
    toks = lex(text)
    if toks is None:
        return ("unknown", text)
    try:
        p = ExprParser(toks)
        e = p.expr()
        if p.i != len(toks):
            return ("unknown", text)
        return e
    except (ValueError, AssertionError, IndexError):
        return ("unknown", text)


def unparen(e):
    while isinstance(e, tuple) and e[0] == "paren":
        e = e[1]
    return e


def split_stmts(body):
    """split a fn body into top-level statements (by ';' at depth 0); the trailing expression is the last element"""
    out, depth, cur = [], 0, []
    for c in body:
        if c in "({[":
            depth += 1
        elif c in ")}]":
            depth -= 1
        if c == ";" and depth == 0:
            out.append("".join(cur).strip())
            cur = []
        else:
            cur.append(c)
    tail = "".join(cur).strip()
    return out, tail
