"""T-gen for C20: reads the three area-trigger tables and the Map enums from /repo's current sources."""
import os, re
REPO = os.environ.get("VERIF_REPO", "/repo")
NUM = r"(-?[0-9]+(?:\.[0-9]*)?(?:e-?[0-9]+)?)"
ENTRY = re.compile(r"\((\d+), \(\s*AreaTrigger::(Circle|Square) \{ position: Position::new\(Map::(\w+), " + NUM + ", " + NUM + ", " + NUM + ", " + NUM + r"\), (.*?) \},", re.S)


_MV = {}


def map_values(exp):
    if exp in _MV:
        return _MV[exp]
    _MV[exp] = _map_values(exp)
    return _MV[exp]


def _map_values(exp):
    src = open(os.path.join(REPO, f"wow_world_base/src/inner/{exp}/map.rs")).read()
    m = re.search(r"fn as_int\(&self\) -> \w+ \{\s*match self \{(.*?)\}\s*\}", src, re.S)
    return {a: int(b, 0) for a, b in re.findall(r"Self::(\w+) => (0x[0-9a-fA-F]+|\d+),", m.group(1))}


def load(exp):
    src = open(os.path.join(REPO, f"wow_world_base/src/extended/{exp}/trigger/triggers.rs")).read()
    maps = map_values(exp)
    out = []
    n_entries = len(re.findall(r"^\((\d+), \($", src, re.M))
    for m in ENTRY.finditer(src):
        tid, kind, mp, x, y, z, o, rest = m.groups()
        d = {"id": int(tid), "kind": kind.lower(), "map": maps[mp], "x": x, "y": y, "z": z}
        kv = dict(re.findall(r"(\w+): " + NUM, rest))
        if kind == "Circle":
            d["radius"] = kv["radius"]
        else:
            d.update({k: kv[k] for k in ("length", "width", "height", "yaw")})
        out.append(d)
    return out, n_entries


if __name__ == "__main__":
    for e in ("vanilla", "tbc", "wrath"):
        t, n = load(e)
        print(e, len(t), n, t[0])
