"""T-gen translator for C11: re-extracts every generated enum (from_int / as_int / variants / TryFrom bodies) from /repo's
current sources, pairs it with the wowm definition (tools/wowm.py) and emits one `enumck` obligation per type."""
import os, re, sys
sys.path.insert(0, os.path.dirname(__file__))
import wowm, rustmini as rm
from rust_flags import Corpus, DOC_RE, GEN_DIRS, REPO

INT = {"u8": (8, 0), "u16": (16, 0), "u32": (32, 0), "u64": (64, 0), "i8": (8, 1), "i16": (16, 1), "i32": (32, 1), "i64": (64, 1), "usize": (64, 0)}
ENUM_RE = re.compile(r"pub(?:\(crate\))? enum (\w+) \{\n(.*?)\n\}", re.S)


def pascal(s):
    """heck::ToPascalCase for wowm enumerator names (SCREAMING_SNAKE with digits): split on '_' and on lower->upper /
    letter<->... boundaries as heck does (digits do not start a new word)."""
    words = []
    for part in re.split(r"[_\s]+", s):
        if not part:
            continue
        # heck splits at lower->Upper and at Upper followed by Upper+lower ("ABCd" -> "AB","Cd")
        cur = part[0]
        for i in range(1, len(part)):
            c, p = part[i], part[i - 1]
            nxt = part[i + 1] if i + 1 < len(part) else ""
            if (p.islower() and c.isupper()) or (p.isupper() and c.isupper() and nxt.islower()):
                words.append(cur)
                cur = c
            else:
                cur += c
        words.append(cur)
    out = "".join(w[0].upper() + w[1:].lower() for w in words)
    if out == "Self":
        return "SelfX"
    if out == "Error":
        return "ErrorX"
    return out


def classify_conv(body, base):
    b = " ".join(body.split())
    if b == "Self::from_int(value)":
        return "direct"
    if b == "Self::from_int(value.into())":
        return "into"
    m = re.fullmatch(r"let v = (\w+)::from_le_bytes\(value\.to_le_bytes\(\)\); Self::from_int\(v\)", b)
    if m and m.group(1) == base:
        return "reinterpret"
    m = re.fullmatch(r"TryInto::<(\w+)>::try_into\(value\) \.map_err\(\|_\| crate::errors::EnumError::new\(NAME, value(?:\.into\(\)| as i128)\)\)\? \.try_into\(\)", b)
    if m and m.group(1) == base:
        return "checked"
    return "unknown"


def parse_int(s):
    s = s.strip().replace("_", "")
    return int(s, 0)


def extract(corpus=None):
    corpus = corpus or Corpus()
    items, problems = [], []
    covered = set()
    for gd in GEN_DIRS:
        for dp, dn, fn in os.walk(os.path.join(REPO, gd)):
            dn.sort()
            for f in sorted(fn):
                if not f.endswith(".rs"):
                    continue
                path = os.path.join(dp, f)
                raw = open(path, encoding="utf-8").read()
                if "fn from_int(" not in raw:
                    continue
                rel = os.path.relpath(path, REPO)
                src = rm.strip_comments(raw)
                docm = DOC_RE.search(raw)
                for em in ENUM_RE.finditer(src):
                    tyname = em.group(1)
                    inherent = {}
                    traits = {}
                    for im in rm.impls(src):
                        if im["head"] == tyname and "print-testcase" not in im["attrs"]:
                            for fnn in rm.fns(im["body"]):
                                inherent.setdefault(fnn["name"], []).append(fnn)
                        elif im["head"].endswith(" for " + tyname) and im["head"].startswith("TryFrom<"):
                            srcty = im["head"][len("TryFrom<"):].split(">")[0]
                            fl = list(rm.fns(im["body"]))
                            traits.setdefault(srcty, []).append((fl, re.search(r"type Error = ([^;]+);", im["body"])))
                    if "from_int" not in inherent:
                        continue
                    declared = [x.strip().rstrip(",") for x in em.group(2).split("\n") if x.strip() and not x.strip().startswith("#")]
                    fi = inherent["from_int"][0]
                    m = re.match(r"value: (\w+)", fi["args"])
                    base = m.group(1) if m else None
                    if base not in INT or base == "usize":
                        problems.append({"file": rel, "type": tyname, "problem": f"unreadable from_int signature {fi['args']}"})
                        continue
                    arms, wild, bad = [], False, []
                    mb = re.search(r"match value \{(.*)\}", fi["body"], re.S)
                    for line in (mb.group(1) if mb else "").split("\n"):
                        line = line.strip()
                        if not line:
                            continue
                        ma = re.fullmatch(r"(-?(?:0x[0-9a-fA-F_]+|\d+)) => Ok\(Self::(\w+)\),", line)
                        mo = re.fullmatch(r"((?:-?(?:0x[0-9a-fA-F_]+|\d+)(?:\s*\.\.=\s*-?(?:0x[0-9a-fA-F_]+|\d+))?\s*\|?\s*)+) => Ok\(Self::(\w+)\),", line)
                        if ma:
                            arms.append((parse_int(ma.group(1)), ma.group(2)))
                        elif mo:
                            # or-patterns / small ranges: expand into one arm per value (first match wins, as in Rust)
                            for alt in mo.group(1).split("|"):
                                alt = alt.strip()
                                if "..=" in alt:
                                    lo_, hi_ = [parse_int(x) for x in alt.split("..=")]
                                    if hi_ - lo_ > 4096:
                                        bad.append(line)
                                    else:
                                        arms.extend((x, mo.group(2)) for x in range(lo_, hi_ + 1))
                                elif alt:
                                    arms.append((parse_int(alt), mo.group(2)))
                        elif re.fullmatch(r"v => Err\(crate::errors::EnumError::new\(NAME, v as i128\),?\),?", line):
                            wild = True
                        else:
                            bad.append(line)
                    asint, bad2 = [], []
                    ai = inherent.get("as_int", [None])[0]
                    if ai:
                        mb = re.search(r"match self \{(.*)\}", ai["body"], re.S)
                        for line in (mb.group(1) if mb else "").split("\n"):
                            line = line.strip()
                            if not line:
                                continue
                            ma = re.fullmatch(r"Self::(\w+) => (-?(?:0x[0-9a-fA-F_]+|\d+)),", line)
                            if ma:
                                asint.append((ma.group(1), parse_int(ma.group(2))))
                            else:
                                bad2.append(line)
                    variants = []
                    vf = inherent.get("variants", [None])[0]
                    if vf:
                        variants = re.findall(r"Self::(\w+),", vf["body"])
                        mlen = re.search(r"\[Self; (\d+)\]", vf["ret"])
                        if not mlen or int(mlen.group(1)) != len(variants):
                            bad2.append("variants() length")
                    mname = re.search(r'const NAME: &str = "(\w+)";', src)
                    convs = []
                    for srcty, lst in traits.items():
                        if len(lst) != 1 or len(lst[0][0]) != 1 or srcty not in INT:
                            convs.append((srcty, "unknown"))
                            continue
                        fl, err = lst[0]
                        shape = classify_conv(fl[0]["body"], base)
                        if not err or err.group(1).strip() != "crate::errors::EnumError":
                            shape = "unknown"
                        convs.append((srcty, shape))
                    # ---- wowm side
                    cands = [o for o in (corpus.at(docm.group(1), int(docm.group(2))) if docm else []) if o["kind"] == "enum" and o["name"] == tyname]
                    if not cands:
                        problems.append({"file": rel, "type": tyname, "problem": "no wowm enum found at the documented location"})
                        continue
                    d = cands[0]
                    for c in cands:
                        covered.add((os.path.relpath(c["file"], REPO), c["line"]))
                    if any(fl_["int"] is None for fl_ in d["fields"]):
                        problems.append({"file": rel, "type": tyname, "problem": "non-integer enumerator"})
                        continue
                    # the wowm base type may carry an endianness suffix
                    wbase = d["ty"].replace("_be", "")
                    # interning
                    names = {}

                    def iid(s):
                        return names.setdefault(s, len(names))
                    wen = [(iid(pascal(fl_["name"])), fl_["int"]) for fl_ in d["fields"]]
                    wname = iid(d["name"])
                    if bad or bad2:
                        asint_t = asint + [("<unreadable>", 0)]
                    else:
                        asint_t = asint
                    usize_missing = "usize" not in traits
                    conv_t = [(INT[t], sh) for t, sh in convs if t != "usize"]
                    line = "enumck {} {} {} ; {} ; {} ; {} ; {} ; {} ; {} ; {} {} {} ; {}".format(
                        INT[base][0], INT[base][1], iid(mname.group(1)) if mname else 999999,
                        " ".join(str(iid(v)) for v in variants),
                        " ".join(str(iid(v)) for v in declared),
                        " ".join(f"{iid(n)}:{v}" for n, v in asint_t),
                        " ".join(f"{v}:{iid(n)}" for v, n in arms),
                        1 if (wild and not bad) else 0,
                        " ".join(f"{b}:{s}:{sh}" for (b, s), sh in conv_t),
                        wname, INT.get(wbase, (0, 0))[0], INT.get(wbase, (0, 0))[1],
                        " ".join(f"{n}:{v}" for n, v in wen))
                    items.append({"type": tyname, "file": rel, "line": line, "base": base, "wowm": f"{os.path.relpath(d['file'], REPO)}:{d['line']}",
                                  "values": [v for _, v in wen], "names": {v: k for k, v in names.items()},
                                  "usize_conv": dict(convs).get("usize"), "n_convs": len(convs), "unreadable": bad + bad2})
    for e in corpus.enums:
        key = (os.path.relpath(e["file"], REPO), e["line"])
        if key not in covered and wowm.is_generated(e):
            problems.append({"file": key[0], "type": e["name"], "problem": f"wowm enum at line {key[1]} has no generated Rust type with from_int"})
    return items, problems


if __name__ == "__main__":
    items, problems = extract()
    print(len(items), "enums", len(problems), "problems")
    for p in problems[:10]:
        print("PROBLEM", p)
    print(items[0]["line"])
