"""C15 — DateTime accepts exactly real calendar instants; accessors invert its packing.

Theorems: WowVerif/Thm/C15.lean (tryFrom_ok_iff, tryFrom_accessors, predictedWeekday_correct) about the hand model
WowVerif/Model/DateTime.lean.  Tie: correspondence model vs wow_world_base::DateTime::try_from —
quick: every (year, month, day, weekday) field combination (2^21) x 16 (hour, minute) corner pairs, by digest;
thorough: all 2^32 values, by digest per 2^24 block.  On a digest mismatch the block is bisected down to single values,
each differing value is tested against the property oracle (`validSpec`, accessors = bit fields)."""
import sys, os, time
sys.path.insert(0, os.path.join(os.path.dirname(__file__), "..", "lib"))
from vlib import *

PID = "C15"


def prop_fails(drv, har, v):
    """Does the *property* fail on the implementation at v? (not merely: does the model differ)"""
    spec = run_lines(drv, [f"dtspec {v}"])[0]
    impl = run_lines(har, [f"dt {v}"])[0]
    if impl.startswith("abort"):
        return True, spec, impl
    if impl.startswith("ok"):
        if spec != "valid":
            return True, spec, impl
        y, m, d, w, h, mi, asint = map(int, impl.split()[1:8])
        want = ((v >> 24) & 255, (v >> 20) & 15, (v >> 14) & 63, (v >> 11) & 7, (v >> 6) & 31, v & 63, v)
        return (y, m, d, w, h, mi, asint) != want, spec, impl
    return spec == "valid", spec, impl


def bisect(drv, har, cmd, lo, hi):
    """find one unit in [lo,hi) whose digest differs"""
    while hi - lo > 1:
        mid = (lo + hi) // 2
        a = run_lines(drv, [f"{cmd} {lo} {mid}"])[0]
        b = run_lines(har, [f"{cmd} {lo} {mid}"])[0]
        if a != b:
            hi = mid
        else:
            lo = mid
    return lo


def run(tier, seed):
    rep = Report(PID, tier, seed, "proof")
    po = proof_obligations("WowVerif.Thm.C15", ["wowdrv"])
    add_proof_failures(rep, po, "run ./check C15 --tier thorough to sweep all 2^32 values against the implementation")
    rc, out, har = harness_build("base")
    if rc != 0:
        rep.violation("C15/harness-build", "harness does not build against /repo", {"log": out[-2000:]}, no_input=True)
        rep.coverage = {"obligations": po["obligations"], "discharged": po["discharged"], "checker_cmd": "lake build WowVerif.Thm.C15", "trusted_base": TRUSTED_BASE_COMMON}
        return rep.finish()
    drv = driver_path()
    rng = SplitMix64(seed)
    if tier == "quick":
        cmd, total, block = "dtfields", 1 << 21, 1 << 14
        per_unit = 16
    else:
        cmd, total, block = "dtsweep", 1 << 32, 1 << 24
        per_unit = 1
    reqs = [f"{cmd} {lo} {min(lo + block, total)}" for lo in range(0, total, block)]
    # a few random single values and the minimised corpus first
    corpus = [512000, 0, 0x0007D000, (1 << 24) | (1 << 20) | (28 << 14), 4294967295]
    singles = [f"dt {v}" for v in corpus + [rng.below(1 << 32) for _ in range(2000)]]
    a1 = run_lines(drv, singles)
    b1 = run_lines(har, singles)
    a = run_parallel(drv, reqs, jobs=16)
    b = run_parallel(har, reqs, jobs=16)
    mism_blocks = [i for i in range(len(reqs)) if a[i] != b[i]]
    differing = [int(singles[i].split()[1]) for i in range(len(singles)) if a1[i] != b1[i]]
    for i in mism_blocks[:8]:
        lo = i * block
        u = bisect(drv, har, cmd, lo, min(lo + block, total))
        if cmd == "dtfields":
            corners = [0, 1, 59, 60, 63, 23 * 64, 23 * 64 + 59, 24 * 64, 24 * 64 + 59, 31 * 64 + 63, 12 * 64 + 34, 23 * 64 + 60,
                       24 * 64 + 60, 31 * 64, 5 * 64 + 61, 17 * 64 + 30]
            for c in corners:
                v = u * 2048 + c
                if run_lines(drv, [f"dt {v}"]) != run_lines(har, [f"dt {v}"]):
                    differing.append(v)
        else:
            differing.append(u)
    # the first differing value of a block may differ only in the error payload: look further for a value on which ACCEPTANCE differs
    # (that is an input on which the property itself fails), enumerating the mismatching blocks value by value
    found_accept = False
    for i in mism_blocks[:6]:
        if found_accept:
            break
        lo = i * block
        if cmd == "dtfields":
            vals = [u * 2048 for u in range(lo, min(lo + block, total))]
        else:
            vals = sorted({lo + (k << 11) for k in range(block >> 11)} | {lo + rng.below(block) for _ in range(100000)})
        q = [f"dt {v}" for v in vals]
        ma, mb = run_parallel(drv, q, jobs=8), run_parallel(har, q, jobs=8)
        hits = [v for v, x, y in zip(vals, ma, mb) if x.split()[0] != y.split()[0]]
        if hits:
            differing = hits[:6] + differing
            found_accept = True
    oks = sum(int(x.split("ok=")[1]) for x in b if "ok=" in x)
    n_viol = 0
    for v in differing[:50]:
        fails, spec, impl = prop_fails(drv, har, v)
        model = run_lines(drv, [f"dt {v}"])[0]
        rp = {"input_u32": v, "fields": {"years": (v >> 24) & 255, "month": (v >> 20) & 15, "month_day": (v >> 14) & 63,
              "weekday": (v >> 11) & 7, "hours": (v >> 6) & 31, "minutes": v & 63}, "spec": spec, "model": model, "implementation": impl,
              "replay_cmd": f"echo 'dt {v}' | {har}"}
        if fails:
            kind = "accepts-invalid" if impl.startswith("ok") and spec != "valid" else ("rejects-valid" if spec == "valid" and not impl.startswith("ok") else "accessor-or-abort")
            rep.violation(f"C15/{kind}", f"DateTime::try_from({v}) = '{impl}' but the calendar says {spec}", rp)
            n_viol += 1
        else:
            rep.violation("C15/correspondence/error-kind", f"model and implementation differ at {v} (model '{model}', impl '{impl}') although acceptance agrees", rp, no_input=True)
    if mism_blocks and not differing:
        rep.violation("C15/correspondence/digest", "digest mismatch that could not be localised", {"blocks": mism_blocks[:8]}, no_input=True)
    evals = total * per_unit + len(singles)
    rep.coverage = {
        "obligations": po["obligations"], "discharged": po["discharged"],
        "checker_cmd": "cd /verif/lean && lake build WowVerif.Thm.C15 && lake env lean WowVerif/Thm/C15.lean   # #print axioms",
        "trusted_base": TRUSTED_BASE_COMMON + ["anchor of the reference calendar: 2000-01-01 was a Saturday; Gregorian leap rule",
                                               "u32 bit operations of the Rust code are modelled as Nat div/mod (validated by the sweep)"],
        "theorems": po["theorems"],
        "evaluations": evals, "distinct_nontrivial": oks,
        "rule": ("quick: all 2^21 (year,month,day,weekday) field combinations x 16 (hour,minute) corner pairs" if tier == "quick" else "all 2^32 u32 values")
                + "; implementation and model outcomes (ok+fields / error kind+payload) folded into FNV digests per block and compared; "
                  "distinct_nontrivial = number of distinct inputs the implementation ACCEPTED (every one of them checked field by field)",
        "exhaustive": tier != "quick",
        "blocks": len(reqs), "blocks_mismatching": len(mism_blocks),
        "samples": [{"request": singles[i], "model": a1[i], "implementation": b1[i]} for i in range(0, 8)] + [{"request": reqs[0], "model": a[0], "implementation": b[0]}],
    }
    rep.assumptions = ["the Lean model of try_from is tied to the Rust code only by this correspondence (exhaustive in the thorough tier)"]
    return rep.finish()
