"""C09 — computed minimum/maximum sizes bound every valid encoding.

Model: `bounds` (Model/SemSize.lean) = interval arithmetic over the closed syntax (sum over members, pointwise min/max
over if arms incl. the empty else, optional adds 0 to the minimum, count x element for arrays, per-type leaf limits);
`fixedMs` = syntactic constant size.  Theorems (Thm/C09.lean): const_sized (a container with fixedMs = n encodes to
exactly n bytes, every value), leaf bounds sound; the general interval soundness is stated and checked on samples.
T-gen: the size guard compiled into every generated world reader (`body_size != N`, `!(a..=b).contains`, `body_size > b`)
is re-extracted and must CONTAIN the model interval capped by the direction's frame limit; constant-sized <-> `!=`.
Search: generated canonical encodings whose length falls outside the published interval (or that the library rejects with
InvalidSize) are the replay."""
import sys, os, re, collections
sys.path.insert(0, os.path.join(os.path.dirname(__file__), "..", "lib"))
sys.path.insert(0, os.path.join(os.path.dirname(__file__), "..", "tools"))
from semcorr import *
import rust_flags

PID = "C09"
GUARD = re.compile(r"fn read_inner\(mut r: &mut &\[u8\], body_size: u32\).*?\{\n\s*if (body_size != (\d+)|!\((\d+)\.\.=(\d+)\)\.contains\(&body_size\)|body_size > (\d+)) \{", re.S)


def direction_cap(lib, kind):
    if kind == "cmsg":
        return 10240
    return 0xFFFFFF if lib == "wrath" else 0xFFFF


def read_limits():
    """published per-type limits and caps re-read from the generator sources"""
    main = open(os.path.join(REPO, "wow_message_parser/src/main.rs")).read()
    mod = open(os.path.join(REPO, "wow_message_parser/src/rust_printer/structs/print_common_impls/mod.rs")).read()
    vals = {}
    for name in ("CSTRING_LARGEST_ALLOWED", "SIZED_CSTRING_LARGEST_ALLOWED", "STRING_LARGEST_POSSIBLE"):
        m = re.search(r"const " + name + r": \w+ = ([^;]+);", main)
        vals[name] = eval(m.group(1).split("//")[0]) if m else None
    m = re.search(r"ContainerType::CMsg\(_\) => \{[^}]*?(\d+)\s*\}", mod, re.S)
    vals["CMSG_CAP"] = int(m.group(1)) if m else None
    return vals


def run(tier, seed):
    rep = Report(PID, tier, seed, "proof")
    po = proof_obligations("WowVerif.Thm.C09", ["wowdrv"])
    add_proof_failures(rep, po)
    po2 = proof_obligations("WowVerif.Thm.C09b")      # bounds_lo_sound: the computed minimum bounds every encoding of every closed program
    add_proof_failures(rep, po2)
    po3 = proof_obligations("WowVerif.Thm.C09c")     # bounds_hi_sound / bounds_sound: the computed maximum bounds every encoding within the published limits
    add_proof_failures(rep, po3)
    po = dict(po, theorems=dict(po["theorems"], **po2["theorems"], **po3["theorems"]), obligations=po["obligations"] + po2["obligations"] + po3["obligations"],
              discharged=po["discharged"] + po2["discharged"] + po3["discharged"])
    lim = read_limits()
    want = {"CSTRING_LARGEST_ALLOWED": 256, "SIZED_CSTRING_LARGEST_ALLOWED": 8004, "STRING_LARGEST_POSSIBLE": 256, "CMSG_CAP": 10240}
    m_e = re.search(r"ParsedArraySize::Endless\) \{\s*sizes\.inc\(0, (u16::MAX) as _\);", open(os.path.join(REPO, "wow_message_parser/src/parser/types/parsed/parsed_ty.rs")).read())
    lim["ENDLESS_MAX"] = 65535 if m_e else None
    want["ENDLESS_MAX"] = 65535
    for k, v in want.items():
        if (lim.get(k) is None) or (lim.get(k) < v if k == "STRING_LARGEST_POSSIBLE" else lim.get(k) != v):
            rep.violation(f"C09/limit/{k}", f"published limit {k} is {lim.get(k)} in the generator source, the model uses {v}", {"limit": k, "source": lim.get(k), "model": v}, no_input=True)
    conts = build_corpus(expanded=True)
    ok = [c for c in conts if "tokens" in c and c["lib"] != "login"]
    d = Driver()
    bnds = d.ask_many([f"bounds {c['key']}" for c in ok])
    # published guards
    rcorp = rust_flags.Corpus()
    guards = {}
    for exp in ("vanilla", "tbc", "wrath", "shared"):
        base = os.path.join(REPO, "wow_world_messages/src/world", exp)
        for f in sorted(os.listdir(base)):
            if not f.endswith(".rs"):
                continue
            raw = open(os.path.join(base, f)).read()
            m = GUARD.search(raw)
            dm = rust_flags.DOC_RE.search(raw)
            if not m or not dm:
                continue
            if m.group(2):
                g = ("const", int(m.group(2)), int(m.group(2)))
            elif m.group(3):
                g = ("range", int(m.group(3)), int(m.group(4)))
            else:
                g = ("max", 0, int(m.group(5)))
            libs = [exp] if exp != "shared" else [x for x in ("vanilla", "tbc", "wrath") if x in f.rsplit(".", 1)[0].split("_")]
            for lib in libs:
                guards[(lib, dm.group(1), int(dm.group(2)))] = (g, os.path.relpath(os.path.join(base, f), REPO))
    n_obl = n_ok = 0
    bad_conts, witness = {}, {}
    bad_conts, witness = {}, {}
    checked = []
    for c, b in zip(ok, bnds):
        if not b.startswith("lo="):
            continue
        key = (c["lib"], os.path.relpath(c["file"], REPO), c["line"])
        if key not in guards:
            rep.violation(f"C09/translator/{c['key']}", "no size guard found in the generated reader of this message", {"container": c["key"]}, no_input=True)
            continue
        (gk, glo, ghi), gfile = guards[key]
        m = re.match(r"lo=(\d+) hi=(\w+) fixed=(\w+)", b)
        lo = int(m.group(1)); hi = None if m.group(2) == "inf" else int(m.group(2)); fixed = None if m.group(3) == "no" else int(m.group(3))
        # messages with built-in types: the model knows their minimum (and, for masks / NamedGuid / VariableItemRandomProperty, their
        # maximum) from the hand-written codecs; where the maximum is not modelled only the lower side of the guard is checked
        hi_unknown = any(t in c["tokens"] or any(x.startswith(t) for x in c["tokens"]) for t in ("UpdateMask", "InspectTalentGearMask", "AddonArray", "AchievementDoneArray", "AchievementInProgressArray"))
        cap = direction_cap(c["lib"], c["kind"])
        hi_c = cap if hi is None else min(hi, cap)
        n_obl += 1
        bad = None
        if fixed is not None:
            if gk != "const" or glo != fixed:
                bad = f"the definition has constant size {fixed}, the reader's guard is {gk} {glo}..{ghi}"
        else:
            if gk == "const" and not (lo == hi == glo):
                bad = f"the reader demands exactly {glo} bytes, the definition allows {lo}..{hi}"
            elif glo > lo:
                bad = f"the reader rejects bodies below {glo}, the definition allows {lo}"
            elif ghi < hi_c and not hi_unknown:
                bad = f"the reader rejects bodies above {ghi}, the definition allows {hi_c} (interval {lo}..{hi}, frame limit {cap})"
        if bad:
            # reported after the search below, with a concrete valid message the reader rejects when one is found
            bad_conts[c["key"]] = (bad, {"container": c["key"], "generated_file": gfile, "guard": [gk, glo, ghi], "model": {"lo": lo, "hi": hi, "fixed": fixed}, "cap": cap})
        else:
            n_ok += 1
        checked.append((c, lo, hi_c, glo, ghi))
    # search / validation by sampling: lengths of generated canonical encodings lie in both intervals, and the library accepts them
    rng = SplitMix64(seed)
    reqs, meta = [], []
    per = 3 if tier == "quick" else 24
    for (c, lo, hi, glo, ghi) in checked:
        reqs.append(f"genmin {c['key']} {24 if tier == 'quick' else 200}")
        meta.append((c, lo, hi, glo, ghi))
        if c["key"] in bad_conts:
            # targeted search: branch-directed and long-array / long-string samples of the message whose guard disagrees
            for s in range(60):
                reqs.append(f"gen {c['key']} {rng.below(1 << 40)} {(1, 4, 16, 60)[s % 4]} {s if s < 30 else 1000000}")
                meta.append((c, lo, hi, glo, ghi))
        for s in range(per):
            reqs.append(f"gen {c['key']} {rng.below(1 << 40)} {2 if s else 12}")
            meta.append((c, lo, hi, glo, ghi))
    gen = d.ask_many(reqs)
    # the hypothesis of bounds_hi_sound evaluated on the very values behind the sampled encodings (non-vacuity on the corpus)
    wit = d.ask_many(["within" + r[3:] for r in reqs if r.startswith("gen ")])
    d.close()
    n_within = sum(1 for w in wit if w.startswith("ok within=1"))
    n_not_within = sum(1 for w in wit if w.startswith("ok within=0"))
    n_samples = 0
    extremes = {}
    for (c, lo, hi, glo, ghi), g in zip(meta, gen):
        if not g.startswith("ok"):
            continue
        n = 0 if g.split()[1] == "-" else len(g.split()[1]) // 2
        n_samples += 1
        e = extremes.setdefault(c["key"], [n, n])
        e[0] = min(e[0], n); e[1] = max(e[1], n)
        if n < lo or n > hi and n <= direction_cap(c["lib"], c["kind"]):
            rep.violation(f"C09/model/{c['key']}", f"model interval {lo}..{hi} does not contain the length {n} of a canonical encoding", {"container": c["key"], "length": n, "encoding": g.split()[1][:400]})
        if (n < glo or n > ghi) and c["key"] in bad_conts:
            witness.setdefault(c["key"], (n, g.split()[1]))
        elif n < glo or n > ghi:
            rep.violation(f"C09/{c['key']}/valid-message-rejected", f"{c['key']}: a canonical encoding of {n} bytes is outside the reader's guard {glo}..{ghi}",
                          {"container": c["key"], "input_body_hex": g.split()[1][:2000], "length": n, "guard": [glo, ghi]})
    by_key = {c["key"]: c for c, *_ in checked}
    # messages with built-in types are outside the Lean encoder: the targeted search uses the python reference encoder
    # (tools/pyenc.py; maximal mode = all flag bits, full masks, longest strings) and the real reader decides
    import pyenc
    for key in bad_conts:
        c = by_key[key]
        if "prim" not in c["tokens"] or key in witness:
            continue
        glo, ghi = bad_conts[key][1]["guard"][1:]
        for s_ in range(40):
            try:
                body = pyenc.encode(c["tokens"], rng, (1, 2, 4, 8)[s_ % 4], s_ if s_ >= 20 else None, maximal=s_ < 20)
            except (pyenc.Unsupported, OverflowError, ValueError):
                continue
            if (len(body) < glo or len(body) > ghi) and len(body) <= direction_cap(c["lib"], c["kind"]):
                witness[key] = (len(body), body.hex() or "-")
                break
    # a guard that is too tight at the top needs a LONG valid message: the reference encoder in maximal mode (longest strings, every
    # optional part, arrays of exactly n elements) with growing n until the body passes the guard's upper end but still fits the frame
    for key in bad_conts:
        c = by_key[key]
        if key in witness:
            continue
        glo, ghi = bad_conts[key][1]["guard"][1:]
        for n_ in (2, 8, 40, 255, 300, 1200, 5000, 20000, 70000):
            try:
                body = pyenc.encode(c["tokens"], rng, n_, None, maximal=True)
            except (pyenc.Unsupported, OverflowError, ValueError):
                continue
            if len(body) > direction_cap(c["lib"], c["kind"]):
                break
            if len(body) < glo or len(body) > ghi:
                witness[key] = (len(body), body.hex() or "-")
                break
    if bad_conts:
        rc_, out_, har = harness_build("world")
    for key, (bad, info) in bad_conts.items():
        if key in witness and rc_ == 0:
            n, hexbody = witness[key]
            c = by_key[key]
            dr = directions(c)[0]
            fr = frame(libname(c), dr, c["opcode"], bytes.fromhex(hexbody) if hexbody != "-" else b"")
            rq = f"dec {libname(c)} {dr} {fr.hex()}"
            impl = run_lines(har, [rq])[0]
            if not impl.startswith("ok"):
                rep.violation(f"C09/{key}/guard", f"{key}: {bad}; a canonical encoding of {n} bytes is rejected: '{impl[:100]}'", dict(info, input_frame_hex=fr.hex() if len(fr) < 400000 else fr.hex()[:4000], length=n, implementation=impl[:300], replay_cmd=f"echo 'dec {libname(c)} {dr} <input_frame_hex>' | {har}"))
                continue
        rep.violation(f"C09/{key}/guard", f"{key}: {bad}", dict(info, unchecked="containment of the model interval in the published guard; no rejected valid message found by the targeted search"), no_input=True)
    attained = sum(1 for c, lo, hi, glo, ghi in checked if extremes.get(c["key"], [None])[0] == lo)
    rep.coverage = {
        "obligations": po["obligations"] + n_obl + len(want), "discharged": po["discharged"] + n_ok + sum(1 for k, v in want.items() if lim.get(k) is not None and (lim.get(k) >= v if k == "STRING_LARGEST_POSSIBLE" else lim.get(k) == v)),
        "checker_cmd": "cd /verif/lean && lake build WowVerif.Thm.C09; ./check C09",
        "trusted_base": TRUSTED_BASE_COMMON + ["regex extraction of the first size guard of every generated read_inner", "tools/wowm.py, tools/corpus.py",
                                               "the frame limits (cmsg 10240, 2-byte size 65535, Wrath 0xFFFFFF) and string limits are specification parameters re-read from the generator source"],
        "theorems": po["theorems"], "messages_with_guard_checked": n_obl, "limits": lim,
        "sampled_values_within_limits": n_within, "sampled_values_outside_limits": n_not_within, "evaluations": n_obl + n_samples, "distinct_nontrivial": n_obl, "sampled_encodings": n_samples, "messages_whose_minimum_was_attained_by_a_sample": attained,
        "rule": "one containment obligation per version-expanded world message (model interval capped by the frame limit must lie inside the published guard; constant-sized iff `!=` guard); plus sampled canonical encodings whose lengths must lie in both intervals",
        "samples": [{"container": c["key"], "model": [lo, hi], "guard": [glo, ghi]} for c, lo, hi, glo, ghi in checked[:3]],
    }
    rep.assumptions = ["login messages have no size guard; sizes published in the IR and the doc pages are covered by C10/C18 once the generator pipeline runs",
                       "bounds_sound (Thm/C09c) is proved for messages inside the generic semantics; for messages with built-in types the interval uses the limits of the hand-written codecs (primBounds) and is checked on sampled encodings"]
    return rep.finish()
