"""C07 — the generator compiles any valid wowm program to a codec implementing it.

Theorems (WowVerif/Thm/C07.lean over Thm/C01, Thm/C03): for EVERY well-formed closed program — not only the shipped corpus —
every canonical encoding decodes to the value it encodes and re-encodes byte-identically (program_roundtrip,
program_reencode); well-formedness is decidable.  That is the oracle for programs nobody has written yet.
Tie: random well-formed programs (tools/proggen.py: enums / flags with if / else-if / else over ==, !=, &, ||, nested one
level, structs, fixed / counted / endless arrays, optional tails, strings, constants, upcasts, built-in scalar types) are
written into a scratch copy of /repo, the CURRENT generator is run on it (must accept), the library it emits is compiled
(must build) together with the line-protocol harness, and for every new message branch-directed, enumerator-sweeping and
random canonical encodings produced by the Lean semantics from an independent reading of the same text are fed to the
emitted reader and writer: accepted, consumed exactly, written back byte-identically (the writers assert the declared size)."""
import sys, os, re, shutil, collections
sys.path.insert(0, os.path.join(os.path.dirname(__file__), "..", "lib"))
sys.path.insert(0, os.path.join(os.path.dirname(__file__), "..", "tools"))
sys.path.insert(0, os.path.dirname(__file__))
from semcorr import *
import wowm, proggen, genrun

PID = "C07"
# feature combinations with a recorded known finding: not generated in the main batch (they would mask everything else behind one compile error)
AVOID = ("if+optional", "or-arm+nested-if", "else-arm+nested-if", "flag-arm+nested-if", "flag-else-if", "if+endless", "else-arm+const", "or-arm+const-or-array", "nested-if", "arm+const", "arm+array")
KEYWORDS = {"SUPER", "CONST", "WHERE", "WHILE", "ASYNC", "AWAIT", "BREAK", "CRATE", "FALSE", "MATCH", "TRAIT", "UNION", "YIELD", "MACRO", "FINAL"}


DEFS = """enum VeProbeZq : u8 {
    AAA = 0;
    BBB = 1;
    CCC = 2;
} {
    versions = "1.12";
}
flag VfProbeZq : u8 {
    NONE = 0x0;
    XXX = 0x1;
    YYY = 0x2;
} {
    versions = "1.12";
}
"""


def _p(name, op, body, defs=True):
    return (DEFS if defs else "") + f"smsg SMSG_VERIF_{name} = 0x{op:04X} {{\n{body}}} {{\n    versions = \"1.12\";\n}}\n"


PROBES = [
    ("C07/endless-array-after-if/current_size", _p("PROBEENDLESS", 0x0CF0, "    VeProbeZq zqprobea;\n    if (zqprobea == AAA) {\n        u8 zqprobeb;\n    }\n    Guid[-] zqprobec;\n")),
    ("C07/declared-size/flag-else-if-chain", _p("PROBEFLAGELSEIF", 0x0CF1, "    VfProbeZq zqprobed;\n    if (zqprobed & XXX) {\n        Bool32 zqprobee;\n        u8 zqprobef;\n    }\n    else if (zqprobed & YYY) {\n        u8 zqprobeg;\n    }\n")),
    ("C07/or-arm/constant-emitted-per-enumerator", _p("PROBEORCONST", 0x0CF2, "    VeProbeZq zqprobeh;\n    if (zqprobeh == AAA || zqprobeh == BBB) {\n        u16 zqprobei = 194;\n    }\n    else {\n        u32 zqprobej;\n    }\n    u32 zqprobek;\n")),
    ("C07/arm/constant-not-consumed", _p("PROBEARMCONST", 0x0CF3, "    VeProbeZq zqprobel;\n    if (zqprobel == AAA) {\n        u8 zqprobem = 185;\n    }\n    else {\n        f32 zqproben;\n    }\n    Guid zqprobeo;\n    VfProbeZq zqprobep;\n    if (zqprobep & XXX) {\n        u32 zqprobeq;\n    }\n")),
    ("C07/emitted-code-does-not-compile/if-and-optional", _p("PROBEIFOPT", 0x0CF4, "    VeProbeZq zqprober;\n    if (zqprober == AAA) {\n        u8 zqprobes;\n    }\n    optional zqprobet {\n        u8 zqprobeu;\n    }\n")),
    ("C07/emitted-code-does-not-compile/nested-if", _p("PROBENESTED", 0x0CF5, "    VeProbeZq zqprobev;\n    if (zqprobev == AAA) {\n        u8 zqprobew;\n    }\n    else if (zqprobev == BBB) {\n        VfProbeZq zqprobex;\n        if (zqprobex & XXX) {\n            u16 zqprobey;\n        }\n        else if (zqprobex & YYY) {\n            Gold zqprobez;\n        }\n    }\n")),
    ("C07/emitted-code-does-not-compile/array-in-arm", _p("PROBEARRAYARM", 0x0CF6, "    VeProbeZq zqprobaa;\n    if (zqprobaa == AAA || zqprobaa == BBB) {\n        u16 zqprobab;\n    }\n    else if (zqprobaa == CCC) {\n        Guid[4] zqprobac;\n    }\n    else {\n        f32 zqprobad;\n    }\n")),
]



def pipeline(rep, cov, tier, seed, rng, text, msgs, label, probe_key=None):
    """one generator run + one build + the codec comparison for the programs in `text`.  With `probe_key` (thorough tier, known
    findings): every failure of this batch is reported under that key."""
    nprog = len(msgs)
    objs = []
    replay_dir = os.path.join(EVID, "replay")
    os.makedirs(replay_dir, exist_ok=True)
    prog_path = os.path.join(replay_dir, f"C07_programs_{seed}_{tier}_{label}.wowm")
    open(prog_path, "w").write(text)
    with genrun.GenScratch(target=os.path.join(CACHE, "gen-target-c07")) as g:
        S = genrun.SCRATCH
        wfile = os.path.join(S, "wow_message_parser/wowm/world/zz_verif_c07.wowm")
        open(wfile, "w").write(text)
        # the project keeps an index of known message names per expansion (a message that is not listed is refused with status 18):
        # register the new messages there, as a maintainer adding a message does
        idx = os.path.join(S, "wow_message_parser/src/parser/stats/vanilla_messages.rs")
        it = open(idx).read()
        k = it.rindex("];")
        open(idx, "w").write(it[:k] + "".join(f'    Data::new("{n}", 0x{op:03X}),\n' for n, kd, op in msgs) + it[k:])
        rcg, outg, _ = g.build()
        if rcg != 0:
            rep.violation("C07/generator-build", "the generator does not build with the message index extended", {"log": outg[-2000:]}, no_input=True)
            cov.setdefault("evaluations", 1); cov.setdefault("distinct_nontrivial", 1)
            return False
        rc, out, secs = g.run()
        cov["generator_status"] = rc
        if rc != 0:
            # find the smallest prefix of programs the generator rejects (replay = that program)
            culprit = None
            chunks = text.split("\n\n")
            for k in range(len(msgs)):
                t2, m2 = proggen.generate(SplitMix64(seed), k + 1) if False else (None, None)
            rep.violation(probe_key or f"C07/generator-rejects/status-{rc}", f"the generator exits with status {rc} on {nprog} random well-formed programs: {out.strip().splitlines()[-1][:200] if out.strip() else ''}",
                          {"programs": prog_path, "status": rc, "log": out[-2500:], "replay_cmd": f"copy {prog_path} to wow_message_parser/wowm/world/ in a scratch copy of the tree and run the generator"})
            cov.setdefault("evaluations", 1); cov.setdefault("distinct_nontrivial", 1)
            return False
        # spec side: read the scratch wowm tree independently
        objs = wowm.load_tree(os.path.join(S, "wow_message_parser/wowm"))
        r = corpus_mod.Resolver(objs)
        mine = [c for c in r.containers() if c["name"].startswith(("SMSG_VERIF_", "CMSG_VERIF_")) and c["lib"] == "vanilla"]
        bad_spec = [c for c in mine if "tokens" not in c]
        for c in bad_spec:
            rep.violation(f"C07/spec/{c['name']}", f"the independent front end cannot translate generated program {c['name']}: {c.get('unsupported')}", {"program": c["name"], "problem": c.get("unsupported"), "programs": prog_path}, no_input=True)
        with open(CORPUS_PATH + ".c07", "w") as f:
            for c in mine:
                if "tokens" in c:
                    f.write(f"container {c['key']} {c['opcode']} {' '.join(c['tokens'])}\n")
        # static, all values at once: the reader and the writer the generator has just emitted for every new message, translated into the
        # closed syntax (tools/rust_codec.py), must be the normal form of the program's definition (progeq; Thm/C01c, C01d)
        import readertie
        try:
            tie_pairs = readertie.compute(repo=S, only=lambda n_: n_.startswith(("SMSG_VERIF_", "CMSG_VERIF_")))
        except Exception as ex:
            tie_pairs = []
            rep.violation("C07/codec-tie/translator", f"the codec translator fails on the emitted tree: {ex}", {"programs": prog_path}, no_input=True)
        n_tie_same = 0
        for p in tie_pairs:
            if p["ctx"] != "vanilla":
                continue
            dcl = p.get("declared")
            if dcl and dcl["status"] != "same" and p["side"] == "writer":
                rep.violation(f"C07/declared-size-const/{p['name']}", f"{p['name']}: the emitted size_without_header is `{dcl.get('rust')}` but the program's constant size is {dcl.get('model_fixed', dcl.get('model'))}",
                              {"program": text[text.find(p["name"]):][:600], "declared": dcl, "input": "every value of the message"}, no_input=False)
            if p["status"] == "same":
                n_tie_same += 1
                continue
            if p["status"] == "outside":
                continue          # size() of a program with conditional members: not compared term by term (the emitted codec is run on its values below)
            ptxt = text[text.find(p["name"]):]
            ptxt = ptxt[:ptxt.find("versions")]
            tie_key = f"C07/codec-tie/{p['side']}/{p['name']}"
            if "current_size of the endless array is a static sum" in (p.get("detail") or ""):
                tie_key = "C07/endless-array-after-if/current_size"
            rep.violation(probe_key or tie_key, f"generated program {p['name']}: the emitted {p['side']} is not the {'decoder' if p['side'] == 'reader' else 'size function' if p['side'] == 'size' else 'encoder'} of the definition ({p['status']}): {p.get('detail', '')[:300]}",
                          {"program": p["name"], "programs": prog_path, "definition": ptxt[:1500], "side": p["side"], "status": p["status"], "difference": p.get("detail"), "emitted_file": p.get("rust_file"),
                           "theorem": "writer_encodes_as_spec / readerE_decodes_as_spec via progeq; size_matches_sound via sizeeq"}, no_input=True)
        cov["emitted_codecs_equal_to_normal_form"] = n_tie_same
        cov["emitted_codecs_compared"] = sum(1 for p in tie_pairs if p["ctx"] == "vanilla")
        # build the emitted library + harness (reduced configuration: vanilla, blocking) against the scratch tree
        hdir = os.path.join(genrun.SCRATCH_ROOT, "harness_world")
        shutil.copytree(os.path.join(VERIF, "harness", "world"), hdir, ignore=shutil.ignore_patterns("target"))
        ct = open(os.path.join(hdir, "Cargo.toml")).read().replace('path = "/repo/', f'path = "{S}/')
        open(os.path.join(hdir, "Cargo.toml"), "w").write(ct)
        env = env_offline()
        env["CARGO_TARGET_DIR"] = os.path.join(CACHE, "target-c07")
        rcb, outb = sh(["cargo", "build", "--offline", "--no-default-features", "--features", "vanilla"], cwd=hdir, timeout=7200, env=env)
        cov["build_status"] = rcb
        if rcb != 0:
            errs = [l for l in outb.split("\n") if l.startswith("error")][:6]
            rep.violation(probe_key or "C07/emitted-code-does-not-compile", f"the Rust code emitted for {nprog} random well-formed programs does not compile: {errs[:2]}",
                          {"programs": prog_path, "errors": errs, "log": outb[-3000:], "replay_cmd": f"copy {prog_path} to wow_message_parser/wowm/world/, run the generator, cargo build -p wow_world_messages --features vanilla,sync"})
            cov.setdefault("evaluations", 2); cov.setdefault("distinct_nontrivial", 2)
            return False
        har = os.path.join(CACHE, "target-c07", "debug", "vh_world")
        d = Driver()
        d.ask(f"load {CORPUS_PATH}.c07")
        reqs, meta = [], []
        per_random = 6 if tier == "quick" else 30
        for c in mine:
            if "tokens" not in c:
                continue
            toks = c["tokens"]
            ncond = sum(1 for t in toks if t in ("eq", "ne", "and"))
            nenum = max([int(toks[i + 3]) for i in range(len(toks) - 3) if toks[i] == "enum" and toks[i + 3].isdigit()] + [0])
            samples = list(range(min(2 * (ncond + 2), 40))) + [500000 + k for k in range(nenum)] + [1000000] * per_random
            for k, smp in enumerate(samples):
                reqs.append(f"gen {c['key']} {rng.below(1 << 40)} {(2, 4, 0, 1, 7)[k % 5]} {smp}")
                meta.append(c)
        gen = d.ask_many(reqs)
        # the size guard the generator compiled into each new reader against the interval the Lean model computes (C09's obligation,
        # here for programs nobody has written): a valid encoding must never fall outside the guard
        import c09
        keys = [c for c in mine if "tokens" in c]
        bnds = d.ask_many([f"bounds {c['key']}" for c in keys])
        n_guard = 0
        for c, bd in zip(keys, bnds):
            fpath = os.path.join(S, "wow_world_messages/src/world/vanilla", c["name"].lower() + ".rs")
            mb = re.match(r"lo=(\d+) hi=(\w+) fixed=(\w+)", bd)
            if not os.path.exists(fpath) or not mb:
                continue
            mg = c09.GUARD.search(open(fpath).read())
            if not mg:
                continue
            n_guard += 1
            lo = int(mb.group(1))
            hi = None if mb.group(2) == "inf" else int(mb.group(2))
            cap = c09.direction_cap("vanilla", c["kind"])
            hi_c = cap if hi is None else min(hi, cap)
            if mg.group(2):
                glo = ghi = int(mg.group(2))
            elif mg.group(3):
                glo, ghi = int(mg.group(3)), int(mg.group(4))
            else:
                glo, ghi = 0, int(mg.group(5))
            if glo > lo or ghi < hi_c:
                ptxt = text[text.find(c["name"]):]
                ptxt = ptxt[:ptxt.find("versions")]
                rep.violation(probe_key or f"C07/size-guard/{c['name']}", f"generated program {c['name']}: the emitted reader only accepts bodies of {glo}..={ghi} bytes, the definition allows {lo}..{hi_c}",
                              {"program": c["name"], "programs": prog_path, "definition": ptxt[:1500], "guard": [glo, ghi], "model": [lo, hi], "emitted_file": fpath.replace(S + "/", "")}, no_input=True)
        cov["size_guards_compared"] = n_guard
        d.close()
        hreq, hmeta = [], []
        seen = set()
        genfail = collections.Counter()
        for c, gq, g in zip(meta, reqs, gen):
            if not g.startswith("ok"):
                genfail[g.split()[0]] += 1
                continue
            body = bytes.fromhex(g.split()[1]) if g.split()[1] != "-" else b""
            dr = directions(c)[0]
            fr = frame("vanilla", dr, c["opcode"], body)
            if len(fr) > 60000 or (c["key"], fr) in seen:
                continue
            seen.add((c["key"], fr))
            hreq.append(f"codec vanilla {dr} {fr.hex()}")
            hmeta.append((c, dr, fr))
        ho = run_parallel(har, hreq, jobs=12)
        n_ok = 0
        per_msg = collections.Counter()
        for (c, dr, fr), rq, h in zip(hmeta, hreq, ho):
            if h.startswith("ok") and h.split()[1] == fr.hex() and f"consumed={len(fr)} " in h + " ":
                n_ok += 1
                per_msg[c["name"]] += 1
                continue
            src = next((o for o in objs if o["kind"] != "test" and o["name"] == c["name"]), None)
            ptxt = text[text.find(c["name"]):]
            ptxt = ptxt[:ptxt.find("versions")]
            key = f"C07/codec/{c['name']}"
            # the two generator defects recorded under C01 show up on random programs as well: same mechanism, same key for every program
            if "buffer" in h and re.search(r"\n    \}\n(?:    [^\n]*\n)*?    \w+\[-\]", ptxt) and "if (" in ptxt:
                key = "C07/endless-array-after-if/current_size"
            elif "write-panic" in h and "assertion" in h and re.search(r"else if \(\w+ & ", ptxt):
                key = "C07/declared-size/flag-else-if-chain"
            rep.violation(probe_key or key, f"generated program {c['name']} ({dr}): a canonical encoding of the definition is not read and written back unchanged by the emitted codec: {h[:160]}",
                          {"program": c["name"], "programs": prog_path, "direction": dr, "input_frame_hex": fr.hex()[:8000], "implementation": h[:400], "expected": f"ok {fr.hex()[:80]}... consumed={len(fr)}",
                           "replay_cmd": f"copy {prog_path} to wow_message_parser/wowm/world/ in a scratch copy, run the generator, build /verif/harness/world against it (--no-default-features --features vanilla), then: echo '{rq[:6000]}' | vh_world"})
        cov.update({"messages_generated": len(msgs), "messages_translated": len(mine) - len(bad_spec), "messages_exercised": len(per_msg), "frames": len(hreq), "frames_ok": n_ok, "generator_failures_of_spec_side": dict(genfail),
                    "evaluations": len(hreq) + 2, "distinct_nontrivial": len(seen) + 2,
                    "rule": f"{nprog} random programs (one message each, with its definers and structs) in one generator run + one build; per message branch-directed, enumerator-sweep and random canonical encodings",
                    "samples": [{"request": hreq[i][:120], "implementation": ho[i][:120]} for i in (0, len(hreq) // 2, len(hreq) - 1)] if hreq else []})
    return True


def run(tier, seed):
    rep = Report(PID, tier, seed, "proof")
    po = proof_obligations("WowVerif.Thm.C07", ["wowdrv"])
    add_proof_failures(rep, po)
    po_b = proof_obligations("WowVerif.Thm.C07b")      # size_fn_sound / size_matches_sound: the declared size as a function of the value
    add_proof_failures(rep, po_b)
    po = dict(po, theorems=dict(po["theorems"], **po_b["theorems"]), obligations=po["obligations"] + po_b["obligations"], discharged=po["discharged"] + po_b["discharged"])
    rng = SplitMix64(seed)
    nprog = 24 if tier == "quick" else 160
    while True:
        text, msgs = proggen.generate(rng, nprog, avoid=AVOID)
        stext, smsgs = proggen.systematic(rng, nprog)
        text, msgs = text + "\n" + stext, msgs + smsgs
        if not (set(re.findall(r"\b[A-Z]{4,5}\b", text)) & KEYWORDS):
            break
    cov = {"evaluations": 0, "distinct_nontrivial": 0, "obligations": po["obligations"], "discharged": po["discharged"], "theorems": po["theorems"],
           "checker_cmd": "cd /verif/lean && lake build WowVerif.Thm.C07 && lake env lean WowVerif/Thm/C07.lean",
           "trusted_base": TRUSTED_BASE_COMMON + ["tools/proggen.py generates only programs of the supported subset (a rejection by the generator is examined, not assumed wrong)", "tools/wowm.py + tools/corpus.py read the generated text independently of wow_message_parser", "rustc as the judge of `compiles`"],
           "programs": nprog, "program_text_bytes": len(text)}
    pipeline(rep, cov, tier, seed, rng, text, msgs, "main")
    if tier != "quick":
        # targeted probes, one per recorded known finding: the finding is re-demonstrated (KNOWN-FINDING line) while it exists
        for key, ptext in PROBES:
            pm = [(m.group(2), m.group(1), int(m.group(3), 16)) for m in re.finditer(r"^(smsg|cmsg) (\w+) = (0x[0-9A-F]+)", ptext, re.M)]
            pcov = {}
            pipeline(rep, pcov, tier, seed, rng, ptext, pm, "probe-" + key.split("/")[-1], probe_key=key)
            cov.setdefault("probes", {})[key] = {k: pcov.get(k) for k in ("generator_status", "build_status", "frames", "frames_ok")}
    rep.coverage = cov
    rep.assumptions = ["the supported subset of tools/proggen.py: Vanilla world messages; nested conditionals one level deep; no compressed members, no built-in mask / spline types, no login messages",
                       "only the blocking codec of the emitted library is exercised (async copies share their text, C06)"]
    return rep.finish()
