"""C06 — blocking, tokio and async-std variants agree under every stream chunking.

Theorems (WowVerif/Thm/C06.lean): readers are `read_exact` scripts (`Dec`); `chunk_invariant` — for EVERY script, EVERY
partition of the input into delivery chunks and EVERY placement of Pending the chunked run equals the blocking run on the
concatenation (value, remaining bytes, or the same error); `schedules_agree`, `eof_kind`; `frameDec_refines` /
`frame_chunked` — the world header/body readers written as scripts equal the frame reader model of C02 on whole buffers,
hence under every schedule.
Tie: (a) T-gen (tools/async_copies.py): every X / tokio_X / astd_X triple of /repo's current sources (login read_inner,
read, write, opcode-enum readers/writers of both crates, expect_* helpers, collective traits) normalises to the SAME token
stream, i.e. the three copies denote one script; the async primitive readers equal the blocking ones up to the recorded
`read_u32_le == read_exact(4)+from_le_bytes` equivalence.  (b) T-corr: scripted AsyncRead / AsyncWrite transports (one per
runtime trait) deliver a schedule (chunks + Pending) to tokio_read / astd_read, the blocking reader gets the concatenation;
the three outcomes (Debug of the message, bytes written by the runtime's writer under a partial-write schedule, consumed
count, error kind) must coincide and, for world frames, coincide with the model's `runChunked (frameDec ..)` run on the same
schedule, for login messages with the specification decoder on the concatenation.
Schedules: all 2^(n-1) partitions for frames up to 10 (thorough: 12) bytes, each with no / all / random Pending; otherwise
whole, single-byte delivery, every single split point, random partitions; truncation at every boundary."""
import sys, os, re, collections
sys.path.insert(0, os.path.join(os.path.dirname(__file__), "..", "lib"))
sys.path.insert(0, os.path.join(os.path.dirname(__file__), "..", "tools"))
from semcorr import *
import async_copies, wowm
sys.path.insert(0, os.path.dirname(__file__))
from c03 import test_vectors

PID = "C06"


def partitions_all(n):
    """all compositions of n as lists of chunk lengths"""
    for mask in range(1 << (n - 1)) if n > 0 else []:
        cuts, last = [], 0
        for i in range(n - 1):
            if mask >> i & 1:
                cuts.append(i + 1 - last)
                last = i + 1
        cuts.append(n - last)
        yield cuts


def sched_str(data, lens, pend):
    """lens: chunk lengths summing to <= len(data) (shorter = truncated stream); pend: set of chunk indices preceded by Pending
    (index len(lens) = Pending before end-of-stream)"""
    out, pos = [], 0
    for i, l in enumerate(lens):
        for _ in range(pend.get(i, 0)):
            out.append("p")
        out.append(data[pos:pos + l].hex())
        pos += l
    for _ in range(pend.get(len(lens), 0)):
        out.append("p")
    return ",".join(out) if out else "-"


def schedules(data, rng, tier):
    """yield (kind, schedule string) for one frame"""
    n = len(data)
    small = 10 if tier == "quick" else 12
    if n == 0:
        yield "empty", "-"
        return
    if n <= small:
        for lens in partitions_all(n):
            yield "exhaustive", sched_str(data, lens, {})
            yield "exhaustive+pending-everywhere", sched_str(data, lens, {i: 1 for i in range(len(lens) + 1)})
            yield "exhaustive+pending-random", sched_str(data, lens, {i: rng.below(3) for i in range(len(lens) + 1)})
    else:
        yield "whole", sched_str(data, [n], {})
        yield "whole+pending", sched_str(data, [n], {0: 2, 1: 1})
        yield "single-byte", sched_str(data, [1] * n, {})
        yield "single-byte+pending", sched_str(data, [1] * n, {i: 1 for i in range(n + 1)})
        splits = range(1, n) if n <= (64 if tier == "quick" else 400) else sorted({1 + rng.below(n - 1) for _ in range(48)})
        for c in splits:
            yield "one-split", sched_str(data, [c, n - c], {1: rng.below(2)})
        for _ in range(6 if tier == "quick" else 60):
            lens, left = [], n
            while left:
                k = 1 + rng.below(min(left, 1 + rng.below(9)))
                lens.append(k)
                left -= k
            yield "random-partition", sched_str(data, lens, {i: (rng.below(3) if rng.below(3) == 0 else 0) for i in range(len(lens) + 1)})
    # truncated streams: end-of-stream after every proper prefix (quick: sampled for long frames)
    cuts = range(0, n) if n <= (24 if tier == "quick" else 200) else sorted({rng.below(n) for _ in range(16)} | {0, 1, n - 1})
    for c in cuts:
        if c == 0:
            yield "truncated", "p"
        else:
            k = 1 + rng.below(c)
            yield "truncated", sched_str(data, [k, c - k] if c - k else [k], {rng.below(3): 1})


def run(tier, seed):
    rep = Report(PID, tier, seed, "proof")
    po = proof_obligations("WowVerif.Thm.C06", ["wowdrv"])
    add_proof_failures(rep, po)
    po_b = proof_obligations("WowVerif.Thm.C06b")       # the script compiled from a definition is its decoder: script_decodes, definition_chunk_invariant
    add_proof_failures(rep, po_b)
    po = dict(po, theorems=dict(po["theorems"], **po_b["theorems"]), obligations=po["obligations"] + po_b["obligations"], discharged=po["discharged"] + po_b["discharged"])
    # ---- (a) T-gen
    triples, problems = async_copies.scan()
    prims, pproblems = async_copies.scan_primitives()
    static_bad = []
    for p in problems + pproblems:
        static_bad.append(p)
    if len(triples) < 150:
        static_bad.append({"problem": f"only {len(triples)} blocking/tokio/async-std triples found (the translator no longer recognises the sources)"})
    # ---- (b) T-corr
    rc, out, har = harness_build("world")
    if rc != 0:
        rep.violation("C06/harness-build", "harness does not build against /repo", {"log": out[-3000:]}, no_input=True)
        rep.coverage = {"obligations": po["obligations"], "discharged": 0, "checker_cmd": "lake build WowVerif.Thm.C06", "trusted_base": TRUSTED_BASE_COMMON}
        return rep.finish()
    rng = SplitMix64(seed)
    conts = build_corpus()
    ok = [c for c in conts if "tokens" in c]
    login = [c for c in ok if c["lib"] == "login"]
    world = [c for c in ok if c["lib"] != "login"]
    d = Driver()
    frames = []      # (lib, dir, bytes, label, key or None)
    # every login message (several values each), world: a sample of messages per expansion (the header/body reader is shared)
    per_login = 3 if tier == "quick" else 12
    nworld = 40 if tier == "quick" else 400
    pick = login * per_login + [world[rng.below(len(world))] for _ in range(nworld)]
    gen = d.ask_many([f"gen {c['key']} {rng.below(1 << 40)} {1 + rng.below(3)}" for c in pick])
    for c, g in zip(pick, gen):
        if g.startswith("ok"):
            body = bytes.fromhex(g.split()[1]) if g.split()[1] != "-" else b""
            dr = directions(c)[0]
            if c["lib"] != "login" and len(body) > 300:
                continue
            frames.append((libname(c), dr, frame(libname(c), dr, c["opcode"], body), c["key"], c["key"]))
    # malformed login values (enumerator out of range etc.): errors of the same kind
    bad = d.ask_many([f"genbad {c['key']} {rng.below(1 << 40)} {rng.below(4)} {rng.below(3)}" for c in login])
    for c, g in zip(login, bad):
        if g.startswith("ok"):
            body = bytes.fromhex(g.split()[1]) if g.split()[1] != "-" else b""
            frames.append((libname(c), directions(c)[0], frame(libname(c), directions(c)[0], c["opcode"], body), c["key"] + "#bad", None))
    # strings at the published limits: every login message with a CString / String member, one string of the frame 254..300 bytes long
    # (the three variants have separate hand-written string readers; limits are where copies drift apart)
    import pyenc
    n_strlen = 0
    for c in login:
        nstr = sum(1 for t in c["tokens"] if t in ("cstring", "string"))
        for k in range(min(nstr, 2 if tier == "quick" else 6)):
            for n in (255, 256, 257) + ((254, 300) if tier != "quick" else ()):
                try:
                    body = pyenc.encode(c["tokens"], rng, 1, None, strlen=(k, n))
                except (pyenc.Unsupported, OverflowError, ValueError):
                    continue
                try:
                    frames.append((libname(c), directions(c)[0], frame(libname(c), directions(c)[0], c["opcode"], body), c["key"] + f"#strlen{n}", None))
                    n_strlen += 1
                except Exception:
                    pass
    r = corpus_mod.Resolver()
    tv = test_vectors(r.objs)
    for lib, dr, bs, name in tv:
        if lib.startswith("login") or (len(bs) <= 120 and rng.below(4 if tier == "quick" else 1) == 0):
            frames.append((lib, dr, bs, "test:" + name, None))
    # random frames with arbitrary opcodes / sizes (header arithmetic incl. Wrath's 3-byte size)
    for exp in ("vanilla", "tbc", "wrath"):
        for dr in ("client", "server"):
            for _ in range(6 if tier == "quick" else 60):
                body = rng.bytes(rng.below(9))
                fr = frame(exp, dr, rng.below(0x500), body)
                if rng.below(3) == 0:
                    fr = bytes([fr[0] ^ (0x80 if exp == "wrath" and dr == "server" and rng.below(2) else 0)]) + fr[1:]
                frames.append((exp, dr, fr + rng.bytes(rng.below(3)), "random-frame", None))
    # corpus of past alarms: a 6-byte SMSG_MOTD body whose count makes the blocking reader itself abort (C03's known finding) -- must be
    # attributed to the blocking reader, not reported as a disagreement
    frames.insert(0, ("wrath", "server", bytes.fromhex("00083d03c07776b16ce97e30"), "random-frame", None))
    reqs, meta = [], []
    seen = set()
    for lib, dr, fr, label, key in frames:
        for kind, s in schedules(fr, rng, tier):
            rq = f"chunk {lib} {dr} {s}"
            if rq in seen:
                continue
            seen.add(rq)
            reqs.append(rq)
            meta.append((lib, dr, fr, label, key, kind, s))
    ho = run_parallel(har, reqs, jobs=16, timeout=3000)
    # model side: world -> chunked frame script on the same schedule; login -> specification decoder on the concatenation
    mreq, midx = [], []
    for i, (lib, dr, fr, label, key, kind, s) in enumerate(meta):
        if not lib.startswith("login"):
            mreq.append(f"chunkframe {lib} {dr} {s}")
            midx.append(i)
        elif key is not None:
            # login: the read_exact script compiled from the definition (Model/ChunkSem.lean, Thm/C06b.lean) run by the chunked semantics
            # over the SAME schedule
            mreq.append(f"chunkdef {key} {s}")
            midx.append(i)
    mo = d.ask_many(mreq)
    d.close()
    model = dict(zip(midx, mo))
    # a process abort (failed allocation) cannot be attributed to a variant: ask the BLOCKING reader alone for the same bytes; when it
    # aborts too, the input is one of C03's unbounded-allocation inputs (all variants share that reader code) and not a disagreement
    ab_idx = [i for i, h in enumerate(ho) if h.startswith("abort signal")]
    ab_req = []
    for i in ab_idx:
        lib, dr, fr, label, key, kind, s = meta[i]
        flat = bytes.fromhex(s.replace("p", "").replace(",", "")) if s != "-" else b""
        ab_req.append(f"dec {lib} {dr} {flat.hex() or '-'}")
    ab_out = run_parallel(har, ab_req, jobs=8, limit_as=4 << 30, timeout=600) if ab_req else []
    blocking_aborts = {i for i, o in zip(ab_idx, ab_out) if o.startswith("abort signal")}
    kinds, classes = collections.Counter(), collections.Counter()
    model_cmp = collections.Counter()
    witnesses = {}
    for i, ((lib, dr, fr, label, key, kind, s), rq, h) in enumerate(zip(meta, reqs, ho)):
        kinds[kind] += 1
        cls = h.split(":")[0] if h.startswith("agree") else h.split()[0]
        classes[cls] += 1
        rel = os.path.relpath
        if i in blocking_aborts:
            classes["blocking-reader-aborts (C03)"] += 1
            continue
        if not h.startswith("agree"):
            k = "differ" if h.startswith("differ") else "abort"
            witnesses.setdefault(label.split("#")[0], rq)
            rep.violation(f"C06/{k}/{lib}-{dr}/{label.split(':')[-1].split('#')[0]}", f"{lib} {dr} {label}: under delivery schedule '{s[:80]}' ({kind}) the three variants do not agree: {h[:300]}",
                          {"library": lib, "direction": dr, "message": label, "schedule": s, "schedule_kind": kind, "implementation": h, "replay_cmd": f"echo '{rq[:20000]}' | {har}"})
            continue
        out_ = h[len("agree "):]
        m = model.get(i)
        if m is None:
            continue
        mn = re.search(r"n=(\d+)", out_)
        if not lib.startswith("login"):
            # model: ok op=.. body=.. n=.. | eof
            if m == "eof":
                good = out_ == "err_eof"
            else:
                mm = re.match(r"ok op=(\d+) body=\S+ n=(\d+)", m)
                mo_ = re.match(r"err_opcode_(\d+)", out_)
                good = bool(mm) and out_ != "err_eof" and (mn is None or int(mn.group(1)) == int(mm.group(2))) and (mo_ is None or int(mo_.group(1)) == int(mm.group(1)))
            model_cmp["frame:" + ("same" if good else "DIFF")] += 1
            if not good:
                rep.violation(f"C06/model-frame/{lib}-{dr}", f"{lib} {dr}: the frame-reader script of the model run over schedule '{s[:80]}' gives '{m[:80]}' but the implementation's three readers give '{out_[:80]}'",
                              {"library": lib, "direction": dr, "schedule": s, "model": m, "implementation": h, "replay_cmd": f"echo '{rq[:20000]}' | {har}",
                               "model_cmd": f"echo 'chunkframe {lib} {dr} {s[:20000]}' | {driver_path()}"})
        else:
            # the definition's script over the same schedule: ok n=k <-> implementation ok n=k; eof <-> err_eof
            if "scriptable=0" in m:
                model_cmp["login:not-scriptable"] += 1
                continue
            if m.startswith("ok") and "n=" in m:
                k = int(re.search(r"n=(\d+)", m).group(1))
                good = out_.startswith("ok:") and mn and int(mn.group(1)) == k
            elif m.startswith("eof"):
                good = out_ == "err_eof"
            else:
                good = not out_.startswith("ok:")
            # a disagreement with the specification decoder is a matter of C01/C04 (e.g. the known finding about constants in
            # else-branches); C06 only requires the three variants to agree, so it is counted, not reported
            model_cmp["login:" + ("same" if good else "differs-from-specification(C01)")] += 1
    # static problems: reported with a dynamic witness when one exists for that file's message, otherwise no-failing-input-found
    for p in static_bad:
        fn = p.get("file", "?")
        stem = os.path.basename(fn).replace(".rs", "").upper()
        wit = next((w for lab, w in witnesses.items() if stem and stem in lab.upper()), None)
        if wit is None and fn.endswith("_impl.rs") and witnesses:
            wit = next(iter(witnesses.values()))       # a primitive reader is shared by many messages: any disagreeing schedule is its replay
        key = f"C06/copies/{fn}:{p.get('impl', '')}:{p.get('fn', '')}"
        what = f"{fn} {p.get('impl', '')}::{p.get('fn', '')}: {p['problem']} — the blocking, tokio and async-std copies no longer denote the same read_exact script, so chunk_invariant no longer covers them"
        if wit:
            rep.violation(key, what, dict(p, replay_cmd=f"echo '{wit[:20000]}' | {har}"))
        else:
            rep.violation(key, what, dict(p, unchecked="tools/async_copies.py normalisation identity; no delivery schedule on which the variants differ was found"), no_input=True)
    rep.coverage = {
        "obligations": po["obligations"], "discharged": po["discharged"],
        "checker_cmd": "cd /verif/lean && lake build WowVerif.Thm.C06 && lake env lean WowVerif/Thm/C06.lean",
        "trusted_base": TRUSTED_BASE_COMMON + ["tools/async_copies.py (normalisation of the three copies: strips tokio_/astd_ prefixes, .await, the boxed-future wrapper, single-expression match-arm braces, trailing commas, crate::util:: qualifiers)",
                                               "read_exact / poll_read contracts of std, tokio and async-std (accumulate until n bytes or end of stream) — the semantics `fill` of the model; exercised by the scripted transports, not proved",
                                               "recorded equivalence: tokio's read_u32_le/read_f32_le/read_i32_le = read_exact(4) + from_le_bytes"],
        "theorems": po["theorems"],
        "evaluations": len(reqs) + len(triples) + len(prims), "distinct_nontrivial": len(seen), "frames": len(frames), "schedules": len(reqs),
        "schedule_kinds": dict(kinds), "outcome_classes": dict(classes.most_common(10)), "model_comparisons": dict(model_cmp),
        "copies_checked": len(triples), "copy_tokens_compared": sum(t["tokens"] for t in triples), "copies_by_function": dict(collections.Counter(t["fn"] for t in triples).most_common(12)),
        "async_primitives_checked": len(prims), "static_problems": len(static_bad),
        "rule": "frames: every login message x several generated values + malformed values + wowm test vectors + sampled world messages + random frames; schedules per frame: exhaustive partitions (<= 10/12 bytes) x {no, all, random Pending}, else whole / single-byte / every split / random partitions; truncation after every prefix",
        "samples": [{"request": reqs[i][:160], "implementation": ho[i][:120]} for i in (0, len(reqs) // 3, len(reqs) - 1)],
    }
    rep.assumptions = ["real executors, wakers and sockets are not modelled: futures are polled by a single-threaded loop and the transport is scripted (Pending always re-wakes)",
                       "login message readers: the script compiled from each definition (Model/ChunkSem.lean) is proved to be the specification decoder and is run over the same schedules; that the Rust readers ARE that script is the copy-identity check + the reader tie (progeq) + this correspondence",
                       "encrypted async readers/writers share their text with the blocking ones (checked by T-gen); their chunked behaviour is exercised for unencrypted variants only"]
    return rep.finish()
