"""C12 — generated flag types obey set algebra over exactly their declared bits.

Theorems: WowVerif/Thm/C12.lean — `bwEquiv_sound` (bitwise decision procedure) and one `*_sound` theorem per method role:
a `true` verdict of `itemOk` on a method body means the method equals the property's demand for EVERY raw value.
T-gen: tools/rust_flags.py re-extracts every method body of every generated flag type and synthesised flag struct from
/repo and pairs it with the wowm definition; `itemOk` is evaluated on each (quick: native driver; thorough: also kernel).
T-corr: the real methods are called on sampled raw values through the public API and compared with the specification."""
import sys, os, re, collections
sys.path.insert(0, os.path.join(os.path.dirname(__file__), "..", "lib"))
sys.path.insert(0, os.path.join(os.path.dirname(__file__), "..", "tools"))
from vlib import *
import rust_flags, rust_enums, gen_harness_defs

PID = "C12"
SRC = [("u8", 8, 0), ("u16", 16, 0), ("u32", 32, 0), ("u64", 64, 0), ("i8", 8, 1), ("i16", 16, 1), ("i32", 32, 1), ("i64", 64, 1), ("usize", 64, 0)]


def run(tier, seed):
    rep = Report(PID, tier, seed, "proof")
    rng = SplitMix64(seed)
    po = proof_obligations("WowVerif.Thm.C12", ["wowdrv"])
    add_proof_failures(rep, po)
    drv = driver_path()
    corpus = rust_flags.Corpus()
    items, types, problems = rust_flags.extract(corpus)
    for p in problems:
        rep.violation(f"C12/translator/{p['file']}#{p['type']}", p["problem"], p, no_input=True)
    # ---------------- T-gen: evaluate the verified checker on every extracted method
    lines = [i["line"] for i in items if i["line"]]
    outs = iter(run_parallel(drv, lines, jobs=8))
    n_ok = n_fail = n_known = 0
    for it in items:
        if it["role"] == "consts":
            if it["consts_rust"][:len(it["consts_wowm"])] != it["consts_wowm"] and dict(it["consts_rust"]) != dict(it["consts_wowm"]):
                rep.violation(f"C12/{it['file']}#{it['type']}/constants", "declared constants differ from the wowm values",
                              {"type": it["type"], "file": it["file"], "rust": it["consts_rust"], "wowm": it["consts_wowm"],
                               "input": "compare <Type>::<NAME> with the wowm enumerator value"})
                n_fail += 1
            else:
                n_ok += 1
            continue
        if it["line"] is None:
            if it.get("ok"):
                n_ok += 1
            else:
                n_fail += 1
                rep.violation(f"C12/{it['file']}#{it['type']}.{it['method']}", it.get("note", "structural check failed"), it, no_input=True)
            continue
        r = next(outs)
        if r == "ok":
            n_ok += 1
            continue
        n_fail += 1
        toks = it["line"].split()[6:]
        if it["role"] == "clear" and len(toks) == 5 and toks[:4] == ["val", "and", "inner", "rev"] and toks[4].startswith("c"):
            key = "C12/clear-reverse_bits"
        else:
            key = f"C12/{it['file']}#{it['type']}.{it['method']}"
        m = re.match(r"fail x=(\d+) rhs=(\d+) arg=(\d+) got=(\S+) want=(\S+)", r)
        rp = {"type": it["type"], "file": it["file"], "method": it["method"], "enumerator": it["enumerator"], "rust_body": it.get("rust"),
              "obligation": it["line"], "checker": r}
        if m:
            rp.update({"input_raw_value": int(m.group(1)), "rhs": int(m.group(2)), "got": m.group(4), "want": m.group(5),
                       "replay": f"{it['type']}::new({m.group(1)}).{it['method']}() -> inner {m.group(4)}, the property demands {m.group(5)}"})
        if any(k.get("status") == "known" and k.get("key") == key for k in rep.known):
            n_known += 1
        rep.violation(key, f"{it['type']}::{it['method']} is not the set-algebra operation the property demands ({r})", rp, no_input=not m)
    # ---------------- T-corr: the real public API on sampled raw values
    eitems, _ = rust_enums.extract(corpus)
    ekeys, fkeys = gen_harness_defs.generate(items, types, eitems)
    rc, out, har = harness_build("base")
    corr = {"requests": 0, "mismatch": 0}
    samples = []
    if rc != 0:
        rep.violation("C12/harness-build", "harness does not build against /repo", {"log": out[-3000:]}, no_input=True)
    else:
        by_key = {t["file"] + "#" + t["type"]: t for t in types}
        consts = {(i["file"] + "#" + i["type"]): i["consts_wowm"] for i in items if i["role"] == "consts"}
        hreq, dreq, meta = [], [], []
        nrand = 6 if tier == "quick" else 512
        for key in fkeys:
            t = by_key[key]
            w = t["width"]
            ones = (1 << w) - 1
            raws = [0, ones] + [1 << b for b in range(w)] + [rng.below(1 << w) for _ in range(nrand)]
            ens = " ".join(f"{n}:{v}" for n, v in consts[key])
            for raw in raws:
                rhs = rng.below(1 << w)
                hreq.append(f"flag {key} {raw} {rhs}")
                dreq.append(f"flagspec {w} {1 if t['zero_is_always_valid'] else 0} {raw} {rhs} {ens}")
                meta.append((key, raw, rhs, "ops"))
            for sname, sb, ss in SRC:
                lo, hi = (-(1 << (sb - 1)), (1 << (sb - 1)) - 1) if ss else (0, (1 << sb) - 1)
                ns = {lo, hi, 0, 1, -1, ones, ones + 1, 1 << (w - 1), -(1 << (w - 1)), 255, 256, -128, 127}
                ns |= {rng.below(1 << sb) + lo for _ in range(3)}
                for n in sorted(x for x in ns if lo <= x <= hi):
                    hreq.append(f"flagconv {key} {sname} {n}")
                    dreq.append(f"flagconvspec {w} {sb} {ss} {n}")
                    meta.append((key, n, sname, "conv"))
        hout = run_parallel(har, hreq, jobs=8)
        dout = run_parallel(drv, dreq, jobs=8)
        corr["requests"] = len(hreq)
        for (key, a, b, kind), hq, dq, h, d in zip(meta, hreq, dreq, hout, dout):
            if len(samples) < 3 and kind == "ops" and a not in (0,):
                samples.append({"harness_request": hq, "model_request": dq[:160], "implementation": h[:300], "model": d[:300]})
            if h == d:
                continue
            corr["mismatch"] += 1
            t = by_key[key]
            if kind == "conv":
                sb, ss = next((x[1], x[2]) for x in SRC if x[0] == b)
                if ss and sb < t["width"] and a < 0 and d == "none" and h.startswith("some"):
                    k = "C12/tryfrom-narrower-signed-negative"
                else:
                    k = f"C12/{key}/conversion-from-{b}"
                rep.violation(k, f"{t['type']}::try_from({a}{b}) = {h}, value-preserving conversion demands {d}",
                              {"type": t["type"], "file": t["file"], "source_type": b, "input": a, "implementation": h, "specification": d, "replay_cmd": f"echo '{hq}' | {har}"})
                continue
            hf, df = h.split(), d.split()
            diffs = [(x, y) for x, y in zip(hf, df) if x != y] or [(h[:80], d[:80])]
            only_clear = all(re.sub(r"clear=\d+,\d+", "", x) == re.sub(r"clear=\d+,\d+", "", y) for x, y in diffs) and len(hf) == len(df)
            # is every deviating clear result exactly the reverse_bits formula?
            if only_clear:
                k = "C12/clear-reverse_bits"
                for x, y in diffs:
                    name = x.split(":")[0]
                    v = dict(consts[key])[name] % (1 << t["width"])
                    rev = int(format(v, f"0{t['width']}b")[::-1], 2)
                    got = int(re.search(r"clear=(\d+),", x).group(1))
                    if got != (a & rev):
                        k = f"C12/{key}.clear_{name.lower()}"
            else:
                k = f"C12/{key}/ops"
            rep.violation(k, f"{t['type']} on raw value {a}: implementation {diffs[0][0]} but the definition demands {diffs[0][1]}",
                          {"type": t["type"], "file": t["file"], "input_raw_value": a, "rhs": b, "differences": diffs[:6], "replay_cmd": f"echo '{hq}' | {har}"})
    role_count = collections.Counter(i["role"] for i in items)
    rep.coverage = {
        "obligations": po["obligations"] + len(items) - n_known, "discharged": po["discharged"] + n_ok,
        "obligations_failing_by_known_finding": n_known,
        "checker_cmd": "cd /verif/lean && lake build WowVerif.Thm.C12 && python3 /verif/tools/rust_flags.py | wowdrv   # itemOk on every extracted method",
        "trusted_base": TRUSTED_BASE_COMMON + ["tools/rust_flags.py + tools/rustmini.py (transcribe method bodies to BitExpr; unknown text -> `unknown`, which itemOk rejects)",
                                               "tools/wowm.py (independent reader of the wowm sources)",
                                               "quick tier evaluates itemOk natively (compiled Lean); itemOk's soundness theorems are kernel-checked"],
        "theorems": po["theorems"],
        "flag_types": len(types), "definer_flags": sum(1 for t in types if t["kind"] == "definer"), "synthesised_structs": sum(1 for t in types if t["kind"] != "definer"),
        "method_obligations_by_role": dict(role_count), "method_obligations_failing": n_fail,
        "evaluations": len(items) + corr["requests"], "distinct_nontrivial": len(items),
        "correspondence_requests": corr["requests"], "correspondence_mismatches": corr["mismatch"],
        "rule": "one obligation per (flag type, method) extracted from the generated Rust; plus public-API calls on raw values 0, all-ones, every single bit and random values, and conversions from 9 integer types at boundary values",
        "samples": samples + [{"obligation": items[5]["line"], "type": items[5]["type"], "method": items[5]["method"], "rust_body": items[5].get("rust")}],
    }
    rep.assumptions = ["the translator reads the printed method bodies faithfully (cross-checked by the public-API correspondence for wow_world_base types)",
                       "flag structs synthesised inside message modules and login flags are covered by T-gen only (not publicly constructible from wow_world_base)"]
    return rep.finish()
