"""C11 — generated enum types mirror their wowm definition for every integer.

Theorems: WowVerif/Thm/C11.lean (fromInt_correct, roundtrip, variants_correct, tryFrom_correct): `enumOk r d = true` means
the conversions behave as the definition says for EVERY integer of EVERY source type.
T-gen: tools/rust_enums.py re-extracts from_int / as_int / variants() / TryFrom bodies of every generated enum; enumOk is
evaluated on each.  T-corr: the real conversions of all public wow_world_base enums are called on declared values, their
neighbours, width-aliases and random integers through all nine source types and compared with the specification."""
import sys, os, re, collections
sys.path.insert(0, os.path.join(os.path.dirname(__file__), "..", "lib"))
sys.path.insert(0, os.path.join(os.path.dirname(__file__), "..", "tools"))
from vlib import *
import rust_flags, rust_enums, gen_harness_defs

PID = "C11"
SRC = [("u8", 8, 0), ("u16", 16, 0), ("u32", 32, 0), ("u64", 64, 0), ("i8", 8, 1), ("i16", 16, 1), ("i32", 32, 1), ("i64", 64, 1), ("usize", 64, 0)]


def run(tier, seed):
    rep = Report(PID, tier, seed, "proof")
    rng = SplitMix64(seed)
    po = proof_obligations("WowVerif.Thm.C11", ["wowdrv"])
    add_proof_failures(rep, po)
    drv = driver_path()
    corpus = rust_flags.Corpus()
    items, problems = rust_enums.extract(corpus)
    for p in problems:
        rep.violation(f"C11/translator/{p['file']}#{p['type']}", p["problem"], p, no_input=True)
    outs = run_parallel(drv, [i["line"] for i in items], jobs=8)
    n_ok = 0
    for it, r in zip(items, outs):
        if r == "ok" and not it["unreadable"] and it["usize_conv"] == "checked":
            n_ok += 1
            continue
        key = f"C11/{it['file']}#{it['type']}"
        m = re.match(r"fail (\w+) (.*)", r)
        rp = {"type": it["type"], "file": it["file"], "wowm": it["wowm"], "checker": r, "obligation": it["line"], "unreadable": it["unreadable"][:5],
              "names": {str(k): v for k, v in list(it["names"].items())[:40]}}
        has_input = bool(m) and "nowitness" not in r and r != "ok"
        if has_input:
            rp["replay"] = f"{it['type']}: {r[5:]} (names are interned, see 'names')"
        what = f"{it['type']} deviates from its wowm definition: {r}" if r != "ok" else f"{it['type']}: unreadable arms or usize conversion shape {it['usize_conv']}"
        rep.violation(key, what, rp, no_input=not has_input)
    # ---------------- T-corr
    fitems, ftypes, _ = rust_flags.extract(corpus)
    ekeys, fkeys = gen_harness_defs.generate(fitems, ftypes, items)
    rc, out, har = harness_build("base")
    corr = {"requests": 0, "mismatch": 0, "types": len(ekeys)}
    samples = []
    if rc != 0:
        rep.violation("C11/harness-build", "harness does not build against /repo", {"log": out[-3000:]}, no_input=True)
    else:
        by_key = {i["file"] + "#" + i["type"]: i for i in items}
        hreq, dreq, meta = [], [], []
        nrand = 2 if tier == "quick" else 256
        for key in ekeys:
            it = by_key[key]
            bb, bs = rust_enums.INT[it["base"]]
            rev = {v: k for k, v in it["names"].items()}
            wen = " ".join(f"{i}:{v}" for i, v in zip(range(len(it["values"])), it["values"]))
            # the spec request interns enumerators by position: name of position p is declared variant p
            pos_names = [it["names"][int(x.split(":")[0])] for x in it["line"].split(" ; ")[8].split()]
            vals = it["values"]
            cand = set()
            pick = vals if (tier != "quick" or len(vals) <= 12) else [vals[0], vals[-1]] + [rng.choice(vals) for _ in range(10)]
            for v in pick:
                cand |= {v, v + 1, v - 1, v + 256, v + 65536, v + (1 << 32), v - 256, -v}
            cand |= {0, -1, 255, 256, 65535, 65536, (1 << 31), (1 << 32) - 1, (1 << 63) - 1, -(1 << 63), (1 << 64) - 1, 127, 128, -128, -129}
            hreq.append(f"enum {key} variants 0"); dreq.append(None); meta.append((key, "variants", 0, pos_names))
            for sname, sb, ss in SRC:
                lo, hi = (-(1 << (sb - 1)), (1 << (sb - 1)) - 1) if ss else (0, (1 << sb) - 1)
                ns = sorted(x for x in cand if lo <= x <= hi) + [rng.below(1 << sb) + lo for _ in range(nrand)]
                for n in ns:
                    hreq.append(f"enum {key} {sname} {n}")
                    dreq.append(f"enumspec {sb} {ss} {n} ; {bb} {bs} ; {wen}")
                    meta.append((key, sname, n, pos_names))
        hout = run_parallel(har, hreq, jobs=8)
        dl = [d for d in dreq if d]
        dres = iter(run_parallel(drv, dl, jobs=8))
        corr["requests"] = len(hreq)
        for (key, sname, n, pos_names), hq, dq, h in zip(meta, hreq, dreq, hout):
            it = by_key[key]
            if sname == "variants":
                want = " ".join(f"{nm}:{v}" for nm, v in zip(pos_names, it["values"]))
                if h != want:
                    corr["mismatch"] += 1
                    rep.violation(f"C11/{key}/variants", f"{it['type']}::variants() = [{h[:200]}] but the definition lists [{want[:200]}]",
                                  {"type": it["type"], "file": it["file"], "implementation": h, "specification": want, "replay_cmd": f"echo '{hq}' | {har}"})
                continue
            d = next(dres)
            if d.startswith("ok"):
                _, pos, val = d.split()
                d2 = f"ok {pos_names[int(pos)]} {val}"
            elif d.startswith("err"):
                d2 = f"err {it['type']} {d.split()[1]}"
            else:
                d2 = d
            if len(samples) < 4 and n not in (0, -1):
                samples.append({"harness_request": hq, "implementation": h, "specification": d2})
            if h != d2:
                corr["mismatch"] += 1
                rep.violation(f"C11/{key}/try_from-{sname}", f"{it['type']}::try_from({n}{sname}) = '{h}' but the definition says '{d2}'",
                              {"type": it["type"], "file": it["file"], "source_type": sname, "input": n, "implementation": h, "specification": d2, "replay_cmd": f"echo '{hq}' | {har}"})
    rep.coverage = {
        "obligations": po["obligations"] + len(items), "discharged": po["discharged"] + n_ok,
        "checker_cmd": "cd /verif/lean && lake build WowVerif.Thm.C11 && python3 /verif/tools/rust_enums.py | wowdrv   # enumOk on every extracted enum",
        "trusted_base": TRUSTED_BASE_COMMON + ["tools/rust_enums.py (transcribes match arms and classifies TryFrom bodies into 4 shapes; anything else -> unknown, rejected)",
                                               "tools/wowm.py (independent reader of the wowm sources)",
                                               "quick tier evaluates enumOk natively (compiled Lean); its soundness theorems are kernel-checked"],
        "theorems": po["theorems"], "enum_types": len(items), "enum_types_ok": n_ok,
        "public_enums_in_correspondence": corr["types"], "correspondence_requests": corr["requests"], "correspondence_mismatches": corr["mismatch"],
        "evaluations": len(items) + corr["requests"], "distinct_nontrivial": len(items),
        "rule": "one obligation per generated enum (all arms of from_int/as_int, variants(), 9 TryFrom bodies vs the wowm enumerators); plus real conversions on declared values, neighbours, +-2^8/2^16/2^32 aliases, type extremes and random integers through 9 source types",
        "samples": samples + [{"obligation": items[0]["line"][:300], "type": items[0]["type"]}],
    }
    rep.assumptions = ["crate-private enums and enums of wow_login_messages/wow_world_messages are covered by T-gen only"]
    return rep.finish()
