"""C08 — generated artefacts are a deterministic, reproducible function of the wowm.

Theorems (WowVerif/Thm/C08.lean): run_idem, run_reproduces, run_no_stale, run_converges about the tree model of a
generator run — they say which starting states must converge to one tree.  Tie / fault enumeration against the real
binary in a scratch copy of /repo's working tree (built in place, fixed path):
 (1) a pristine run reproduces every committed artefact byte for byte (0-byte committed placeholders count as absent);
 (2) a second run changes no file (content and mtime);
 (3) N perturbed starts — generated files deleted / truncated / garbled / replaced by another file's content / extra files
     added, chosen by seed across all generated directories — must converge to the tree of (1), as the model predicts;
 (4) determinism: repeated runs in fresh processes, pinned to 1 core and to all cores, give identical trees."""
import sys, os, re, shutil, collections
sys.path.insert(0, os.path.join(os.path.dirname(__file__), "..", "lib"))
from genrun import *

PID = "C08"
# directories from which unwritten files are removed (file_utils/mod_files.rs) and other fully generated locations
SWEPT = ["wow_world_messages/src/world", "wow_login_messages/src/logon", "wow_world_base/src/inner"]
GEN_DIRS = SWEPT + ["wowm_language/src/docs", "wow_message_parser/tests/wireshark"]
GEN_FILES_RE = re.compile(r"(helper/\w+/update_mask/(impls|indices)\.rs|helper/\w+/opcode_to_name\.rs|^intermediate_representation\.json)$")


def generated_files(digest):
    out = []
    for p in digest:
        if any(p.startswith(d + "/") for d in GEN_DIRS) or GEN_FILES_RE.search(p):
            out.append(p)
    return sorted(out)


def run(tier, seed):
    rep = Report(PID, tier, seed, "fault_enumeration")
    po = proof_obligations("WowVerif.Thm.C08", [])
    add_proof_failures(rep, po)
    rng = SplitMix64(seed)
    runs = 0
    samples = []
    with GenScratch() as g:
        rc, out, t_build = g.build()
        if rc != 0:
            rep.violation("C08/generator-build", "the generator does not build", {"log": out[-3000:]}, no_input=True)
            rep.coverage = {"evaluations": 1, "distinct_nontrivial": 2, "rule": "build failed", "samples": ["-"]}
            return rep.finish()
        committed = tree_digest(REPO)
        committed_empty = {p for p in committed if os.path.getsize(os.path.join(REPO, p)) == 0}
        # (1) pristine
        rc, out, t_run = g.run(); runs += 1
        if rc != 0:
            rep.violation("C08/generator-abort/pristine", f"the generator exits with status {rc} on the unmodified tree", {"log": out[-2000:], "input": "unmodified working tree"})
            rep.coverage = {"evaluations": runs, "distinct_nontrivial": 2, "rule": "pristine run failed", "samples": [out[-300:]]}
            return rep.finish()
        P = tree_digest(SCRATCH)
        only_p, only_c, differ = tree_diff(P, committed)
        drift = [p for p in differ if p not in committed_empty] + only_p + [p for p in only_c]
        for p in drift[:20]:
            rep.violation(f"C08/drift/{p}", f"regenerating from the wowm sources does not reproduce the committed artefact {p}",
                          {"path": p, "input": "run the generator on the unmodified tree and diff this file", "in_regenerated_tree": p in P, "in_committed_tree": p in committed})
        samples.append({"run": "pristine", "files": len(P), "differing_from_committed": len(drift), "committed_placeholders_ignored": sorted(committed_empty & set(differ))[:8]})
        # (2) second run: nothing changes
        mt = {p: os.stat(os.path.join(SCRATCH, p)).st_mtime_ns for p in P}
        rc, out, _ = g.run(); runs += 1
        P2 = tree_digest(SCRATCH)
        changed = [p for p in P2 if P2.get(p) != P.get(p)] + [p for p in P if p not in P2]
        touched = [p for p in P2 if p in mt and os.stat(os.path.join(SCRATCH, p)).st_mtime_ns != mt[p]]
        if rc != 0 or changed or touched:
            rep.violation("C08/second-run-changes", f"a second run changes {len(changed)} files / rewrites {len(touched)} files (status {rc})",
                          {"changed": changed[:10], "rewritten": touched[:10], "input": "two consecutive runs"})
        gen = generated_files(P)
        # (2b) start from a tree with EVERY generated file removed: the run must recreate exactly the pristine result.  Committed files in
        # the generated directories that no definition produces any more (stale doc pages, see C18's known finding) do not come back; they
        # are not outputs of the generator and are left out of the perturbation plans below
        g.resync()
        for f in gen:
            try:
                os.remove(os.path.join(SCRATCH, f))
            except OSError:
                pass
        rc, out, _ = g.run(); runs += 1
        D = tree_digest(SCRATCH)
        a, b, c = tree_diff(D, P)
        if rc != 0:
            rep.violation("C08/generator-abort/all-generated-files-missing", f"the generator exits with status {rc} when every generated file is missing", {"log": out[-800:], "input": "delete every generated file, run the generator"})
            not_outputs = set()
        else:
            not_outputs = {f for f in b if f in set(gen)}
            rest = [f for f in b if f not in not_outputs]
            if a or rest or c:
                rep.violation(f"C08/no-convergence/from-empty/{(a + rest + c)[0]}", f"a run from a tree without generated files does not reproduce the pristine result: {len(a)} extra, {len(rest)} missing, {len(c)} differing",
                              {"extra": a[:5], "missing": rest[:5], "differing": c[:5], "input": "delete every generated file, run the generator, diff with a pristine run"})
        samples.append({"run": "all-generated-files-missing", "status": rc, "committed_files_no_definition_produces": sorted(not_outputs)[:40], "count": len(not_outputs)})
        gen = [f for f in gen if f not in not_outputs]
        # (4a) the same wowm files listed by the file system in another ORDER: a tmpfs is mounted over the scratch copy's `wowm` directory and the
        # sources are copied into it file by file in ascending, descending and seed-shuffled name order (tmpfs lists a directory by creation
        # order; the disk file system by name hash); the output must be the pristine one.  (The generator walks the directory tree unsorted
        # and sorts what it parsed.)  Skipped, and reported as skipped, where mounting is not permitted.
        import shutil as _sh
        wl = os.path.join(SCRATCH, "wow_message_parser/wowm")
        wsrc = os.path.join(REPO, "wow_message_parser/wowm")
        orders = ["ascending", "descending"] + (["shuffled"] if tier != "quick" else [])
        dir_order_runs = 0
        for order in orders:
            g.resync()
            rcm, outm = sh(["mount", "-t", "tmpfs", "-o", "size=64m", "wowgen-wowm", wl], timeout=60)
            if rcm != 0:
                samples.append({"run": "directory-order", "skipped": "mount -t tmpfs not permitted: " + outm[-120:]})
                break
            try:
                for dp, dns, fns in os.walk(wsrc):
                    dns.sort(reverse=(order == "descending"))
                    fns = sorted(fns, reverse=(order == "descending"))
                    if order == "shuffled":
                        fns = sorted(fns, key=lambda x: rng.below(1 << 30))
                        dns[:] = sorted(dns, key=lambda x: rng.below(1 << 30))
                    tgt = os.path.join(wl, os.path.relpath(dp, wsrc))
                    os.makedirs(tgt, exist_ok=True)
                    for fn in fns:
                        _sh.copyfile(os.path.join(dp, fn), os.path.join(tgt, fn))
                rc, out, _ = g.run(); runs += 1
                dir_order_runs += 1
                D = tree_digest(SCRATCH)
            finally:
                sh(["umount", "-l", wl], timeout=60)
            a, b, c = tree_diff(D, P)
            if rc != 0 or a or b or c:
                rep.violation(f"C08/directory-order/{(c + a + b + ['status'])[0]}", f"with the wowm files listed in {order} order the run differs from the pristine run in {len(a) + len(b) + len(c)} files (status {rc})",
                              {"order": order, "only_now": a[:5], "missing": b[:5], "differing": c[:10], "log": out[-400:] if rc else "",
                               "input": f"mount a tmpfs over wow_message_parser/wowm, copy the sources into it file by file in {order} name order, run the generator, diff the generated tree with a run on the committed layout"})
            samples.append({"run": f"directory-order-{order}", "status": rc, "differing": len(c), "extra": len(a), "missing": len(b)})
        g.resync()
        # (4) determinism
        reps = 2 if tier == "quick" else 10
        for i in range(reps):
            g.resync()
            rc, out, _ = g.run(taskset="0" if i % 2 == 0 else None); runs += 1
            D = tree_digest(SCRATCH)
            a, b, c = tree_diff(D, P)
            if rc != 0 or a or b or c:
                rep.violation("C08/nondeterministic", f"run {i} ({'1 core' if i % 2 == 0 else 'all cores'}) differs from the first run in {len(a) + len(b) + len(c)} files",
                              {"only_now": a[:5], "missing": b[:5], "differing": c[:10], "input": f"repeat the run ({'taskset -c 0' if i % 2 == 0 else 'all cores'})"})
        # (3a) EVERY generated file minimally stale at once (one run covers every write path): last byte cut off / LF -> CRLF on the first
        # line / one byte changed in the middle / a trailing space added -- the kind rotates with the file index and the pass number
        MINI = ["cut-last-byte", "crlf-first-line", "one-byte", "trailing-space", "crlf-all", "cut-2"]
        for pass_ in range(2 if tier == "quick" else 6):
            g.resync()
            touched = {}
            for fi, f in enumerate(gen):
                path = os.path.join(SCRATCH, f)
                if not os.path.isfile(path):
                    continue
                data = open(path, "rb").read()
                if len(data) < 4:
                    continue
                kind = MINI[(fi + pass_) % (4 if tier == "quick" else len(MINI))]
                if kind == "cut-last-byte":
                    new = data[:-1]
                elif kind == "cut-2":
                    new = data[:-2]
                elif kind == "crlf-first-line":
                    new = data.replace(b"\n", b"\r\n", 1)
                elif kind == "crlf-all":
                    new = data.replace(b"\n", b"\r\n")
                elif kind == "one-byte":
                    k = len(data) // 2
                    new = data[:k] + bytes([data[k] ^ 1]) + data[k + 1:]
                else:
                    k = data.find(b"\n")
                    new = data[:k] + b" " + data[k:] if k >= 0 else data + b" "
                if new != data:
                    open(path, "wb").write(new)
                    touched[f] = kind
            rc, out, _ = g.run(); runs += 1
            D = tree_digest(SCRATCH)
            a, b, c = tree_diff(D, P)
            if rc != 0:
                rep.violation("C08/generator-abort/minimal-staleness", f"the generator exits with status {rc} when every generated file is minimally stale", {"log": out[-600:], "input": "pass %d of the minimal-staleness plan" % pass_})
            still = [f for f in c if f in touched]
            by_kind = collections.Counter(touched[f] for f in still)
            for kind in sorted(by_kind):
                ex = next(f for f in still if touched[f] == kind)
                rep.violation(f"C08/no-convergence/minimal/{kind}", f"{by_kind[kind]} generated files that were stale only by '{kind}' are not restored by a run (e.g. {ex})",
                              {"kind": kind, "files": [f for f in still if touched[f] == kind][:10], "count": by_kind[kind], "input": f"apply '{kind}' to {ex}, run the generator, compare with a pristine run"})
            samples.append({"run": f"minimal-staleness-{pass_}", "files_made_stale": len(touched), "not_restored": len(still), "kinds": dict(collections.Counter(touched.values()))})
        # (3) perturbed starts
        n_pert = 6 if tier == "quick" else 60
        kinds = collections.Counter()
        # names the generator's own file handling mentions (T-gen of a dictionary: string literals that look like file names in
        # file_utils/*.rs and main.rs).  A stale file whose name merely CONTAINS such a literal (prefix / suffix / infix) is still a stale
        # file and must be swept; only a file with exactly that name may be kept on purpose.
        name_literals = set()
        for src_ in [os.path.join(REPO, "wow_message_parser/src/main.rs")] + sorted(
                os.path.join(dp_, f_) for dp_, _, fn_ in os.walk(os.path.join(REPO, "wow_message_parser/src/file_utils")) for f_ in fn_ if f_.endswith(".rs")):
            try:
                for m_ in re.finditer(r'"([A-Za-z0-9_]+\.(?:rs|md|txt|json))"', open(src_).read()):
                    name_literals.add(m_.group(1))
            except OSError:
                pass
        name_literals = sorted(name_literals)
        # extensions the generator's file handling mentions (`with_extension("tmp")`, `"…​.bak"`) plus the classic names of temporary / backup files:
        # a leftover sibling `<stem>.<ext>` of a generated file, next to a stale version of that file, is a starting state an interrupted run or
        # an editor produces
        ext_literals = {"tmp", "bak", "orig", "new", "part", "swp", "rs~", "old"}
        for src_ in [os.path.join(REPO, "wow_message_parser/src/main.rs")] + sorted(
                os.path.join(dp_, f_) for dp_, _, fn_ in os.walk(os.path.join(REPO, "wow_message_parser/src/file_utils")) for f_ in fn_ if f_.endswith(".rs")):
            try:
                for m_ in re.finditer(r'(?:with_extension|set_extension)\(\s*"([A-Za-z0-9_~]{1,8})"', open(src_).read()):
                    ext_literals.add(m_.group(1))
            except OSError:
                pass
        ext_literals = sorted(ext_literals)
        dict_names = []
        for lit in name_literals:
            stem, ext_ = os.path.splitext(lit)
            dict_names += [(f"zzz_stale_{lit}", ext_), (f"{stem}_zzz_stale{ext_}", ext_), (f"zzz_{stem}_stale{ext_}", ext_)]
        # minimised past failures run first
        CORPUS = [[("extra-dict", None)], [("stale+siblings", None)], [("extra-subdirs", None)],
                  [("extra", "wowm_language/src/docs")], [("delete", "wow_message_parser/tests/wireshark/parser.txt")],
                  [("delete", "wow_world_messages/src/helper/vanilla/update_mask/impls.rs"), ("delete", "wow_world_messages/src/helper/tbc/opcode_to_name.rs")],
                  [("delete", "intermediate_representation.json"), ("extra", "wow_world_base/src/inner")]]
        for i in range(len(CORPUS) + n_pert):
            g.resync()
            # start from the regenerated tree of (1): copy is /repo's tree which equals it except placeholders
            ops = []
            plan = CORPUS[i] if i < len(CORPUS) else [(rng.choice(["delete", "truncate", "garble", "stale", "extra", "delete", "garble"]), None) for _ in range(1 + rng.below(6))]
            for kind, forced in plan:
                f = forced if (forced and kind != "extra") else rng.choice(gen)
                path = os.path.join(SCRATCH, f)
                if kind == "stale+siblings":
                    # in every swept directory: one generated file cut short, with one leftover sibling per extension next to it
                    for d_ in SWEPT:
                        cands_ = sorted(x for x in gen if x.startswith(d_ + "/") and x.endswith(".rs") and not x.endswith("mod.rs"))
                        if not cands_:
                            continue
                        f_ = cands_[rng.below(len(cands_))]
                        p_ = os.path.join(SCRATCH, f_)
                        data_ = open(p_, "rb").read()
                        open(p_, "wb").write(data_[:len(data_) // 3])
                        ops.append(("truncate-to-a-third", f_))
                        for e_ in ext_literals:
                            q_ = os.path.splitext(p_)[0] + "." + e_
                            open(q_, "w").write("// leftover of an interrupted run\n")
                            ops.append(("extra", os.path.relpath(q_, SCRATCH)))
                        kinds["stale+siblings"] += 1
                    continue
                if kind == "extra-subdirs":
                    # stale files in directories that receive no write in this run: the module directory of a removed version / expansion next to the
                    # live ones, and a directory one level below a live module directory — in every swept root, all in ONE run
                    for d_ in SWEPT:
                        live = sorted({os.path.dirname(x) for x in gen if x.startswith(d_ + "/") and x.endswith(".rs")})
                        if not live:
                            continue
                        deep = live[rng.below(len(live))]
                        for q_ in (os.path.join(d_, "zzz_removed_module", "mod.rs"), os.path.join(d_, "zzz_removed_module", "zzz_stale_type.rs"),
                                   os.path.join(deep, "zzz_old", "zzz_stale_nested.rs")):
                            p_ = os.path.join(SCRATCH, q_)
                            os.makedirs(os.path.dirname(p_), exist_ok=True)
                            open(p_, "w").write("// stale file that corresponds to no definition\n")
                            ops.append(("extra", q_))
                            kinds["extra-subdirs"] += 1
                    continue
                if kind == "extra-dict":
                    # one stale file per (dictionary name, swept directory with files of that extension): all in ONE run
                    for nm_, ext_ in dict_names:
                        for d_ in SWEPT:
                            subs = sorted({os.path.dirname(x) for x in gen if x.startswith(d_ + "/") and x.endswith(ext_)})
                            if not subs:
                                continue
                            p_ = os.path.join(SCRATCH, subs[rng.below(len(subs))], nm_)
                            if not os.path.exists(p_):
                                open(p_, "w").write("// stale file that corresponds to no definition\n")
                                ops.append(("extra", os.path.relpath(p_, SCRATCH)))
                                kinds["extra-dict"] += 1
                    continue
                if kind == "extra":
                    d = forced or rng.choice(SWEPT + ["wowm_language/src/docs"])   # directories holding one file per definition
                    sub = rng.choice([x for x in gen if x.startswith(d + "/")])
                    ext = os.path.splitext(sub)[1]
                    path = os.path.join(SCRATCH, os.path.dirname(sub), f"zzz_stale_{rng.below(1000)}{ext}")
                    open(path, "w").write("// stale file that corresponds to no definition\n")
                    f = os.path.relpath(path, SCRATCH)
                elif not os.path.exists(path):
                    continue
                elif kind == "delete":
                    os.remove(path)
                elif kind == "truncate":
                    open(path, "w").close()
                elif kind == "garble":
                    data = open(path, "rb").read()
                    cut = rng.below(max(1, len(data)))
                    open(path, "wb").write(data[:cut] + b"\n// garbled\n" + data[cut + rng.below(50):])
                elif kind == "stale":
                    other = os.path.join(SCRATCH, rng.choice(gen))
                    if os.path.exists(other):
                        shutil.copyfile(other, path)
                ops.append((kind, f))
                kinds[kind] += 1
            rc, out, _ = g.run(); runs += 1
            D = tree_digest(SCRATCH)
            a, b, c = tree_diff(D, P)
            c = [p for p in c]
            if rc != 0:
                bad_ops = [o for o in ops]
                rep.violation(f"C08/generator-abort/{'+'.join(sorted({o[0] for o in ops}))}", f"the generator exits with status {rc} when started from a partially generated tree",
                              {"starting_state": ops, "log": out[-600:], "input": "apply these perturbations to the generated files, then run the generator"})
            else:
                stale_docs = [p for p in a if p.startswith("wowm_language/src/docs/")]
                others = [p for p in a if p not in stale_docs]
                if stale_docs:
                    rep.violation("C08/stale-doc-page-not-removed", f"an extra page in wowm_language/src/docs survives the run ({stale_docs[0]})",
                                  {"starting_state": ops, "surviving": stale_docs, "input": "add a file to wowm_language/src/docs, run the generator"})
                stale_ws = [p for p in others if p.startswith("wow_message_parser/tests/wireshark/")]
                if stale_ws:
                    rep.violation("C08/stale-wireshark-file-not-removed", f"an extra file in tests/wireshark survives the run ({stale_ws[0]})",
                                  {"starting_state": ops, "surviving": stale_ws, "input": "add a file to wow_message_parser/tests/wireshark, run the generator"})
                    others = [p for p in others if p not in stale_ws]
                if others or b or c:
                    rep.violation(f"C08/no-convergence/{(others + b + c)[0]}", f"a run from a perturbed tree does not converge to the pristine result: {len(others)} extra, {len(b)} missing, {len(c)} differing files",
                                  {"starting_state": ops, "extra": others[:5], "missing": b[:5], "differing": c[:5], "input": "apply these perturbations, run the generator, diff with a pristine run"})
            if len(samples) < 4:
                samples.append({"run": f"perturbed-{i}", "starting_state": ops, "status": rc, "extra": a[:3], "missing": b[:3], "differing": c[:3]})
    rep.coverage = {
        "evaluations": runs, "distinct_nontrivial": runs, "generator_runs": runs, "generated_files": len(gen), "build_s": t_build, "run_s": t_run,
        "perturbation_kinds": dict(kinds),
        "rule": "1 pristine run (diff against the committed tree), 1 repeat (content + mtime), determinism repeats on 1 core / all cores, and seed-chosen perturbed starts (1-6 of delete/truncate/garble/stale/extra per start over all generated directories); each run is a distinct starting state",
        "spec_theorems": po["theorems"], "spec_obligations": po["obligations"], "spec_discharged": po["discharged"],
        "samples": samples,
    }
    rep.assumptions = ["OS / file-system behaviour, hash seeds and thread timing are observed over the sampled runs, not proved",
                       "items/spells/extended tables (need WOWM_SQLITE_DB_PATH) are not regenerated and out of scope",
                       "host files with AUTOGENERATED markers are only rewritten between the markers; deleting a host file is outside the property"]
    return rep.finish()
