"""C13 — UpdateMask accessors, dirty tracking and wire form agree with the field table.

Theorems (WowVerif/Thm/C13.lean) about the bookkeeping model (Model/UpdateMask.lean), for EVERY finite operation sequence:
inv_steps (invariant of every reachable state), get_last_set (getters return the value last set; dirty operations do not
affect them), size_eq_written_reachable (reported size = bytes written, the writers' assert cannot fire).
T-gen: all typed accessors of helper/*/update_mask/impls.rs (offset, primitive kind) against the published field table
of update-mask.md; getter/setter pairs address the same offset.
T-corr: operation sequences (exhaustive to depth 3 over a representative alphabet per object kind, random to depth 40) on
all 7 kinds x 3 expansions through the public typed setters; the mask inside a written SMSG_UPDATE_OBJECT must equal the
model's wire form byte for byte."""
import sys, os, re, collections, itertools
sys.path.insert(0, os.path.join(os.path.dirname(__file__), "..", "lib"))
sys.path.insert(0, os.path.join(os.path.dirname(__file__), "..", "tools"))
from vlib import *
import update_mask_tables as umt

PID = "C13"
TYPE = {"Item": 3, "Container": 7, "Unit": 9, "Player": 25, "GameObject": 33, "DynamicObject": 65, "Corpse": 129}


def run(tier, seed):
    rep = Report(PID, tier, seed, "proof")
    po = proof_obligations("WowVerif.Thm.C13", ["wowdrv"])
    add_proof_failures(rep, po)
    rng = SplitMix64(seed)
    # ---- T-gen: accessor tables
    n_tab = n_tab_ok = 0
    for exp, ver in (("vanilla", "1.12"), ("tbc", "2.4.3"), ("wrath", "3.3.5")):
        n, probs = umt.check_tables(exp, ver)
        n_tab += n
        n_tab_ok += n - len(probs)
        for p in probs:
            rep.violation(f"C13/table/{exp}-{p['kind']}.{p['accessor']}", f"{exp} Update{p['kind']}::{p['accessor']} does not address the published field: {p}",
                          {**p, "input": "compare the accessor's offset with the row of update-mask.md"}, no_input=False)
    chosen = umt.gen_harness()
    rc, out, har = harness_build("world")
    drv = driver_path()
    if rc != 0:
        rep.violation("C13/harness-build", "harness does not build against /repo", {"log": out[-3000:]}, no_input=True)
        rep.coverage = {"obligations": po["obligations"], "discharged": 0, "checker_cmd": "lake build WowVerif.Thm.C13", "trusted_base": TRUSTED_BASE_COMMON}
        return rep.finish()
    hreq, dreq, meta = [], [], []
    n_idx_obl = n_idx_ok = 0
    for (exp, kind), setters in sorted(chosen.items()):
        ints = [s for s in setters if s[1] != "guid"]
        guids = [s for s in setters if s[1] == "guid"]
        if not ints:
            continue
        a, b = ints[0], ints[-1]
        alphabet = [f"s{a[2]}:1", f"s{a[2]}:4294967295", f"s{b[2]}:{rng.below(1 << 32)}", "r", "m"]
        if guids:
            alphabet.append(f"g{guids[0][2]}:{rng.below(1 << 32)}:{rng.below(1 << 32)}")
        if len(ints) > 2:
            alphabet.append(f"s{ints[len(ints) // 2][2]}:{rng.below(1 << 32)}")
        seqs = []
        depth = 3 if tier == "quick" else 5
        for dlen in range(1, depth + 1):
            for combo in itertools.product(alphabet, repeat=dlen):
                seqs.append(list(combo))
        if tier == "quick":
            seqs = [s for i, s in enumerate(seqs) if len(s) < 3 or i % 3 == 0]
        for _ in range(20 if tier == "quick" else 2000):
            k = 1 + rng.below(40 if tier == "quick" else 160)
            sq = []
            for _ in range(k):
                c = rng.below(10)
                if c < 6:
                    s_ = rng.choice(ints)
                    sq.append(f"s{s_[2]}:{rng.choice([0, 1, 0xFFFFFFFF, rng.below(1 << 32)])}")
                elif c < 8 and guids:
                    g_ = rng.choice(guids)
                    sq.append(f"g{g_[2]}:{rng.below(1 << 32)}:{rng.below(1 << 32)}")
                elif c == 8:
                    sq.append("r")
                else:
                    sq.append("m")
            seqs.append(sq)
        for sq in seqs:
            ops = ",".join(sq)
            hreq.append(f"um {exp} {kind} {ops}")
            dreq.append(f"umask {TYPE[kind]} {ops}")
            meta.append((exp, kind, ops))
        # enum-indexed guid arrays (set_player_field_inv(ItemSlot, Guid)): EVERY enumerator, alone and after other operations; the model
        # places the guid at the PUBLISHED offset of the array + 2 * enumerator value, whatever the accessor's own arithmetic says
        if kind == "Player":
            doc = umt.doc_table({"vanilla": "1.12", "tbc": "2.4.3", "wrath": "3.3.5"}[exp])
            for (st, gt, en, vals) in umt.indexed_accessors(exp):
                row = doc.get("Player", {}).get(gt.upper())
                n_idx_obl += 1
                if row is None:
                    rep.violation(f"C13/table/{exp}-Player.{st}", f"{exp} UpdatePlayer::{st}: no published row {gt.upper()} in update-mask.md", {"accessor": st}, no_input=True)
                    continue
                off, size, _ty = row
                if off + 2 * max(vals) + 2 > off + size:
                    rep.violation(f"C13/table/{exp}-Player.{st}", f"{exp} UpdatePlayer::{st}: enumerator {max(vals)} of {en} addresses words beyond the published field ({size} words at {off})",
                                  {"accessor": st, "enum": en, "largest": max(vals), "published": [off, size]}, no_input=True)
                    continue
                n_idx_ok += 1
                for v in vals:
                    lo_, hi_ = rng.below(1 << 32) | 1, rng.below(1 << 32) | 1
                    for pre in ([], [f"s{a[2]}:7"]) if v % 8 == 0 or v >= 120 else ([],):
                        hreq.append(f"um {exp} {kind} " + ",".join(pre + [f"i{v}:{lo_}:{hi_}"]))
                        dreq.append(f"umask {TYPE[kind]} " + ",".join(pre + [f"g{off + 2 * v}:{lo_}:{hi_}"]))
                        meta.append((exp, kind, ",".join(pre + [f"i{v}:{lo_}:{hi_}"])))
                for _ in range(6 if tier == "quick" else 60):
                    sq_h, sq_d = [], []
                    for _ in range(1 + rng.below(12)):
                        if rng.below(3):
                            v = rng.choice(vals); lo_, hi_ = rng.below(1 << 32), rng.below(1 << 32)
                            sq_h.append(f"i{v}:{lo_}:{hi_}"); sq_d.append(f"g{off + 2 * v}:{lo_}:{hi_}")
                        else:
                            o_ = rng.choice([f"s{rng.choice(ints)[2]}:{rng.below(1 << 32)}", "r", "m"])
                            sq_h.append(o_); sq_d.append(o_)
                    hreq.append(f"um {exp} {kind} " + ",".join(sq_h))
                    dreq.append(f"umask {TYPE[kind]} " + ",".join(sq_d))
                    meta.append((exp, kind, ",".join(sq_h)))
    # struct-valued accessors (visible items, skill infos): for EVERY index, several values with pairwise different members — the getter
    # must return the value just set (mutable setter and builder); the member packing is the accessors' own business, their agreement is not
    xreq, xmeta = [], []
    for exp in ("vanilla", "tbc", "wrath"):
        for (st, gt, sname, idx, fields) in umt.struct_accessors(exp):
            for ix in range(0, 200):
                for s_ in ([1, 77, rng.below(1 << 32)] if (ix < 3 or ix % 16 == 0 or tier != "quick") else [rng.below(1 << 32)]):
                    xreq.append(f"umx {exp} {st} {ix} {s_}")
                    xmeta.append((exp, st, sname, ix))
    xo = run_parallel(har, xreq, jobs=12) if xreq else []
    n_struct = n_struct_ok = 0
    seen_idx = collections.Counter()
    for (exp, st, sname, ix), rq, h in zip(xmeta, xreq, xo):
        if h == "noindex":
            continue
        n_struct += 1
        seen_idx[(exp, st)] = max(seen_idx[(exp, st)], ix + 1)
        if h.startswith("ok get=1 getb=1 "):
            n_struct_ok += 1
        else:
            rep.violation(f"C13/{exp}-Player/struct-accessor/{st}", f"{exp} UpdatePlayer::{st} at index {ix}: the getter does not return the {sname} that was just set: '{h[:120]}'",
                          {"input": rq, "implementation": h[:600], "replay_cmd": f"echo '{rq}' | {har}"})
    ho = run_parallel(har, hreq, jobs=12)
    do = run_parallel(drv, dreq, jobs=12)
    n_ok = n_rt = n_rt_untyped = 0
    for (exp, kind, ops), hq, h, d in zip(meta, hreq, ho, do):
        m = re.match(r"ok ([0-9a-f]+) size=(\d+)", d)
        if not h.startswith("ok") or not m:
            rep.violation(f"C13/{exp}-{kind}/write", f"{exp} Update{kind} after [{ops[:80]}]: writing fails: '{h[:120]}' (model '{d[:60]}')", {"input": hq, "implementation": h, "model": d, "replay_cmd": f"echo '{hq}' | {har}"})
            continue
        frame, want = h.split()[1], m.group(1)
        if not frame.endswith(want):
            rep.violation(f"C13/{exp}-{kind}/wire-form", f"{exp} Update{kind} after [{ops[:80]}]: the written mask differs from the block-count / masked-blocks / ascending-values form",
                          {"input": hq, "implementation_frame": frame, "model_mask": want, "model": d, "replay_cmd": f"echo '{hq}' | {har}"})
        else:
            n_ok += 1
        # decoding the written form: required to return exactly the written fields whenever the object-type field is on the wire
        rt = (re.search(r" rt=(\S+)", h) or [None, "missing"])[1]
        if " type=1 " in d:
            n_rt += 1
            if rt != f"same:{kind}":
                rep.violation(f"C13/{exp}-{kind}/decode-written", f"{exp} Update{kind} after [{ops[:80]}]: the written form carries the object-type field but reading it back gives '{rt[:160]}' instead of the same {kind} fields",
                              {"input": hq, "implementation": h[:600], "model": d[:300], "replay_cmd": f"echo '{hq}' | {har}"})
        elif rt.startswith("same") or rt.startswith("diff"):
            n_rt_untyped += 1
    rep.coverage = {
        "obligations": po["obligations"] + n_tab + n_idx_obl, "discharged": po["discharged"] + n_tab_ok + n_idx_ok,
        "checker_cmd": "cd /verif/lean && lake build WowVerif.Thm.C13; python3 /verif/tools/update_mask_tables.py",
        "trusted_base": TRUSTED_BASE_COMMON + ["the Vec<u32> bit-vector representation of header / dirty is abstracted to bit sets (tied by the byte-level correspondence)",
                                               "tools/update_mask_tables.py (regex extraction of accessors and of the published table)"],
        "theorems": po["theorems"], "accessor_table_obligations": n_tab, "struct_accessor_calls": n_struct, "struct_accessor_calls_ok": n_struct_ok, "struct_accessor_indices": {f"{k[0]}.{k[1]}": v for k, v in seen_idx.items()},
        "evaluations": len(hreq), "distinct_nontrivial": len(set(hreq)), "sequences_equal": n_ok, "written_forms_read_back": n_rt, "kinds": len(chosen),
        "rule": "per object kind and expansion: all operation sequences up to depth 3 (thorough 4) over {set a low/high, set b, set mid, set_guid, dirty_reset, mark_fully_dirty} plus random sequences of up to 40 operations over up to 28 typed setters; compared byte for byte with the model's wire form",
        "samples": [{"harness": hreq[i][:120], "implementation": ho[i][:100], "model": do[i][:100]} for i in (0, len(hreq) // 2, len(hreq) - 1)],
    }
    rep.assumptions = ["decoding of a written mask (UpdateMask::read) is exercised by reading every written SMSG_UPDATE_OBJECT back and re-writing it; the Lean model of read_inner (readWire, theorem read_write) is not itself compared with the implementation's decoded value, only through the re-written bytes",
                       "setters taking enums / bytes / shorts are covered by the table check only"]
    return rep.finish()
