"""C19 — every supported feature combination builds and exposes the same codecs.

Theorem (WowVerif/Thm/C19.lean): checkAll_sound — when the cfg-closure checker answers `true` on a list of (site guard,
target guard) references, then under EVERY feature assignment that respects Cargo's feature table every compiled item
refers only to compiled items (no reference across a cfg boundary can dangle), for all assignments and not only the
enumerated ones.
Tie: (a) T-gen (tools/cfg_refs.py): Cargo.toml feature tables, optional dependencies, the module tree with its `#[cfg]`
guards, guarded items/statements/cfg_attr and every `crate::module::…` / `<optional dependency>::…` reference of the three
libraries are re-read from /repo on every run and handed to the verified checker.  (b) the builds themselves:
`cargo check --no-default-features --features <set>` for a pairwise-covering family of feature sets plus none / each single
feature / all (quick) or the full powerset (thorough) of every library; rustc is the judge.  (c) behaviour: the harness is
built in reduced configurations (one expansion, blocking only, no encryption) and its codec outputs on generated frames and
test vectors are compared with the all-features build."""
import sys, os, re, itertools, collections, subprocess, concurrent.futures
sys.path.insert(0, os.path.join(os.path.dirname(__file__), "..", "lib"))
sys.path.insert(0, os.path.join(os.path.dirname(__file__), "..", "tools"))
sys.path.insert(0, os.path.dirname(__file__))
from semcorr import *
import cfg_refs
from c03 import test_vectors

PID = "C19"
FEATURES = {
    "wow_login_messages": ["sync", "tokio", "async-std"],
    "wow_world_base": ["extended", "vanilla", "tbc", "wrath", "shared", "print-testcase"],
    "wow_world_messages": ["sync", "tokio", "async-std", "vanilla", "tbc", "wrath", "encryption", "print-testcase"],
}


def pairwise(feats, rng):
    """greedy pairwise-covering family of subsets (every pair of features takes all four on/off combinations)"""
    need = {(i, j, a, b) for i in range(len(feats)) for j in range(i + 1, len(feats)) for a in (0, 1) for b in (0, 1)}
    rows = []
    while need:
        best, bestc = None, -1
        for _ in range(40):
            r = [rng.below(2) for _ in feats]
            c = sum(1 for (i, j, a, b) in need if r[i] == a and r[j] == b)
            if c > bestc:
                best, bestc = r, c
        rows.append(best)
        need = {(i, j, a, b) for (i, j, a, b) in need if not (best[i] == a and best[j] == b)}
    return [tuple(f for f, x in zip(feats, r) if x) for r in rows]


def cargo_check(crate, feats, slot):
    env = env_offline()
    env["CARGO_TARGET_DIR"] = os.path.join(CACHE, f"c19-check-{slot}")
    cmd = ["cargo", "check", "--offline", "-q", "-p", crate, "--no-default-features"]
    if feats:
        cmd += ["--features", " ".join(feats)]
    p = subprocess.run(cmd, cwd=REPO, env=env, stdout=subprocess.PIPE, stderr=subprocess.STDOUT, text=True, timeout=3600)
    errs = [l for l in p.stdout.split("\n") if l.startswith("error")]
    # every feature set leaves its own ~1 GB of metadata for the workspace crates behind: drop those (third-party artefacts stay cached)
    import glob, shutil
    td = env["CARGO_TARGET_DIR"]
    for pat in ("debug/deps/libwow_*", "debug/deps/wow_*", "debug/incremental/wow_*", "debug/.fingerprint/wow_*"):
        for f in glob.glob(os.path.join(td, pat)):
            if os.path.isdir(f):
                shutil.rmtree(f, ignore_errors=True)
            else:
                try:
                    os.remove(f)
                except OSError:
                    pass
    return p.returncode, errs[:6], p.stdout[-1500:]


def run(tier, seed):
    rep = Report(PID, tier, seed, "proof")
    po = proof_obligations("WowVerif.Thm.C19", ["wowdrv"])
    add_proof_failures(rep, po)
    rng = SplitMix64(seed)
    drv = driver_path()
    # ---- (a) cfg closure
    n_refs = n_ok = raw_refs = 0
    suspects = []          # (crate, feature set) the checker says would not build
    per_crate = {}
    for cname in cfg_refs.CRATES:
        crate, modules, files, refs, nraw = cfg_refs.extract(cname)
        raw_refs += nraw
        items = list(refs.items())
        toks = [".".join(cfg_refs.to_tokens(crate, s)) + ">" + ".".join(cfg_refs.to_tokens(crate, t)) for (s, t), _ in items]
        n = len(crate.universe)
        imp = ",".join(f"{a}:{b}" for a, b in crate.implied()) or "-"
        per_crate[cname] = {"features": list(crate.universe), "modules": len(modules), "files": len(files), "references": nraw, "distinct_guard_pairs": len(items)}
        if len(modules) < 20 or not items:
            rep.violation(f"C19/translator/{cname}", f"{cname}: the cfg translator found only {len(modules)} modules / {len(items)} references", {"crate": cname}, no_input=True)
            continue
        n_refs += len(items)
        # one obligation per reference (so that the first failing one does not hide the others), plus the whole list
        replies = run_lines(drv, [f"cfgcheck {n} {imp} {t}" for t in toks] + [f"cfgcheck {n} {imp} " + " ".join(toks)])
        for ((s, t), ex), r in zip(items, replies):
            if r.startswith("ok 1"):
                n_ok += 1
            else:
                on = [crate.universe[int(k)] for k in r.split("on=")[1].split()] if "on=" in r else []
                suspects.append((cname, tuple(f for f in on if f in FEATURES[cname]), f"{ex}: compiled when {cfg_refs.show(s)}, refers to something compiled only when {cfg_refs.show(t)}", r))
    # ---- (b) builds
    combos = []
    for cname, feats in FEATURES.items():
        if tier == "quick":
            fam = set(pairwise(feats, rng)) | {()} | {(f,) for f in feats} | {tuple(feats)}
            # what users build: one expansion alone, with and without header encryption, with one transport flavour
            if cname == "wow_world_messages":
                for e in ("vanilla", "tbc", "wrath"):
                    for io in ("sync", "tokio", "async-std"):
                        fam.add(tuple(f for f in feats if f in (e, io, "encryption")))
                    fam.add(tuple(f for f in feats if f in (e, "sync")))
        else:
            fam = {tuple(f for f, x in zip(feats, bits) if x) for bits in itertools.product((0, 1), repeat=len(feats))}
        for c, fs, _, _ in suspects:
            if c == cname:
                fam.add(fs)
        combos += [(cname, fs) for fs in sorted(fam)]
    jobs = 8
    results = {}
    with concurrent.futures.ThreadPoolExecutor(max_workers=jobs) as ex:
        slots = list(range(jobs))
        import queue
        q = queue.Queue()
        for s_ in slots:
            q.put(s_)

        def work(cf):
            s_ = q.get()
            try:
                return cf, cargo_check(cf[0], cf[1], s_)
            finally:
                q.put(s_)
        for cf, res in ex.map(work, combos):
            results[cf] = res
    n_build_ok = 0
    for (cname, fs), (rc, errs, tail) in results.items():
        if rc == 0:
            n_build_ok += 1
        else:
            rep.violation(f"C19/build/{cname}/{'+'.join(fs) or 'none'}", f"{cname} does not build with features [{' '.join(fs)}]: {errs[:2]}",
                          {"crate": cname, "features": list(fs), "errors": errs, "log_tail": tail,
                           "replay_cmd": f"cd {REPO} && CARGO_TARGET_DIR=/tmp/c19-replay cargo check --offline -p {cname} --no-default-features --features '{' '.join(fs)}'"})
    for cname, fs, what, r in suspects:
        rc = results.get((cname, fs), (0,))[0]
        if rc == 0:
            # the checker objects but this configuration builds: the reference is not what breaks (or the translator misreads it) — still not shown to hold
            rep.violation(f"C19/cfg-closure/{cname}/{what.split(':')[0]}", f"{cname}: {what} (features {list(fs)}); the configuration itself builds", {"crate": cname, "features": list(fs), "reference": what, "checker": r,
                          "unchecked": "Cfg.checkAll on the extracted references"}, no_input=True)
    # ---- (c) same behaviour in reduced configurations
    rcf, outf, full = harness_build("world")
    variants = [("min-vanilla", "vanilla", ["vanilla"]), ("min-login", "", [])] if tier == "quick" else \
               [("min-vanilla", "vanilla", ["vanilla"]), ("min-tbc", "tbc", ["tbc"]), ("min-wrath", "wrath encryption-only", ["wrath"]), ("min-login", "tokio-only", []), ("min-vt", "vanilla tbc astd-only", ["vanilla", "tbc"])]
    n_cmp = n_same = 0
    beh = {}
    if rcf != 0:
        rep.violation("C19/harness-build", "harness does not build against /repo", {"log": outf[-3000:]}, no_input=True)
    else:
        conts = build_corpus()
        okc = [c for c in conts if "tokens" in c]
        d = Driver()
        pick = [c for c in okc if c["lib"] == "login"] + [okc[rng.below(len(okc))] for _ in range(300 if tier == "quick" else 3000)]
        gen = d.ask_many([f"gen {c['key']} {rng.below(1 << 40)} 3" for c in pick])
        d.close()
        frames = []
        for c, g in zip(pick, gen):
            if g.startswith("ok"):
                body = bytes.fromhex(g.split()[1]) if g.split()[1] != "-" else b""
                dr = directions(c)[0]
                frames.append((libname(c), dr, frame(libname(c), dr, c["opcode"], body)))
        # limits are where configuration-dependent constants would show: one string of the frame at / beyond the published limits and
        # at the next powers of two (reference encoder), for every message with a string member
        import pyenc
        n_lim = 0
        for c in okc:
            nstr = sum(1 for t in c["tokens"] if t in ("cstring", "sizedcstring", "string"))
            if not nstr or (tier == "quick" and c["lib"] not in ("vanilla", "login")):
                continue
            for k_ in range(min(nstr, 2 if tier == "quick" else 4)):
                for n_ in (256, 257, 1000, 4096, 4097) + ((255, 300, 8000, 8001, 65535) if tier != "quick" else ()):
                    try:
                        body = pyenc.encode(c["tokens"], rng, 1, None, strlen=(k_, n_))
                        frames.append((libname(c), directions(c)[0], frame(libname(c), directions(c)[0], c["opcode"], body)))
                        n_lim += 1
                    except (pyenc.Unsupported, OverflowError, ValueError):
                        continue
        r = corpus_mod.Resolver()
        for lib, dr, bs, name in test_vectors(r.objs):
            frames.append((lib, dr, bs))
            if len(bs) > 3:
                frames.append((lib, dr, bs[:-1]))
                frames.append((lib, dr, bs[:2] + bytes([bs[2] ^ 0x40]) + bs[3:]))
        for vname, feats, exps in variants:
            rcv, outv, binv = harness_build("world", features=feats or None, variant=vname, no_default=True)
            if rcv != 0:
                rep.violation(f"C19/reduced-build/{vname}", f"the harness does not build in the reduced configuration [{feats}]", {"features": feats, "log": outv[-3000:],
                              "replay_cmd": f"cd /verif/harness/world && cargo build --offline --no-default-features --features '{feats}'"})
                continue
            sel = [f for f in frames if f[0] in exps or f[0].startswith("login")]
            reqs = [f"codec {lib} {dr} {b.hex() or '-'}" for lib, dr, b in sel]
            a = run_parallel(full, reqs, jobs=8)
            b = run_parallel(binv, reqs, jobs=8)
            same = 0
            for rq, x, y in zip(reqs, a, b):
                n_cmp += 1
                if x == y:
                    same += 1
                    n_same += 1
                else:
                    rep.violation(f"C19/behaviour/{vname}/{rq.split()[1]}", f"a codec answers differently in the configuration [{feats or 'sync only'}] than with all features: '{y[:120]}' vs '{x[:120]}'",
                                  {"features": feats, "request": rq[:4000], "all_features": x[:600], "reduced": y[:600], "replay_cmd": f"echo '{rq[:8000]}' | {binv}; echo '{rq[:8000]}' | {full}"})
            beh[vname] = {"frames": len(reqs), "same": same}
    rep.coverage = {
        "obligations": po["obligations"] + n_refs, "discharged": po["discharged"] + n_ok,
        "checker_cmd": "cd /verif/lean && lake build WowVerif.Thm.C19 && lake env lean WowVerif/Thm/C19.lean; python3 /verif/tools/cfg_refs.py",
        "trusted_base": TRUSTED_BASE_COMMON + ["tools/cfg_refs.py (module tree, cfg attribute scopes, `crate::`/optional-dependency path references; references through `use` aliases, `super::` and macros are not followed — those are covered only by the builds)",
                                               "rustc / cargo as the judge of `builds`", "Cargo feature unification across the workspace is avoided by checking one package at a time with --no-default-features"],
        "theorems": po["theorems"], "cfg_references": raw_refs, "cfg_guard_pairs": n_refs, "cfg_guard_pairs_ok": n_ok, "per_crate": per_crate,
        "evaluations": len(combos) + n_cmp + n_refs, "distinct_nontrivial": len(combos), "feature_sets_built": len(combos), "feature_sets_ok": n_build_ok,
        "feature_sets_by_crate": dict(collections.Counter(c for c, _ in combos)), "behaviour_comparisons": beh,
        "rule": ("quick: pairwise-covering family + none + singles + all per library" if tier == "quick" else "the full feature powerset of every library") + "; reduced-configuration harness builds compared with the all-features build on generated frames and (mutated) test vectors",
        "samples": [{"crate": c, "features": list(fs), "rc": results[(c, fs)][0]} for c, fs in combos[:3]],
    }
    rep.assumptions = ["`clippy -D warnings` of the release gate is not reproduced: a configuration counts as building when `cargo check` succeeds",
                       "auxiliary crates (wow_items, wow_spells, wow_world_base's serde/chrono dependencies) are checked through the feature sets listed only"]
    return rep.finish()
