"""C01 — every message decodes from and re-encodes to the bytes its wowm definition says.

Theorems (WowVerif/Thm/C01.lean): for EVERY closed container and EVERY value, the specification semantics
(Model/Sem.lean) decodes its own encoding back to the value and consumes exactly the encoding (decode_encode, prefix
form for structs inside streams) — so "the canonical encodings of a definition" is a well-defined, uniquely readable set.
Tie: (a) the corpus is re-translated from the wowm sources on every run (tools/wowm.py + tools/corpus.py) into the
model's closed syntax; (b) for every version-expanded message the driver generates canonical encodings (structure
directed: every if / else-if / else arm, enumerators, flag subsets, array lengths, optional present/absent), the frames
are fed to the libraries' public opcode readers and written back; bytes, consumed length and names must agree;
(c) static, code side: tools/rust_codec.py translates every generated Rust reader of the current tree into the same closed syntax and the
Lean driver decides `readerMatches` (Model/SemNorm.lean, Thm/C01b.lean) against the definition's program for every message."""
import sys, os, re, collections
sys.path.insert(0, os.path.join(os.path.dirname(__file__), "..", "lib"))
from semcorr import *

PID = "C01"


def parse_tokens(toks):
    """token stream of tools/corpus.py -> nested python structure (members list)"""
    pos = [0]

    def ty():
        t = toks[pos[0]]
        if t in ("int",):
            pos[0] += 3
            return ("leaf",)
        if t in ("bool", "lvl", "prim"):
            pos[0] += 2
            return ("leaf",)
        if t == "enum":
            n = int(toks[pos[0] + 3])
            pos[0] += 4 + n
            return ("leaf",)
        if t in ("datetime", "cstring", "sizedcstring", "string", "packedguid"):
            pos[0] += 1
            return ("leaf",)
        if t == "struct":
            pos[0] += 1
            return ("struct", members())
        if t in ("arrf", "arrv"):
            pos[0] += 2
            return ("arr", ty())
        raise ValueError(t)

    def cond():
        t = toks[pos[0]]
        if t == "ne":
            pos[0] += 2
            return "ne"
        n = int(toks[pos[0] + 1])
        pos[0] += 2 + n
        return t

    def members():
        out = []
        while toks[pos[0]] != "end":
            t = toks[pos[0]]
            if t == "f":
                role = toks[pos[0] + 2]
                pos[0] += 4 if role == "c" else 3
                out.append(("f", role, ty()))
            elif t == "fe":
                pos[0] += 2
                out.append(("fe", ty()))
            elif t == "if":
                n = int(toks[pos[0] + 2])
                pos[0] += 3
                arms = []
                for _ in range(n):
                    c = cond()
                    arms.append((c, members()))
                els = members()
                out.append(("if", arms, els))
            elif t == "opt":
                pos[0] += 1
                out.append(("opt", members()))
            else:
                raise ValueError(t)
        pos[0] += 1
        return out
    return members()


def flag_group_with_variable_size(ms):
    """a flag `if` (x & A) that is an if / else-if chain, or whose arm contains a nested if: the shapes for which the
    printer emits a wrong constant size for the synthesised flag struct's enumerator"""
    for m in ms:
        if m[0] == "if":
            arms, els = m[1], m[2]
            if arms[0][0] == "and" and (len(arms) >= 2 or any(x[0] == "if" for _, a in arms for x in a)):
                return True
            if any(flag_group_with_variable_size(a) for _, a in arms) or flag_group_with_variable_size(els):
                return True
        elif m[0] == "f" and m[2][0] in ("struct", "arr"):
            t = m[2]
            while t[0] == "arr":
                t = t[1]
            if t[0] == "struct" and flag_group_with_variable_size(t[1]):
                return True
        elif m[0] == "opt" and flag_group_with_variable_size(m[1]):
            return True
    return False


def has_flag_elseif(tokens):
    return flag_group_with_variable_size(parse_tokens(tokens))


def endless_after_if(tokens):
    return "fe" in tokens and "if" in tokens[:tokens.index("fe")]


def classify(c, fr, h):
    toks = c["tokens"]
    if h.startswith("abort write-panic") and "assertion" in h and has_flag_elseif(toks):
        return "C01/declared-size/flag-enumerator-constant", True
    if h.startswith("err buffer") and endless_after_if(toks):
        return "C01/endless-array-after-if/current_size", True
    if h.startswith("ok") and h.split()[1] == fr.hex() and c["lib"] == "login" and " c " in " ".join(toks) and "if" in toks:
        return "C01/login/constant-in-else-branch-not-consumed", True
    kind = h.split()[0] + "-" + (h.split()[1] if len(h.split()) > 1 and not h.startswith("ok") else "mismatch")
    return f"C01/{c['key']}/{kind}", False


def run(tier, seed):
    rep = Report(PID, tier, seed, "proof")
    po = proof_obligations("WowVerif.Thm.C01", ["wowdrv"])
    add_proof_failures(rep, po)
    # C01b / C01c: the per-enumerator normal form is the same decoder (expand_decode); what `progeq = same` means for the translated
    # Rust reader (reader_decodes_as_spec, reader_reads_canonical)
    for mod_ in ("WowVerif.Thm.C01b", "WowVerif.Thm.C01c", "WowVerif.Thm.C01d", "WowVerif.Thm.C01e", "WowVerif.Thm.C07b"):
        po_b = proof_obligations(mod_)
        add_proof_failures(rep, po_b)
        po = dict(po, theorems=dict(po["theorems"], **po_b["theorems"]), obligations=po["obligations"] + po_b["obligations"], discharged=po["discharged"] + po_b["discharged"])
    conts = build_corpus(expanded=True)
    # ---- code side, static: every generated Rust reader, translated on this run, must be the normal form of its definition
    import readertie
    tie_pairs = readertie.compute()
    tie_cov = readertie.report(rep, PID, tie_pairs)
    # T-gen for the hand-written codecs of the built-in types: the parameters of the model's codecs (`primKind`) against reader, writer and size()
    import manual_codecs
    manual = manual_codecs.check()
    for it in manual:
        if it["differences"]:
            rep.violation(f"C01/manual-codec/{it['type']}", f"{it['file']}: the hand-written codec of {it['type']} is not the codec the semantics uses: " + "; ".join(it["differences"]),
                          dict(it, theorem="WowVerif.Sem.rtPrim (Lemmas/SemLeaf.lean) is about the model's codec"), no_input=True)
    rc, out, har = harness_build("world")
    if rc != 0:
        rep.violation("C01/harness-build", "harness does not build against /repo", {"log": out[-3000:]}, no_input=True)
        rep.coverage = {"obligations": po["obligations"], "discharged": 0, "checker_cmd": "lake build WowVerif.Thm.C01", "trusted_base": TRUSTED_BASE_COMMON}
        return rep.finish()
    ok = [c for c in conts if "tokens" in c]
    uns = [c for c in conts if "tokens" not in c]
    d = Driver()
    ns = 6 if tier == "quick" else 48
    reqs, meta = [], []
    for c in ok:
        # directed part: twice the largest number of values any one condition chain compares a variable with (+ "none of them"),
        # so that every if / else-if / else arm is taken; random part: ns further samples
        toks = c["tokens"]
        ncond = 0
        for i, t in enumerate(toks):
            if t in ("eq", "and") and i + 1 < len(toks) and toks[i + 1].isdigit():
                ncond += int(toks[i + 1])
            elif t == "ne":
                ncond += 1
        directed = min(2 * (ncond + 2), 64) if ncond else 0
        for s in range(directed + ns):
            reqs.append(f"gen {c['key']} {(seed * 1000003 + s * 7919 + 1) % (1 << 62)} {4 if s % 3 else 9} {s if s < directed else 1000000}")
            meta.append(c)
        if "arrv" in toks:
            # counted arrays with exactly 255 / 256 / 257 elements: the boundaries of a one-byte count (narrower than many count fields)
            for L_ in (255, 256, 257):
                reqs.append(f"gen {c['key']} {(seed * 1000003 + L_) % (1 << 62)} {1000 + L_} 1000000")
                meta.append(c)
    gen = d.ask_many(reqs)
    d.close()
    unsupported = collections.Counter()
    hreq, hmeta = [], []
    distinct = set()
    for c, g in zip(meta, gen):
        if g.startswith("unsupported") or not g.startswith("ok"):
            unsupported[(c["key"], g)] += 1
            continue
        body = bytes.fromhex(g.split()[1]) if g.split()[1] != "-" else b""
        for dr in directions(c):
            if len(body) > (10000 if dr == "client" else 60000):
                continue            # beyond what the header / the client size cap can carry (long arrays of large elements)
            fr = frame(libname(c), dr, c["opcode"], body)
            if (c["key"], dr, fr) in distinct:
                continue
            distinct.add((c["key"], dr, fr))
            hreq.append(f"codec {libname(c)} {dr} {fr.hex()}")
            hmeta.append((c, dr, fr))
    # ---- second stream: messages that mention built-in types outside the Lean semantics (MonsterMoveSplines, mask types, NamedGuid,
    # VariableItemRandomProperty).  Their canonical frames come from the python reference encoder tools/pyenc.py, which is itself
    # cross-checked against the Lean decoder on messages inside the semantics in this run.
    import pyenc
    prng = SplitMix64(seed ^ 0xC01)
    n_prim_frames = 0
    prim_unsupported = collections.Counter()
    for c in ok:
        if "prim" not in c["tokens"]:
            continue
        for s_ in range(14 if tier == "quick" else 80):
            try:
                body = pyenc.encode(c["tokens"], prng, (0, 1, 3, 5)[s_ % 4], s_ if s_ < 10 else None)
            except pyenc.Unsupported as e:
                prim_unsupported[str(e)] += 1
                break
            except (OverflowError, ValueError):
                continue
            for dr in directions(c):
                fr = frame(libname(c), dr, c["opcode"], body)
                if len(fr) > 60000 or (c["key"], dr, fr) in distinct:
                    continue
                distinct.add((c["key"], dr, fr))
                hreq.append(f"codec {libname(c)} {dr} {fr.hex()}")
                hmeta.append((c, dr, fr))
                n_prim_frames += 1
    # ---- boundary-length stream: "re-encodes to the same bytes" includes the header the writer chooses.  Messages that are one endless byte
    # array (SMSG/CMSG_WARDEN_DATA in every expansion) are sent with the body lengths that put the header's size field on either side of
    # 0x7FFF / 0x8000 (where the Wrath server header grows to 3 size bytes) and, for Wrath server messages, of 0xFFFF / 0x10000
    n_boundary = 0
    for c in ok:
        if c["lib"] == "login" or c["tokens"][0] != "fe" or c["tokens"][2:] != ["int", "1", "le", "end"]:
            continue
        for dr in directions(c):
            oplen = 4 if dr == "client" else 2
            fields = [0x7FFD, 0x7FFE, 0x7FFF, 0x8000, 0x8001, 0x8002] + ([0xFFFF, 0x10000, 0x10001] if (libname(c) == "wrath" and dr == "server") else [])
            for fld in fields:
                body = bytes((prng.below(256) for _ in range(64))) * ((fld - oplen) // 64 + 1)
                fr = frame(libname(c), dr, c["opcode"], body[:fld - oplen])
                distinct.add((c["key"], dr, fr))
                hreq.append(f"codec {libname(c)} {dr} {fr.hex()}")
                hmeta.append((c, dr, fr))
                n_boundary += 1
    xq, xm = [], []
    plain = [c for c in ok if "prim" not in c["tokens"]]
    for _ in range(300 if tier == "quick" else 3000):
        c = plain[prng.below(len(plain))]
        try:
            b_ = pyenc.encode(c["tokens"], prng, 3, prng.below(12))
        except (pyenc.Unsupported, OverflowError, ValueError):
            continue
        xq.append(f"dec {c['key']} {b_.hex() or '-'}")
        xm.append((c, b_))
    d2 = Driver()
    xo = d2.ask_many(xq)
    d2.close()
    n_x = 0
    for (c, b_), o in zip(xm, xo):
        if o.startswith("ok") and o.split()[1] == (b_.hex() or "-"):
            n_x += 1
        else:
            rep.violation(f"C01/reference-encoder/{c['key']}", f"the python reference encoder and the Lean decoder disagree on {c['key']}: '{o[:100]}'", {"container": c["key"], "bytes": b_.hex()[:2000], "model": o[:300]}, no_input=True)
    ho = run_parallel(har, hreq, jobs=12)
    n_ok = 0
    known_hits = collections.Counter()
    for (c, dr, fr), rq, h in zip(hmeta, hreq, ho):
        if h.startswith("ok") and h.split()[1] == fr.hex() and f"consumed={len(fr)} " in h + " ":
            n_ok += 1
            continue
        key, known_shape = classify(c, fr, h)
        rep.violation(key, f"{c['key']} ({dr}): a canonical encoding of the definition is not read and written back unchanged: {h[:160]}",
                      {"container": c["key"], "wowm": f"{os.path.relpath(c['file'], REPO)}:{c['line']}", "direction": dr, "input_frame_hex": fr.hex(),
                       "implementation": h[:400], "expected": f"ok {fr.hex()[:80]}... consumed={len(fr)}", "replay_cmd": f"echo '{rq[:20000]}' | {har}"})
    # ---- probe of a recorded finding: packed spline points.  The model treats the packed u32 of a MonsterMoveSplines point as opaque
    # bits (Model/Sem.lean `encSplines`); the library converts it to floats by INTEGER division by 4 (util/functions/shared.rs
    # packed_to_vector3d) and so drops the two low bits of every component: such a message is not written back as it was read.  The
    # generated values avoid those bits (Model/SemIO.lean genPrim); here one witness per message demonstrates the finding.
    sp_req, sp_meta = [], []
    dsp = Driver()
    for c in ok:
        if "MonsterMoveSplines" not in c["tokens"] or c["tokens"][-3:-1] != ["prim", "MonsterMoveSplines"]:
            continue
        for s_ in range(40):
            g_ = dsp.ask(f"gen {c['key']} {seed * 31 + s_} 3 1000000")
            if not g_.startswith("ok") or g_.split()[1] == "-":
                continue
            body = bytearray.fromhex(g_.split()[1])
            # splines are the last member: count, 12-byte first point, 4 bytes per further point
            if len(body) >= 24 and body[-4:] != b"\x00\x00\x00\x00" or len(body) >= 24:
                cnt_pos = None
                for k_ in range(len(body) - 20, -1, -1):
                    n_ = int.from_bytes(body[k_:k_ + 4], "little")
                    if n_ >= 2 and k_ + 4 + 12 + 4 * (n_ - 1) == len(body):
                        cnt_pos = k_
                        break
                if cnt_pos is None:
                    continue
                body[-4:] = (1).to_bytes(4, "little")          # x = one quarter unit
                dr = directions(c)[0]
                fr = frame(libname(c), dr, c["opcode"], bytes(body))
                sp_req.append(f"codec {libname(c)} {dr} {fr.hex()}")
                sp_meta.append((c, dr, fr))
                break
    dsp.close()
    sp_out = run_parallel(har, sp_req, jobs=4) if sp_req else []
    for (c, dr, fr), rq, h in zip(sp_meta, sp_req, sp_out):
        if h.startswith("ok") and h.split()[1] != fr.hex() and bytes.fromhex(h.split()[1])[:-4] == fr[:-4]:
            rep.violation("C01/spline/packed-point-quarter-units-lost", f"{c['key']} ({dr}): a packed spline point with a quarter-unit component (…01000000) is read and written back as …{h.split()[1][-8:]}",
                          {"container": c["key"], "direction": dr, "input_frame_hex": fr.hex(), "implementation": h[:600], "replay_cmd": f"echo '{rq[:20000]}' | {har}"})
        elif not (h.startswith("ok") and h.split()[1] == fr.hex()):
            rep.violation(f"C01/{c['key']}/spline-probe", f"{c['key']} ({dr}): the spline probe frame is not handled as expected: {h[:160]}", {"container": c["key"], "input_frame_hex": fr.hex(), "implementation": h[:600]})
    # ---- fourth stream: dictionary values.  Hand-written conversions of built-in scalar types (Population, DateTime, ...) treat particular
    # numbers specially; the numeric literals of those sources, and their neighbours as f32 bit patterns / integers, are put into every
    # wide-enough plain integer field (T-gen of the dictionary: tools/pyenc.literal_pool); read -> write must still be the identity
    dreq_, dmeta_ = [], []
    pool_login = pyenc.literal_pool(REPO, "login")
    pool_world = pyenc.literal_pool(REPO, "world")
    if tier == "quick" and len(pool_world) > 8000:
        pool_world = sorted({pool_world[prng.below(len(pool_world))] for _ in range(8000)})
    has_int4 = lambda c: any(c["tokens"][k] == "int" and c["tokens"][k + 1] in ("4", "8") for k in range(len(c["tokens"]) - 1))
    lg = [c for c in plain if c["lib"] == "login" and has_int4(c)]
    wd = [c for c in plain if c["lib"] != "login" and has_int4(c)]
    jobs_ = [(c, v) for c in lg for v in pool_login] + [(wd[prng.below(len(wd))], v) for v in pool_world for _ in range(1 if tier == "quick" else 4)]
    for c, v in jobs_:
        try:
            body = pyenc.encode(c["tokens"], prng, 1, None, intval=v)
        except (pyenc.Unsupported, OverflowError, ValueError):
            continue
        for dr in directions(c)[:1]:
            fr = frame(libname(c), dr, c["opcode"], body)
            dreq_.append(f"codec {libname(c)} {dr} {fr.hex()}")
            dmeta_.append((c, dr, fr, v))
    do_ = run_parallel(har, dreq_, jobs=12) if dreq_ else []
    n_dict_ok = 0
    for (c, dr, fr, v), rq, h in zip(dmeta_, dreq_, do_):
        if h.startswith("ok") and h.split()[1] == fr.hex() and f"consumed={len(fr)} " in h + " ":
            n_dict_ok += 1
            continue
        if not h.startswith("ok"):
            continue          # the value is outside a field's domain (enum-like alias, DateTime): rejection is C04's subject, silence is not
        key, known_shape = classify(c, fr, h)
        rep.violation(key if known_shape else f"C01/dictionary-value/{c['key']}", f"{c['key']} ({dr}): with the dictionary value {v} ({v:#x}) in its integer fields the message is read but written back differently: {h[:160]}",
                      {"container": c["key"], "direction": dr, "value": v, "input_frame_hex": fr.hex(), "implementation": h[:400], "replay_cmd": f"echo '{rq[:20000]}' | {har}"})
    # ---- third stream: compressed members / compressed bodies (u32 decompressed size + zlib stream).  Frames from the reference encoder;
    # read -> write must reproduce every byte outside the zlib stream (except the header's size field) and the same decompressed payload
    import zlib

    def zsplit(fr):
        for k in range(len(fr) - 2, 3, -1):
            if fr[k] == 0x78:
                try:
                    pay = zlib.decompress(fr[k:])
                except zlib.error:
                    continue
                if int.from_bytes(fr[k - 4:k], "little") == len(pay):
                    return fr[:k], pay
        return None

    def zsplit_loose(fr):
        """like zsplit, but the size field in front of the stream need not be the payload's length (what a writer with a wrong size() emits)"""
        for k in range(8, len(fr) - 2):
            if fr[k] == 0x78:
                try:
                    return fr[:k], zlib.decompress(fr[k:])
                except zlib.error:
                    continue
        return None

    zreq, zmeta = [], []
    n_zbig = 0
    for c in conts:
        toks = c.get("ztokens") or c.get("zmsg_tokens")
        if toks is None:
            continue
        # … and payloads that are LARGE after decompression but small on the wire (constant field values compress well): arrays of exactly
        # 3000 .. 70000 elements, so that the decompressed size crosses 2^16 (the frame's own limit says nothing about the payload's size)
        big = (3000, 70000) if tier == "quick" else (3000, 9000, 17000, 33000, 70000, 140000)
        for s_ in list(range(12 if tier == "quick" else 120)) + [("big", ml) for ml in big]:
            try:
                if isinstance(s_, tuple):
                    body = pyenc.encode(toks, prng, s_[1], None, maximal=True, intval=1)
                    cap = (10240 if directions(c)[0] == "client" else 0xFFFF) - 16      # also in Wrath: the published limit of an endless (here: compressed) member is 65 535 bytes on the wire
                    zb = (4 + len(zlib.compress(body))) if "zmsg_tokens" in c else len(body)
                    if zb > cap:
                        continue
                    n_zbig += 1
                else:
                    body = pyenc.encode(toks, prng, (1, 2, 3, 8)[s_ % 4], s_ if s_ < 8 else None)
            except pyenc.Unsupported as e:
                prim_unsupported[str(e)] += 1
                break
            except (OverflowError, ValueError):
                continue
            if "zmsg_tokens" in c:
                body = len(body).to_bytes(4, "little") + zlib.compress(body)
            for dr in directions(c):
                fr = frame(libname(c), dr, c["opcode"], body)
                zreq.append(f"codec {libname(c)} {dr} {fr.hex()}")
                zmeta.append((c, dr, fr))
    # … and compressed BODIES whose payload comes from the Lean model (Thm/C01e.lean zbody_roundtrip: the inner container's encoding behind a u32 size, for
    # any compressor with decomp (comp p) = p): the inner containers are loaded as `Z|key`, their canonical encodings generated by the semantics
    # (update masks, splines included), compressed here and framed
    zin = [c for c in conts if "zmsg_tokens" in c]
    n_zlean = 0
    if zin:
        zpath = os.path.join(CACHE, "zinner.txt")
        with open(zpath, "w") as f_:
            for c in zin:
                f_.write(f"container Z|{c['key']} {c['opcode']} {' '.join(c['zmsg_tokens'])}\n")
        dz = Driver()
        dz.ask(f"load {zpath}")
        zl_req = [(c, f"gen Z|{c['key']} {prng.below(1 << 40)} {(0, 1, 2, 3, 5, 9)[k % 6]}") for c in zin for k in range(12 if tier == "quick" else 200)]
        zl_out = dz.ask_many([q for _, q in zl_req])
        dz.close()
        for (c, q), o in zip(zl_req, zl_out):
            if not o.startswith("ok"):
                continue
            pay = bytes.fromhex(o.split()[1]) if len(o.split()) > 1 and o.split()[1] != "-" else b""
            if not pay:
                continue          # the empty payload is the known finding C01/compressed/empty-payload (probed by the reference stream above)
            body = len(pay).to_bytes(4, "little") + zlib.compress(pay)
            for dr in directions(c):
                fr = frame(libname(c), dr, c["opcode"], body)
                zreq.append(f"codec {libname(c)} {dr} {fr.hex()}")
                zmeta.append((c, dr, fr))
                n_zlean += 1
    zo = run_parallel(har, zreq, jobs=12) if zreq else []
    n_zok = 0
    for (c, dr, fr), rq, h in zip(zmeta, zreq, zo):
        good = False
        a = b = None
        w = b""
        szl = szl_in = 2
        if h.startswith("ok") and f"consumed={len(fr)} " in h + " ":
            a, b = zsplit(fr), zsplit(bytes.fromhex(h.split()[1]))
            w = bytes.fromhex(h.split()[1])
            szl = 3 if (libname(c) == "wrath" and dr == "server" and w[0] & 0x80) else 2
            szl_in = 3 if (libname(c) == "wrath" and dr == "server" and fr[0] & 0x80) else 2        # the input frame may need the large header itself
            size_ok = (int.from_bytes(w[:szl], "big") & 0x7FFFFF if szl == 3 else int.from_bytes(w[:2], "big")) == len(w) - szl
            if a is None:
                good = w == fr          # the branch with the compressed member was not taken: plain byte equality
            else:
                good = b is not None and a[0][szl_in:] == b[0][szl:] and a[1] == b[1] and size_ok
        if good:
            n_zok += 1
        elif h.startswith("ok") and a is not None and w and (b := zsplit_loose(w)) is not None and a[1] == b[1] and a[0][szl_in:-4] == b[0][szl:-4] and a[0][-4:] != b[0][-4:] \
                and has_flag_elseif(c.get("zmsg_tokens") or c.get("ztokens") or []):
            # same fields, same payload — only the announced decompressed size differs: the writer takes it from size() of the contents, which is the wrong
            # constant of the synthesised flag struct (the known finding, here without the size assertion of the plain writers)
            rep.violation("C01/declared-size/flag-enumerator-constant", f"{c['key']} ({dr}): the compressed writer announces {int.from_bytes(b[0][-4:], 'little')} decompressed bytes for a payload of {len(b[1])}",
                          {"container": c["key"], "direction": dr, "input_frame_hex": fr.hex()[:4000], "implementation": h[:600], "replay_cmd": f"echo '{rq[:20000]}' | {har}"})
        elif (zsplit(fr) or (None, None))[1] == b"":
            # decompressed size 0 + the zlib stream of the empty string: what the library's own writer emits for an empty payload
            rep.violation("C01/compressed/empty-payload", f"{c['key']} ({dr}): a compressed part with an empty payload is rejected by the reader: {h[:120]}",
                          {"container": c["key"], "direction": dr, "input_frame_hex": fr.hex()[:4000], "implementation": h[:600], "replay_cmd": f"echo '{rq[:20000]}' | {har}"})
        else:
            rep.violation(f"C01/compressed/{c['key']}", f"{c['key']} ({dr}): a canonical encoding with a compressed part is not read and written back with the same fields and payload: {h[:160]}",
                          {"container": c["key"], "direction": dr, "input_frame_hex": fr.hex()[:4000], "implementation": h[:600], "replay_cmd": f"echo '{rq[:20000]}' | {har}"})
    uns_kinds = collections.Counter(g.split()[1] if len(g.split()) > 1 else g for (_, g) in set(unsupported))
    covered = len({c["key"] for (c, _, _) in hmeta})
    rep.coverage = {
        "obligations": po["obligations"] + tie_cov["readers_compared"], "discharged": po["discharged"] + tie_cov["readers_equal_to_normal_form_of_definition"],
        "checker_cmd": "cd /verif/lean && lake build WowVerif.Thm.C01 WowVerif.Thm.C01b WowVerif.Thm.C01c WowVerif.Thm.C01d && lake env lean WowVerif/Thm/C01d.lean",
        "trusted_base": TRUSTED_BASE_COMMON + ["tools/wowm.py + tools/corpus.py translate the wowm sources into the closed syntax of Model/Sem.lean (independent of wow_message_parser)",
                                               "framing of the generated bodies follows C02's header rules (python)",
                                               "tools/rust_codec.py translates the generated readers (read_inner / read) into the closed syntax: wire operations, loops and conditionals; NOT the value plumbing into the result, the size / allocation guards (C09 / C03), compressed readers or the hand-written readers of built-in types (`prim` leaves on both sides)",
                                               "tools/manual_codecs.py reads pattern widths, slot counts and element layouts of the hand-written mask codecs and the head/tail shape of NamedGuid / VariableItemRandomProperty; the model's codecs for the built-in types (Model/Sem.lean encPrim / decPrim) are hand transcriptions tied by that and by the value stream"],
        "theorems": po["theorems"],
        "reader_tie": tie_cov, "manual_codecs_compared": len(manual), "manual_codecs_equal": sum(1 for it in manual if not it["differences"]),
        "containers_total": len(conts), "containers_exercised": covered,
        "containers_outside_model": {"compressed (translator)": len(uns), **{f"built-in {k}": v for k, v in uns_kinds.items()}},
        "evaluations": len(hreq) + len(zreq), "distinct_nontrivial": len(distinct), "frames_ok": n_ok, "boundary_length_frames": n_boundary, "compressed_stream": {"frames": len(zreq), "ok": n_zok, "large_payloads": n_zbig, "bodies_generated_by_the_lean_model": n_zlean}, "dictionary_stream": {"values_login": len(pool_login), "values_world": len(pool_world), "frames": len(dreq_), "identical": n_dict_ok},
        "builtin_type_stream": {"frames": n_prim_frames, "reference_encoder_cross_checked_against_lean": n_x, "builtins_without_payload_generator": dict(prim_unsupported)},
        "rule": f"per version-expanded message: directed samples in which every steering variable cycles through every value it is compared with (and one it is not) / every single flag mask, none, all — so every if / else-if / else arm is taken — plus {ns} random samples (arrays 0..4 or 0..9 elements); both directions for msg; distinct = distinct (container, direction, frame)",
        "samples": [{"request": hreq[i][:200], "implementation": ho[i][:200]} for i in (0, len(hreq) // 2, len(hreq) - 1)],
    }
    rep.assumptions = ["messages containing compressed members/bodies or the built-ins listed under containers_outside_model are not yet in the generic semantics and are listed, not checked"]
    return rep.finish()
