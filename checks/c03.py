"""C03 — decoding is total: any bytes give a message or an error, never a panic, abort or endless loop (a reply that does not arrive within 15 s is a hang).

Theorems (WowVerif/Thm/C03.lean, specification decoder): decode_total, decMembers_no_growth, iterDec_count,
iterDecAll_count — the specification decoder answers every byte string, never needs more elements than input bytes.
Implementation: fault enumeration.  Seeds = canonical encodings of every message (driver) + every wowm test vector
(covers compressed messages); faults = truncation at every prefix, every aligned 1/2/4-byte window set to 0 / 1 / 2 /
0x7F.. / 0xFF.., header size larger/smaller than the body, random bytes, random frames for every opcode.
Each decode runs under catch_unwind with a counting allocator and RLIMIT_AS; oracle: reply is `ok` or `err`, never a
panic / process abort, and the largest single allocation request stays within 64 x frame + 32 MiB."""
import sys, os, re, collections
sys.path.insert(0, os.path.join(os.path.dirname(__file__), "..", "lib"))
sys.path.insert(0, os.path.join(os.path.dirname(__file__), "..", "tools"))
from semcorr import *
import wowm, rust_reads, rust_flags

PID = "C03"


def BUDGET(n):
    # fixed budget: four times the library's own MAX_ALLOCATION_SIZE_WRATH (8 MiB) + 64 bytes per input byte
    return 64 * n + (32 << 20)


def test_vectors(objs):
    """(lib, dir, bytes, name) for every wowm test"""
    kinds = {}
    for o in objs:
        if o["kind"] in ("cmsg", "smsg", "msg", "clogin", "slogin"):
            kinds.setdefault(o["name"], set()).add(o["kind"])
    out = []
    for t in objs:
        if t["kind"] != "test":
            continue
        try:
            bs = bytes(wowm.parse_int(x) & 0xFF for x in t["bytes"])
        except Exception:
            continue
        ks = kinds.get(t["name"], set())
        libs = []
        for v in t["world"]:
            for e, tv in (("vanilla", (1, 12)), ("tbc", (2, 4, 3)), ("wrath", (3, 3, 5))):
                if wowm.world_covers(v, tv) or wowm.world_covers(tv, v):
                    libs.append(e)
        for v in t["login"]:
            libs += [f"login{x}" for x in ((2, 3, 5, 6, 7, 8) if v == "*" else (v,))]
        for lib in dict.fromkeys(libs):
            for k in ks:
                ds = {"cmsg": ["client"], "clogin": ["client"], "smsg": ["server"], "slogin": ["server"], "msg": ["client", "server"]}[k]
                for dr in ds[:1]:
                    out.append((lib, dr, bs, t["name"]))
    return out


def mutations(fr, hdr_len, rng, tier):
    n = len(fr)
    out = []
    cuts = range(0, n) if n <= (48 if tier == "quick" else 400) else sorted({rng.below(n) for _ in range(32)} | {hdr_len, hdr_len + 1, n - 1})
    for c in cuts:
        out.append(("truncate", fr[:c]))
    step = (1 if n <= 40 else max(1, n // 40)) if tier == "quick" else (1 if n <= 96 else max(1, n // 96))     # thorough: every position of frames up to 96 bytes, 96 positions of longer ones
    for pos in range(hdr_len, n, step):
        for w in (1, 2, 4):
            if pos + w > n:
                continue
            orig = int.from_bytes(fr[pos:pos + w], "little")
            # … and one more / one fewer than the frame really has (a count, length or decompressed size that is off by one)
            for val in (0, 1, (1 << (8 * w)) - 1, (1 << (8 * w - 1)) - 1, 2, (orig + 1) % (1 << (8 * w)), (orig - 1) % (1 << (8 * w))):
                b = bytearray(fr)
                b[pos:pos + w] = val.to_bytes(w, "little")
                if bytes(b) != fr:
                    out.append((f"window{w}", bytes(b)))
    if hdr_len >= 4:
        for delta in (-3, -1, 1, 7, 300):
            f = int.from_bytes(fr[:2], "big") + delta
            if 0 <= f <= 0xFFFF:
                out.append(("header-size", f.to_bytes(2, "big") + fr[2:]))
    for _ in range(4 if tier == "quick" else 16):
        b = bytearray(fr)
        for _ in range(1 + rng.below(4)):
            if n > hdr_len:
                b[hdr_len + rng.below(n - hdr_len)] = rng.below(256)
        out.append(("random", bytes(b)))
    return out


def run(tier, seed):
    rep = Report(PID, tier, seed, "fault_enumeration")
    po = proof_obligations("WowVerif.Thm.C03", ["wowdrv"])
    add_proof_failures(rep, po)
    conts = build_corpus(expanded=True)
    # static, code side: every generated reader must stay inside the statement subset that tools/rust_codec.py translates (calls of the util
    # readers with `?`, guarded allocations, loops, conditionals) and be the normal form of its definition, so that the totality theorem of
    # the specification decoder speaks about its wire operations (Thm/C01c.lean reader_decodes_as_spec + Thm/C03.lean decode_total)
    import readertie
    po_c = proof_obligations("WowVerif.Thm.C01c")
    add_proof_failures(rep, po_c)
    tie_cov = readertie.report(rep, PID, readertie.compute())
    ok = [c for c in conts if "tokens" in c]
    rc, out, har = harness_build("world")
    if rc != 0:
        rep.violation("C03/harness-build", "harness does not build against /repo", {"log": out[-3000:]}, no_input=True)
        rep.coverage = {"evaluations": 1, "distinct_nontrivial": 2, "rule": "harness build failed", "samples": ["-"]}
        return rep.finish()
    rng = SplitMix64(seed)
    d = Driver()
    seeds = []          # (lib, dir, frame, label, hdr_len)
    per = 1 if tier == "quick" else 2
    reqs, meta = [], []
    for c in ok:
        for s in range(per):
            reqs.append(f"gen {c['key']} {rng.below(1 << 40)} 3")
            meta.append(c)
    gen = d.ask_many(reqs)
    d.close()
    for c, g in zip(meta, gen):
        if g.startswith("ok"):
            body = bytes.fromhex(g.split()[1]) if g.split()[1] != "-" else b""
            dr = directions(c)[0]
            fr = frame(libname(c), dr, c["opcode"], body)
            seeds.append((libname(c), dr, fr, c["key"], len(fr) - len(body)))
    r = corpus_mod.Resolver()
    for lib, dr, bs, name in test_vectors(r.objs):
        hl = 1 if lib.startswith("login") else (6 if dr == "client" else 4)
        seeds.append((lib, dr, bs, "test:" + name, hl))
    by_key = {c["key"]: c for c in conts}
    by_op = {}
    for c in conts:
        for dr_ in directions(c):
            by_op[(libname(c), dr_, c["opcode"])] = c

    def mechanism(label, lib, dr):
        c = by_key.get(label)
        if c is None and label.startswith("opcode:"):
            c = by_op.get((lib, dr, int(label.split(":")[1], 16)))
        if c is None and label.startswith("test:"):
            c = next((x for x in conts if x["name"] == label[5:] and libname(x) == lib), None)
        if c is None:
            return "unknown"
        if "tokens" not in c:
            return "compressed"
        toks = c["tokens"]
        if "arrv" in toks:
            return "counted-array-capacity-before-guard"
        if any(t.startswith("MonsterMoveSpline") for t in toks):
            return "spline-count"
        if "prim" in toks:
            return "builtin-" + toks[toks.index("prim") + 1]
        return "other:" + c["name"]

    hreq, hmeta = [], []
    seen = set()
    for lib, dr, fr, label, hl in seeds:
        extra = []
        if lib == "wrath" and dr == "server" and hl == 4 and len(fr) >= 4:
            # the LARGE header form (3 size bytes, top bit set) on a frame that does not need it — readers must take it with the same body size —
            # with the right size and off by one
            sz_ = len(fr) - 2
            for dlt in (0, -1, 1):
                v_ = max(0, sz_ + dlt)
                extra.append(("large-header-form", bytes([0x80 | ((v_ >> 16) & 0x7F), (v_ >> 8) & 0xFF, v_ & 0xFF]) + fr[2:]))
        for kind, b in [("seed", fr)] + extra + mutations(fr, hl, rng, tier):
            key = (lib, dr, b)
            if key in seen:
                continue
            seen.add(key)
            hreq.append(f"dec {lib} {dr} {b.hex() or '-'}")
            hmeta.append((lib, dr, b, label, kind))
    # strings at and beyond the published limits (CString 256, String 255, SizedCString 8000): every message with a string member,
    # every string of the frame 254 / 255 / 256 / 257 / 300 (thorough: also 1000 / 9000) bytes long -- frames from the reference encoder
    import pyenc
    n_strlen = 0
    for c in ok:
        if not ({"cstring", "sizedcstring", "string"} & set(c["tokens"])):
            continue
        nstr = sum(1 for t in c["tokens"] if t in ("cstring", "sizedcstring", "string"))
        for sl in [(k, n) for k in range(min(nstr, 3 if tier == "quick" else 8)) for n in (255, 256, 257, 300) + ((254, 1000, 9000) if tier != "quick" else ())] + [254, 256, 300]:
            try:
                body = pyenc.encode(c["tokens"], rng, 1, None, strlen=sl)
            except pyenc.Unsupported:
                break
            except (OverflowError, ValueError):
                continue
            for dr in directions(c)[:1]:
                try:
                    fr = frame(libname(c), dr, c["opcode"], body)
                except Exception:
                    continue
                if (libname(c), dr, fr) in seen:
                    continue
                seen.add((libname(c), dr, fr))
                hreq.append(f"dec {libname(c)} {dr} {fr.hex()}")
                hmeta.append((libname(c), dr, fr, c["key"], f"strlen{sl[1] if isinstance(sl, tuple) else 'all' + str(sl)}"))
                n_strlen += 1
    rcorp = rust_flags.Corpus()
    for t in rust_reads.opcode_tables(rcorp):
        ops = t["wowm"]
        for o in ops:
            for k_ in range(3 if tier == "quick" else 8):
                body = rng.bytes(rng.below(40) if k_ else 8 + rng.below(32))       # the first frame always has a body past the smallest size guards
                fr = frame(t["exp"], t["dir"], o, body)
                hreq.append(f"dec {t['exp']} {t['dir']} {fr.hex()}")
                hmeta.append((t["exp"], t["dir"], fr, f"opcode:{o:#x}", "random-frame"))
    ho = run_parallel(har, hreq, jobs=16, limit_as=4 << 30, timeout=3000, stall=15)
    classes = collections.Counter()
    kinds = collections.Counter()
    worst_alloc = (0, None)
    for (lib, dr, b, label, kind), hq, h in zip(hmeta, hreq, ho):
        kinds[kind] += 1
        cls = h.split()[0] + (" " + h.split()[1] if h.startswith("err") or h.startswith("abort") else "")
        classes[cls] += 1
        m = re.search(r"maxalloc=(\d+)", h)
        alloc = int(m.group(1)) if m else 0
        if alloc > worst_alloc[0]:
            worst_alloc = (alloc, hq[:120])
        if h.startswith("abort signal") or (not h.startswith("abort") and alloc > BUDGET(len(b))):
            # the process died (allocation failure under RLIMIT_AS) or a single request exceeded the budget
            mech = mechanism(label, lib, dr)
            key = f"C03/unbounded-allocation/{mech}"
            what = f"requests a single allocation of {alloc} bytes (budget {BUDGET(len(b))})" if not h.startswith("abort") else f"kills the process: {h[:120]}"
            rep.violation(key, f"{lib} {dr} {label}: decoding a {len(b)}-byte frame ({kind}) {what}",
                          {"library": lib, "direction": dr, "seed": label, "fault": kind, "input_hex": b.hex(), "max_single_allocation": alloc, "budget": BUDGET(len(b)),
                           "implementation": h[:300], "replay_cmd": f"echo '{hq[:20000]}' | (ulimit -v 4194304; {har})"})
        elif h.startswith("abort hang"):
            rep.violation(f"C03/hang/{mechanism(label, lib, dr)}", f"{lib} {dr} {label}: decoding a {len(b)}-byte frame ({kind}) does not return ({h})",
                          {"library": lib, "direction": dr, "seed": label, "fault": kind, "input_hex": b.hex(), "implementation": h, "replay_cmd": f"echo '{hq[:20000]}' | timeout 15 {har}"})
        elif h.startswith("abort"):
            loc = h.split()[2] if len(h.split()) > 2 else label
            rep.violation(f"C03/panic/{loc}", f"{lib} {dr} {label}: decoding {len(b)} hostile bytes ({kind}) ends in '{h[:160]}'",
                          {"library": lib, "direction": dr, "seed": label, "fault": kind, "input_hex": b.hex(), "implementation": h[:400], "replay_cmd": f"echo '{hq[:20000]}' | {har}"})
    rep.coverage = {
        "evaluations": len(hreq), "distinct_nontrivial": len(seen) + sum(1 for x in hmeta if x[4] == "random-frame"),
        "rule": "seeds: one (thorough: four) canonical frame per version-expanded message + every wowm test vector; faults: every prefix, every 1/2/4-byte window := 0,1,2,max,max/2,original+1,original-1, header size +-, Wrath large header form on small frames, random bytes, random frames per opcode, every string member at 254..300 (thorough ..9000) bytes; distinct = distinct (library, direction, bytes)",
        "seeds": len(seeds), "fault_kinds": dict(kinds), "outcome_classes": dict(classes.most_common(12)), "largest_single_allocation": worst_alloc[0], "largest_allocation_request": worst_alloc[1],
        "spec_theorems": dict(po["theorems"], **po_c["theorems"]), "spec_obligations": po["obligations"] + po_c["obligations"], "spec_discharged": po["discharged"] + po_c["discharged"],
        "reader_tie": tie_cov, "requests_left_unevaluated_after_hangs": sum(1 for h in ho if h.startswith("skipped")),
        "samples": [{"request": hreq[i][:120], "implementation": ho[i][:120]} for i in (1, len(hreq) // 3, len(hreq) // 2, len(hreq) - 1)],
    }
    rep.assumptions = ["allocator behaviour, stack depth and wall-clock are observed (counting allocator, RLIMIT_AS 4 GiB, run timeout), not proved",
                       "the proof part concerns the specification decoder and — through the reader translation (tools/rust_codec.py, progeq) — the wire operations of the generated readers; panics inside the util readers, hand-written built-in readers, allocation and value plumbing are covered by the fault enumeration only"]
    return rep.finish()
