"""C18 — documentation shows each object's definition and examples faithfully.

Theorems (WowVerif/Thm/C18.lean): splitBy_flatten / splitBy_all / splitBy_lengths — cutting a byte sequence at the field
boundaries the definition prescribes yields groups that concatenate to exactly the annotated bytes (the whole example when
the widths add up to its length) and that have the fields' widths.  The field boundaries themselves come from the
specification semantics (Wireshark.trMembers, shared with C17).
Tie (T-gen, independent front end tools/wowm.py): the wowm text of EVERY generated Rust doc comment (```text) and of EVERY
documentation page section (```rust,ignore) is re-parsed and compared — name, kind, opcode, base type, enumerators and
values, member order, types, constants, conditions — with the source object at the quoted file:line; the body table rows
are compared with the member list in order (names, and sizes of fixed-size members); every example's byte groups are
concatenated and compared with a test vector of that message, and — for messages inside the generic semantics — the groups
after the header are compared with the groups the Lean model cuts at the definition's field boundaries."""
import sys, os, re, collections
sys.path.insert(0, os.path.join(os.path.dirname(__file__), "..", "lib"))
sys.path.insert(0, os.path.join(os.path.dirname(__file__), "..", "tools"))
sys.path.insert(0, os.path.dirname(__file__))
from semcorr import *
import wowm, docs

PID = "C18"
FIXED = {"u8": 1, "u16": 2, "u32": 4, "u64": 8, "i8": 1, "i16": 2, "i32": 4, "i64": 8, "f32": 4, "Guid": 8, "Bool": 1, "Bool32": 4, "Gold": 4, "Spell": 4, "Item": 4,
         "Seconds": 4, "Milliseconds": 4, "DateTime": 4, "IpAddress": 4, "Level": 1, "Level16": 2, "Level32": 4, "Spell16": 2, "u48": 6, "Population": 4, "u16_be": 2, "u32_be": 4, "u64_be": 8}


def flat_names(ms, r, target_of):
    """member names in table order: fields, then the members of each conditional arm in order, optional tails"""
    out = []
    for m in ms:
        if m["k"] == "field":
            out.append((m["name"], m["ty"]))
        elif m["k"] == "if":
            for sub in [m["members"]] + [e["members"] for e in m["elseifs"]] + ([m["else"]] if m["else"] is not None else []):
                out += flat_names(sub, r, target_of)
        elif m["k"] == "optional":
            out += flat_names(m["members"], r, target_of)
    return out


def run(tier, seed):
    rep = Report(PID, tier, seed, "translation_validation")
    po = proof_obligations("WowVerif.Thm.C18", ["wowdrv"])
    add_proof_failures(rep, po)
    po2 = proof_obligations("WowVerif.Thm.C17b")      # trace_accounts: the prescribed field list accounts for the whole encoding
    add_proof_failures(rep, po2)
    po = dict(po, theorems=dict(po["theorems"], **po2["theorems"]), obligations=po["obligations"] + po2["obligations"], discharged=po["discharged"] + po2["discharged"])
    objs = wowm.load_tree(os.path.join(REPO, "wow_message_parser/wowm"))
    by_pos = collections.defaultdict(list)
    for o in objs:
        if o["kind"] != "test":
            by_pos[(os.path.relpath(o["file"], REPO), o["line"])].append(o)
    n_obl = n_ok = 0
    covered = set()
    stale = []

    def compare(where, ref, text, what):
        nonlocal n_obl, n_ok
        n_obl += 1
        if ref is None or ref not in by_pos:
            if what == "page":
                stale.append(where)
                n_obl -= 1
                return None
            rep.violation(f"C18/{what}/{where}", f"{where}: the embedded wowm text quotes {ref}, where the sources define no object", {"artefact": where, "quoted": ref}, no_input=True)
            return None
        try:
            got = docs.parse_text(text, where)
        except wowm.ParseError as e:
            rep.violation(f"C18/{what}/{where}", f"{where}: the embedded wowm text does not parse: {e}", {"artefact": where, "text": text[:1500], "error": str(e)})
            return None
        if len(got) != 1:
            rep.violation(f"C18/{what}/{where}", f"{where}: the embedded wowm text contains {len(got)} objects", {"artefact": where, "text": text[:1500]})
            return None
        src = by_pos[ref][0]
        if what == "page" and got[0]["name"] != src["name"]:
            stale.append(where)
            n_obl -= 1
            return None
        covered.add(ref)
        d = docs.first_diff(docs.norm(src), docs.norm(got[0]))
        if d:
            rep.violation(f"C18/{what}/{where}/{src['name']}", f"{where}: the documented definition of {src['name']} differs from the source at {ref[0]}:{ref[1]}: {d}",
                          {"artefact": where, "source": f"{ref[0]}:{ref[1]}", "difference": d, "documented_text": text[:2000]})
            return None
        n_ok += 1
        return src
    # ---- Rust doc comments
    n_rust = 0
    for rel, ref, text in docs.rust_doc_blocks():
        n_rust += 1
        compare(rel, ref, text, "rust-doc")
    # ---- pages
    conts = build_corpus()
    by_file_line = collections.defaultdict(list)
    for c in conts:
        by_file_line[(os.path.relpath(c["file"], REPO), c["line"])].append(c)
    tests_by_name = collections.defaultdict(list)
    for o in objs:
        if o["kind"] == "test":
            try:
                tests_by_name[o["name"]].append(bytes(wowm.parse_int(x) & 0xFF for x in o["bytes"]))
            except Exception:
                pass
    n_pages = n_rows = n_rows_ok = n_ex = n_ex_ok = n_groups_model = n_groups_model_ok = n_ex_compressed = n_ex_compressed_ok = 0
    treq, tmeta = [], []
    for sec in docs.doc_pages():
        n_pages += 1
        where = f"{docs.DOCS}/{sec['page']}#L{sec['ref'][1]}"
        src = compare(where, sec["ref"], sec["text"] or "", "page")
        if src is None or src["kind"] in ("enum", "flag"):
            continue
        # body table: same members, same order, same fixed sizes
        names = flat_names(src["members"], None, None)
        rows = sec["rows"]
        nested = any(m["k"] == "if" and any(x["k"] == "if" for sub in [m["members"]] + [e["members"] for e in m["elseifs"]] + ([m["else"]] if m["else"] is not None else []) for x in sub) for m in src["members"])
        if not rows and (nested or not names or any(k == "unimplemented" for k, _ in src["tags"])):
            continue        # by design the printer gives no table for definitions with nested conditionals, empty or unimplemented bodies
        n_rows += 1
        rnames = [r_[3] for r_ in rows]
        if rnames != [n for n, _ in names]:
            i = next((k for k in range(min(len(rnames), len(names))) if rnames[k] != names[k][0]), min(len(rnames), len(names)))
            rep.violation(f"C18/body-table/{sec['page']}/{src['name']}", f"{where}: the body table lists {rnames[i:i + 3]} where the definition has {[n for n, _ in names][i:i + 3]} (row {i})",
                          {"artefact": where, "table": rnames, "definition": [n for n, _ in names]})
        else:
            bad = None
            for (off, size, ty, nm), (n, t) in zip(rows, names):
                if t["t"] == "name" and t["name"] in FIXED and not t.get("upcast"):
                    m = re.match(r"(\d+)", size)
                    if not m or int(m.group(1)) != FIXED[t["name"]]:
                        bad = (nm, size, FIXED[t["name"]])
                        break
            if bad:
                rep.violation(f"C18/body-table-size/{sec['page']}/{src['name']}", f"{where}: the body table gives member {bad[0]} the size `{bad[1]}`, its type occupies {bad[2]} bytes", {"artefact": where, "member": bad[0]})
            else:
                n_rows_ok += 1
        # examples
        vecs = tests_by_name.get(src["name"], [])
        compressed = any(k == "compressed" for k, _ in src["tags"]) or any(m["k"] == "field" and any(k == "compressed" for k, _ in m["tags"]) for m in src["members"])
        for k, groups in enumerate(sec["examples"]):
            if compressed:
                # message-level compression: the example shows the test vector's bytes as they are; member-level compression: the bytes
                # before the compressed member as they are, then the DEcompressed payload.  No cut against the model (zlib is outside it).
                n_ex_compressed += 1
                import zlib
                allb = bytes(b for g, _ in groups for b in g)
                okz = allb in vecs
                for v in vecs:
                    if okz:
                        break
                    for kz in range(len(v) + 1):
                        if allb[:kz] != v[:kz]:
                            break
                        rest = v[kz:]
                        if rest == b"" and allb[kz:] == b"":
                            okz = True
                            break
                        if rest[:1] == b"\x78":
                            try:
                                if zlib.decompress(rest) == allb[kz:]:
                                    okz = True
                                    break
                            except zlib.error:
                                pass
                if okz:
                    n_ex_compressed_ok += 1
                else:
                    rep.violation(f"C18/example/{sec['page']}/{src['name']}/{k + 1}", f"{where} example {k + 1} (compressed): the annotated byte groups ({len(allb)} bytes) are neither a test vector of {src['name']} nor its prefix followed by the decompressed payload",
                                  {"artefact": where, "example": k + 1, "bytes": allb.hex(), "test_vectors": [v.hex() for v in vecs][:6]})
                continue
            n_ex += 1
            allb = bytes(b for g, _ in groups for b in g)
            if allb not in vecs:
                rep.violation(f"C18/example/{sec['page']}/{src['name']}/{k + 1}", f"{where} example {k + 1}: the annotated byte groups concatenate to {len(allb)} bytes that are not a test vector of {src['name']}",
                              {"artefact": where, "example": k + 1, "bytes": allb.hex(), "test_vectors": [v.hex() for v in vecs][:6]})
                continue
            n_ex_ok += 1
            # groups after the header against the model's cut
            hdr = [g for g in groups if g[1].startswith("size") or g[1].startswith("opcode")]
            body_groups = [g for g in groups if not (g[1].startswith("size") or g[1].startswith("opcode"))]
            cs = [c for c in by_file_line.get(sec["ref"], []) if "tokens" in c]
            if cs:
                body = bytes(b for g, _ in body_groups for b in g)
                treq.append(f"trace {cs[0]['key']} {body.hex() or '-'}")
                tmeta.append((where, k + 1, src["name"], body_groups, cs[0]["key"]))
    d = Driver()
    tout = d.ask_many(treq)
    d.close()
    for (where, k, name, body_groups, key), rq, o in zip(tmeta, treq, tout):
        if not o.startswith("ok"):
            continue
        n_groups_model += 1
        model = o.split("groups=")[1].split(",") if "groups=" in o and o.split("groups=")[1] else []
        model = [bytes.fromhex(x) if x != "-" else b"" for x in model]
        # the annotator prints the length prefix of a string as a group of its own and arrays of plain elements as ONE group:
        # merge a `…length` group with its successor, then every documented group must be a concatenation of whole consecutive
        # fields of the definition (same order, no field split across groups)
        docg = []
        pend = b""
        for g, com in body_groups:
            if com.endswith("length") or com.endswith(".length"):
                pend += bytes(g)
                continue
            docg.append(pend + bytes(g))
            pend = b""
        if pend:
            docg.append(pend)
        # comments of the merged groups; a comment-only line (e.g. `// UpdateMask`) is a marker for the group that follows it
        docc_all = [com for g, com in body_groups if not (com.endswith("length") or com.endswith(".length"))]
        docc, marker = [], ""
        for g, com in zip(docg, docc_all + [""] * (len(docg) - len(docc_all))):
            if not g:
                marker = (marker + " " + com).strip()
                continue
            docc.append((marker + " " + com).strip())
            marker = ""
        docg = [g for g in docg if g]
        mg = [g for g in model if g]
        BUILTIN = ("UpdateMask", "AuraMask", "EnchantMask", "CacheMask", "InspectTalentGearMask", "MonsterMoveSpline", "AchievementDoneArray", "AchievementInProgressArray", "AddonArray", "NamedGuid", "VariableItemRandomProperty")
        j = 0
        okg = True
        bad_at = None
        gi = 0
        while gi < len(docg):
            g = docg[gi]
            j0 = j
            acc = b""
            while j < len(mg) and len(acc) < len(g):
                acc += mg[j]
                j += 1
            if acc == g:
                gi += 1
                continue
            # a built-in type is ONE field of the definition; the annotator shows its parts (block count, mask blocks, values, ...) as
            # groups of their own: from a group whose comment names a built-in type on, consecutive groups may add up to that one field
            if j0 < len(mg) and any(b_ in docc[gi] for b_ in BUILTIN):
                f_ = mg[j0]
                acc2, g2 = b"", gi
                while g2 < len(docg) and len(acc2) < len(f_):
                    acc2 += docg[g2]
                    g2 += 1
                if acc2 == f_:
                    gi, j = g2, j0 + 1
                    continue
            okg, bad_at = False, gi
            break
        if okg and j == len(mg):
            n_groups_model_ok += 1
        else:
            i = bad_at if bad_at is not None else len(docg) - 1
            model = mg
            rep.violation(f"C18/example-groups/{name}/{k}", f"{where} example {k}: byte group {i} is `{docg[i].hex() if i < len(docg) else '-'}` ({body_groups[i][1][:40] if i < len(body_groups) else ''}) but the definition's field at that position covers `{model[i].hex() if i < len(model) else '-'}`",
                          {"artefact": where, "example": k, "documented_groups": [g.hex() for g in docg], "model_groups": [g.hex() for g in model], "model_cmd": f"printf 'load {CORPUS_PATH}\\n{rq}\\n' | {driver_path()}"})
    if stale:
        rep.violation("C18/stale-doc-page-not-removed", f"{len(stale)} documentation pages document objects that the sources no longer define at the quoted place (renamed or removed objects whose page the generator never deletes), e.g. {stale[:3]}",
                      {"pages": stale, "see_also": "C08/stale-doc-page-not-removed"})
    # every generated object is documented
    undocumented = [f"{p[0]}:{p[1]}" for p, os_ in by_pos.items() if p not in covered and any(wowm.is_generated(o) for o in os_)]
    rep.coverage = {
        "programs": n_obl, "disagreements_checked": n_obl - n_ok,
        "obligations": po["obligations"] + n_obl, "discharged": po["discharged"] + n_ok,
        "checker_cmd": "cd /verif/lean && lake build WowVerif.Thm.C18 && lake env lean WowVerif/Thm/C18.lean; python3 /verif/tools/docs.py",
        "trusted_base": TRUSTED_BASE_COMMON + ["tools/wowm.py (independent wowm front end) and tools/docs.py (markdown / doc comment scraping)", "structural equality of the parsed definitions is evaluated in python"],
        "theorems": po["theorems"], "rust_doc_comments": n_rust, "page_sections": n_pages, "definitions_compared": n_obl, "definitions_equal": n_ok,
        "body_tables": n_rows, "body_tables_ok": n_rows_ok, "examples": n_ex, "examples_of_compressed_messages": n_ex_compressed, "examples_of_compressed_messages_equal_to_test_vector_or_its_decompression": n_ex_compressed_ok, "examples_equal_to_a_test_vector": n_ex_ok, "stale_pages": len(stale), "examples_cut_by_model": n_groups_model, "examples_groups_equal": n_groups_model_ok,
        "source_objects_documented": len(covered), "generated_objects_without_documentation": len(undocumented), "undocumented_sample": undocumented[:6],
        "evaluations": n_obl + n_rows + n_ex, "distinct_nontrivial": n_obl,
        "rule": "every ```text block of every generated .rs file and every `Wowm Representation` block of every documentation page; every body table; every example",
        "samples": [{"trace_request": treq[0][:120], "model": tout[0][:160]}] if treq else ["-"],
    }
    rep.assumptions = ["the committed documentation is what the generator emits (C08)", "examples of messages with built-in types outside the generic semantics are compared with the test vectors only"]
    return rep.finish()
