"""C02 — framing is exact: header size/opcode match bytes written; streams stay aligned.

Theorems: WowVerif/Thm/C02.lean (write_ok_partial, read_write, stream; write_aborts_* for the known u16 overflow) about the
code-shaped model Model/Frame.lean — every body length in range, every reader entry point, every finite message sequence.
Tie: (a) constants of util/trait_helpers re-read from the source and compared with the model's; (b) correspondence of
model and implementation on real *_WARDEN_DATA messages: lengths 0..300, every length within +-8 of the header-form and
u16 boundaries, random lengths, both reader entry points, mismatching trailing bytes, random message sequences."""
import sys, os, re
sys.path.insert(0, os.path.join(os.path.dirname(__file__), "..", "lib"))
from vlib import *

PID = "C02"
EXPS = ["vanilla", "tbc", "wrath"]
DIRS = ["server", "client"]
CONSTS = {"SIZE_LENGTH": 2, "SERVER_HEADER_LENGTH": 4, "CLIENT_HEADER_LENGTH": 6, "MINIMUM_SIZE_LENGTH": 2, "MAXIMUM_SIZE_LENGTH": 3,
          "MINIMUM_SERVER_HEADER_LENGTH": 4, "MAXIMUM_SERVER_HEADER_LENGTH": 5, "LARGE_MESSAGE_THRESHOLD": 0x7FFF}


def max_body(exp, d):
    if d == "client":
        return 0xFFFF - 4
    return 0x7FFFFF - 2 if exp == "wrath" else 0xFFFF - 2


def check_frame(exp, d, ln, reply):
    """property oracle on the implementation's own output (independent of the model)"""
    if ln > max_body(exp, d):
        return None
    if not reply.startswith("ok"):
        return f"writing a {ln}-byte body aborted ({reply}) although the header form can express it"
    m = re.match(r"ok hdr=([0-9a-f]*) total=(\d+) bodyok=(\d)", reply)
    hdr = bytes.fromhex(m.group(1)); total = int(m.group(2))
    oplen = 4 if d == "client" else 2
    want_hl = (3 if (exp == "wrath" and d == "server" and ln + 2 > 0x7FFF) else 2) + oplen
    if len(hdr) != want_hl:
        return f"header is {len(hdr)} bytes, the expansion/direction/size requires {want_hl}"
    if m.group(3) != "1" or total != len(hdr) + ln:
        return "the bytes after the header are not the body"
    if want_hl - oplen == 3:
        field = ((hdr[0] & 0x7F) << 16) | (hdr[1] << 8) | hdr[2]
        if not hdr[0] & 0x80:
            return "3-byte size form without the marker bit"
        op = int.from_bytes(hdr[3:], "little")
    else:
        field = (hdr[0] << 8) | hdr[1]
        if exp == "wrath" and d == "server" and hdr[0] & 0x80:
            return "2-byte size form with the 3-byte marker bit set"
        op = int.from_bytes(hdr[2:], "little")
    if field != ln + oplen:
        return f"size field {field} != bytes following the size field {ln + oplen}"
    if op != (0x2e7 if d == "client" else 0x2e6):
        return f"opcode field {op:#x} wrong"
    return None


def run(tier, seed):
    rep = Report(PID, tier, seed, "proof")
    rng = SplitMix64(seed)
    po = proof_obligations("WowVerif.Thm.C02", ["wowdrv"])
    add_proof_failures(rep, po)
    po_b = proof_obligations("WowVerif.Thm.C02b")      # expect_any / expect_stream: the typed helpers asked for any type
    add_proof_failures(rep, po_b)
    po = dict(po, theorems=dict(po["theorems"], **po_b["theorems"]), obligations=po["obligations"] + po_b["obligations"], discharged=po["discharged"] + po_b["discharged"])
    po_c = proof_obligations("WowVerif.Thm.C02c")      # sessions: framing around the body codec (session, aligned, session_code)
    add_proof_failures(rep, po_c)
    po = dict(po, theorems=dict(po["theorems"], **po_c["theorems"]), obligations=po["obligations"] + po_c["obligations"], discharged=po["discharged"] + po_c["discharged"])
    drv = driver_path()
    # ---- T-gen: constants the model shares with the code
    consts_seen = {}
    for f in ["vanilla_tbc.rs", "wrath.rs", "mod.rs"]:
        src = open(os.path.join(REPO, "wow_world_messages/src/util/trait_helpers", f)).read()
        for m in re.finditer(r"pub\(crate\) const (\w+): u\d+ = (0x[0-9A-Fa-f]+|\d+);", src):
            consts_seen[m.group(1)] = int(m.group(2), 0)
    for k, v in CONSTS.items():
        if consts_seen.get(k) != v:
            rep.violation(f"C02/constant/{k}", f"constant {k} is {consts_seen.get(k)} in the source, the model (and theorems) use {v}",
                          {"constant": k, "source": consts_seen.get(k), "model": v}, no_input=True)
    rc, out, har = harness_build("world")
    if rc != 0:
        rep.violation("C02/harness-build", "harness does not build against /repo", {"log": out[-3000:]}, no_input=True)
        rep.coverage = {"obligations": po["obligations"], "discharged": 0, "checker_cmd": "lake build WowVerif.Thm.C02", "trusted_base": TRUSTED_BASE_COMMON}
        return rep.finish()
    # ---- lengths
    bounds = [0x7FFB, 0x7FFF, 0x8000, 0xFFFB, 0xFFFF, 0x10003]
    lens = set(range(0, 301 if tier == "quick" else 2049))
    for bnd in bounds:
        lens |= set(range(bnd - 8, bnd + 9))
    lens |= {rng.below(70000) for _ in range(60 if tier == "quick" else 1500)}
    big = [0x7FFFF0, 0x7FFFFD, 0x100000 + rng.below(1000), 200000 + rng.below(100000)] if tier != "quick" else [0x20000 + rng.below(1000)]
    reqs, meta = [], []
    for exp in EXPS:
        for d in DIRS:
            ls = sorted(lens) + (big if (exp == "wrath" and d == "server") else [])
            for ln in ls:
                reqs.append(f"wframe {exp} {d} {ln} {rng.below(256)}")
                meta.append((exp, d, ln))
    mo = run_parallel(drv, reqs, jobs=12)
    ho = ["abort panic" if x.startswith("abort panic") else x for x in run_parallel(har, reqs, jobs=12)]
    n_abort = 0
    reads, rmeta = [], []
    for (exp, d, ln), rq, a, h in zip(meta, reqs, mo, ho):
        bad = check_frame(exp, d, ln, h)
        if bad:
            n_abort += 1
            key = "C02/u16-total-size-overflow" if (h.startswith("abort") and not (exp == "wrath" and d == "server") and ln + (6 if d == "client" else 4) > 0xFFFF) else f"C02/{exp}-{d}/write"
            rep.violation(key, f"{exp} {d} message with a {ln}-byte body: {bad}", {"input": {"expansion": exp, "direction": d, "body_len": ln}, "implementation": h, "model": a, "replay_cmd": f"echo '{rq}' | {har}"})
        if a != h:
            if not bad:
                rep.violation(f"C02/correspondence/{exp}-{d}/write", f"model and implementation differ on '{rq}' (model '{a[:80]}', impl '{h[:80]}') while the frame satisfies the property",
                              {"request": rq, "model": a, "implementation": h}, no_input=True)
        if h.startswith("ok") and ln <= max_body(exp, d):
            hdr = re.match(r"ok hdr=([0-9a-f]*)", h).group(1)
            for api in ("enum", "expect", "expectother"):
                for (dl, extra) in ((0, 0), (0, 3), (2, 5)):
                    # stream = hdr ++ (ln + dl body bytes) ++ extra: the reader must consume exactly hdr + ln bytes
                    if ln > 70000 and (dl or api != "enum" and extra):
                        continue
                    if api == "expectother" and (dl or ln % 7 not in (0, 3) and ln > 64):
                        continue
                    reads.append(f"rframe {exp} {d} {api} {hdr} {ln + dl} {rng.below(256)} {extra}")
                    rmeta.append((exp, d, api, len(hdr) // 2, ln, dl, extra))
    mo2 = run_parallel(drv, reads, jobs=12)
    ho2 = run_parallel(har, reads, jobs=12)
    for (exp, d, api, hl, ln, dl, extra), rq, a, h in zip(rmeta, reads, mo2, ho2):
        bad = None
        if api == "expectother":
            # the typed helper asked for another message type: opcode error, and exactly the announced bytes consumed
            # (Model/FrameExpect.lean, theorems expect_any / expect_stream)
            mo_ = re.match(r"err opcode (\d+) (\d+) consumed=(\d+)", h)
            if (not mo_ or int(mo_.group(3)) != hl + ln) or a != h:
                rep.violation(f"C02/{exp}-{d}/read-expect-other", f"{exp} {d} expect helper asked for another message type than the {ln}-byte message on the stream: '{h}' (must report the opcode and consume {hl + ln} bytes)",
                              {"input": rq, "implementation": h, "model": a, "replay_cmd": f"echo '{rq}' | {har}"})
            continue
        m = re.match(r"ok op=(\d+) bodylen=(\d+) bodyok=(\d) consumed=(\d+)", h)
        if ln <= 65535:
            if not m:
                bad = f"reader failed ({h}) on a well-formed frame"
            elif int(m.group(2)) != ln or int(m.group(4)) != hl + ln or (dl == 0 and m.group(3) != "1"):
                bad = f"reader returned {m.group(2)} body bytes and consumed {m.group(4)}, the header announces {ln} (+{hl} header)"
        elif m and (int(m.group(2)) != ln or int(m.group(4)) != hl + ln):
            bad = f"reader returned {m.group(2)} body bytes and consumed {m.group(4)}, the header announces {ln}"
        if bad:
            rep.violation(f"C02/{exp}-{d}/read-{api}", f"{exp} {d} {api} reader: {bad}", {"input": rq, "implementation": h, "model": a, "replay_cmd": f"echo '{rq}' | {har}"})
        elif a != h.split(" consumed=")[0] and a != h:
            rep.violation(f"C02/correspondence/{exp}-{d}/read-{api}", f"model and implementation differ on '{rq[:100]}' (model '{a}', impl '{h}')",
                          {"request": rq, "model": a, "implementation": h}, no_input=True)
    # ---- sequences on one stream
    seqs, smeta = [], []
    for exp in EXPS:
        for d in DIRS:
            for api in ("enum", "expect", "expectother"):
                for _ in range(6 if tier == "quick" else 60):
                    k = 1 + rng.below(20)
                    pool = [0, 1, 2, 100, 0x7FFB, 0x7FFC, 0x7FFD, 0x7FFE, 0x7FFF, 0x8000, 40000, 65529]
                    ls = [rng.choice(pool) if rng.below(3) == 0 else rng.below(300) for _ in range(k)]
                    seqs.append(f"seq {exp} {d} {api} {','.join(map(str, ls))}")
                    smeta.append((exp, d, api, ls))
    mo3 = [re.sub(r" skip@", " SKIP@", x) for x in run_parallel(drv, seqs, jobs=12)]
    ho3 = [re.sub(r" skip@", " SKIP@", x) for x in run_parallel(har, seqs, jobs=12)]
    for (exp, d, api, ls), rq, a, h in zip(smeta, seqs, mo3, ho3):
        hl = lambda n: (3 if (exp == "wrath" and d == "server" and n + 2 > 0x7FFF) else 2) + (4 if d == "client" else 2)
        pos, want = 0, "ok"
        for i_, n in enumerate(ls):
            pos += hl(n) + n
            want += f" SKIP@{pos}" if (api == "expectother" and i_ % 2 == 1) else f" {n}@{pos}"
        want += f" end={pos}"
        if h != want:
            rep.violation(f"C02/{exp}-{d}/stream-{api}", f"a concatenation of {len(ls)} written messages does not decode to the same sequence: got '{h[:200]}', want '{want[:200]}'",
                          {"input": rq, "implementation": h, "expected": want, "model": a, "replay_cmd": f"echo '{rq}' | {har}"})
        elif a != h:
            rep.violation(f"C02/correspondence/{exp}-{d}/stream-{api}", f"model and implementation differ on '{rq[:100]}'", {"request": rq, "model": a, "implementation": h}, no_input=True)
    # ---- sessions (Model/Session.lean, Thm/C02c.lean): one stream of ARBITRARY messages of the corpus — canonical values generated by the Lean
    # semantics, frames with opcodes outside the table, frames whose body does not parse — written by the model, read by the model's
    # `readMsg` and by the library's opcode-enum reader until the stream ends; names, positions and the final position must agree, every
    # decoded message must be written back as the bytes it was read from, and reading must go on after an unknown opcode / a bad body
    sys.path.insert(0, os.path.join(os.path.dirname(__file__), "..", "tools"))
    sys.path.insert(0, os.path.dirname(__file__))
    import semcorr as sc_, c01 as c01_
    srng = SplitMix64(seed ^ 0x5E55)
    all_conts = sc_.build_corpus()
    conts = [c for c in all_conts if "tokens" in c and c["lib"] != "login" and "prim" not in c["tokens"]
             and not c01_.has_flag_elseif(c["tokens"]) and not c01_.endless_after_if(c["tokens"])]
    sreq, smeta2 = [], []
    for exp in EXPS:
        for d in DIRS:
            kinds = ("cmsg", "msg") if d == "client" else ("smsg", "msg")
            pool_ = [c for c in conts if c["lib"] == exp and c["kind"] in kinds]
            all_ops = {c["opcode"] for c in all_conts if c["lib"] == exp and c["kind"] in kinds}
            for _ in range(8 if tier == "quick" else 80):
                items = []
                for _k in range(2 + srng.below(10)):
                    r_ = srng.below(10)
                    c = pool_[srng.below(len(pool_))]
                    if r_ < 7:
                        items.append(f"g:{c['key']}:{srng.below(1 << 40)}:{(0, 1, 3, 6)[srng.below(4)]}")
                    elif r_ < 8:
                        op = 0x5000 + srng.below(0x1000)
                        while op in all_ops:
                            op += 1
                        items.append(f"u:{op}:{srng.below(40)}")
                    else:
                        items.append(f"x:{c['key']}:{srng.bytes(srng.below(14)).hex() or '-'}")
                sreq.append(f"session {exp} {d} {','.join(items)}")
                smeta2.append((exp, d))
    dsess = sc_.Driver()
    so = dsess.ask_many(sreq)
    dsess.close()
    hs_req = []
    for (exp, d), rq, o in zip(smeta2, sreq, so):
        hs_req.append(f"mstream {exp} {d} {o.split()[0]}" if o.split() and o.split()[0] != "bad-item" and len(o.split()) > 1 else "noop")
    hs_out = run_parallel(har, hs_req, jobs=12)
    n_sess_ok = n_sess_msgs = n_sess_unknown = n_sess_bad = n_sess_c03 = 0
    for (exp, d), rq, o, hq, h in zip(smeta2, sreq, so, hs_req, hs_out):
        if hq == "noop":
            rep.violation(f"C02/session/model/{exp}-{d}", f"the model cannot build the session '{rq[:200]}': {o[:100]}", {"request": rq, "model": o[:300]}, no_input=True)
            continue
        want = o.split(" ", 1)[1]
        # frames over arbitrary body bytes (`x:` items): the library's readers accept surplus bytes inside a variable-size body (no property
        # forbids that), the specification decoder does not — for those frames only the POSITION after the frame is compared (alignment)
        kinds_ = [it.split(":")[0] for it in rq.split(" ", 3)[3].split(",")]
        def _norm(line):
            toks = line.split()
            if len(toks) != len(kinds_) + 2:
                return line
            return " ".join([toks[0]] + [("x@" + t.rsplit("@", 1)[1]) if k_ == "x" and not t.startswith("io:") else t for k_, t in zip(kinds_, toks[1:-1])] + [toks[-1]])
        if h.startswith("abort") and "x" in kinds_:
            # a frame over arbitrary body bytes can make a generated reader request an absurd allocation before its guard (C03's known finding
            # counted-array-capacity-before-guard) and kill the process.  That is C03's subject: when one of the arbitrary frames alone kills the
            # blocking reader too, the stream is counted, not reported here
            stream_ = bytes.fromhex(hq.split()[-1])
            ends_ = [int(t.rsplit("@", 1)[1]) for t in want.split()[1:-1]]
            starts_ = [0] + ends_[:-1]
            singles = [f"dec {exp} {d} {stream_[a_:b_].hex()}" for k_, a_, b_ in zip(kinds_, starts_, ends_) if k_ == "x"]
            if any(o_.startswith("abort") for o_ in run_lines(har, singles)):
                n_sess_c03 += 1
                continue
        if _norm(h) == _norm(want):
            n_sess_ok += 1
            n_sess_msgs += len(want.split()) - 2
            n_sess_unknown += want.count(" unknown:")
            n_sess_bad += want.count(" bad@")
            continue
        rep.violation(f"C02/{exp}-{d}/session", f"{exp} {d}: one stream of {len(want.split()) - 2} arbitrary messages is not read as the model reads it: library '{h[:300]}', model '{want[:300]}'",
                      {"session": rq, "stream_hex": hq.split()[-1][:20000], "implementation": h[:2000], "model": want[:2000], "replay_cmd": f"echo '{hq[:20000]}' | {har}"})
    # ---- the encrypted variants of every reader/writer at the header-form boundaries (sequences of two messages)
    ereqs, emeta = [], []
    for exp in EXPS:
        for d in DIRS:
            cap = max_body(exp, d) - (2 if not (exp == "wrath" and d == "server") else 0)
            for api in ("enum", "expect", "expectother"):
                for l in [0, 1, 299, 0x7FFA, 0x7FFB, 0x7FFC, 0x7FFD, 0x7FFE, 0x7FFF, 0x8000, 0x8001, 40000] + ([70000] if exp == "wrath" and d == "server" else []):
                    l = min(l, cap)
                    ereqs.append(f"eseq {exp} {d} {api} {rng.bytes(40).hex()} w{l},w3")
                    emeta.append((exp, d, api, l))
    eo = run_parallel(har, ereqs, jobs=12)
    for (exp, d, api, l), rq, h in zip(emeta, ereqs, eo):
        hl = lambda n: (3 if (exp == "wrath" and d == "server" and n + 2 > 0x7FFF) else 2) + (4 if d == "client" else 2)
        if l > 65535:
            continue     # *_WARDEN_DATA itself is limited to 65535 bytes; alignment of larger frames is covered unencrypted above
        want = f"ok hdronly=1 {l}@{hl(l) + l} 3@{hl(l) + l + hl(3) + 3} end={hl(l) + l + hl(3) + 3}"
        if h != want:
            rep.violation(f"C02/{exp}-{d}/encrypted-{api}", f"{exp} {d}: encrypted write / {api} read of a {l}-byte body followed by a second message: '{h[:140]}' (expected '{want}')",
                          {"input": rq, "implementation": h, "expected": want, "replay_cmd": f"echo '{rq}' | {har}"})
    n_known = 0
    # ---- declared size = bytes written, for messages whose size comes from hand-written helpers of built-in types (splines, masks,
    # NamedGuid, …): canonical values from the python reference encoder (cross-checked against the Lean decoder by C01) are read and
    # written back; a writer whose size() disagrees with what it writes aborts on its size assertion
    sys.path.insert(0, os.path.join(os.path.dirname(__file__), "..", "tools"))
    import semcorr, pyenc
    prng = SplitMix64(seed ^ 0xC02)
    breq, bmeta = [], []
    for c in semcorr.build_corpus():
        if "tokens" not in c or "prim" not in c["tokens"]:
            continue
        for s_ in range(10 if tier == "quick" else 60):
            try:
                body = pyenc.encode(c["tokens"], prng, (0, 1, 3)[s_ % 3], s_ if s_ < 8 else None)
            except pyenc.Unsupported:
                break
            except (OverflowError, ValueError):
                continue
            dr = semcorr.directions(c)[0]
            fr = semcorr.frame(semcorr.libname(c), dr, c["opcode"], body)
            if len(fr) < 60000:
                breq.append(f"codec {semcorr.libname(c)} {dr} {fr.hex()}")
                bmeta.append(c)
    bo = run_parallel(har, breq, jobs=8) if breq else []
    n_builtin = 0
    for c, rq, h in zip(bmeta, breq, bo):
        n_builtin += 1
        if h.startswith("abort write-panic"):
            rep.violation(f"C02/declared-size/{c['key']}", f"{c['key']}: writing a decoded canonical message aborts: the declared size differs from the bytes written ({h[:140]})",
                          {"container": c["key"], "input": rq[:8000], "implementation": h[:300], "replay_cmd": f"echo '{rq[:8000]}' | {har}"})
    # ---- compressed messages override all six writers (placeholder header patched after compression): their frames, small and
    # beyond the 3-byte-size boundary of Wrath server messages, written plain and encrypted, must carry a header that announces
    # exactly opcode + body and be read back alone and between two other messages
    import zlib
    zreq, zmeta = [], []
    for c in semcorr.build_corpus():
        toks = c.get("zmsg_tokens") or c.get("ztokens")
        if toks is None:
            continue
        big = "zmsg_tokens" in c and c["kind"] == "smsg"
        for ml in ((1, 3, 40) + ((4800, 5400, 7000) if big else ())) if tier == "quick" else ((0, 1, 2, 3, 10, 40, 200) + ((4400, 4800, 5000, 5200, 5400, 6000, 7000, 9000) if big else ())):
            try:
                body = pyenc.encode(toks, prng, ml, None, maximal=ml > 100)
            except (pyenc.Unsupported, OverflowError, ValueError):
                break
            if "zmsg_tokens" in c:
                body = len(body).to_bytes(4, "little") + zlib.compress(body, 1)
            for dr in semcorr.directions(c):
                lib = semcorr.libname(c)
                try:
                    fr = semcorr.frame(lib, dr, c["opcode"], body)
                except OverflowError:
                    continue          # does not fit the 2-byte size field of this direction
                small = semcorr.frame(lib, dr, 0x1DC if dr == "client" else 0x1DD, b"\x07\0\0\0" + (b"\x01\0\0\0" if dr == "client" else b""))   # CMSG_PING / SMSG_PONG
                zreq.append(f"eseqf {lib} {dr} {prng.bytes(40).hex()} {small.hex()},{fr.hex()},{small.hex()}")
                zmeta.append((c, lib, dr, len(fr)))
    zo = run_parallel(har, zreq, jobs=8) if zreq else []
    n_z = n_z_large = 0
    for (c, lib, dr, flen), rq, h in zip(zmeta, zreq, zo):
        if h.startswith("unreadable") or h.startswith("plain-write-p"):
            continue
        m = re.match(r"ok hdronly=1 plain=(\d+),(\d+),(\d+) (\d+)@(\d+) (\d+)@(\d+) (\d+)@(\d+) end=(\d+)$", h)
        okz = False
        if m:
            a_, b_, c_ = int(m.group(1)), int(m.group(2)), int(m.group(3))
            okz = [int(m.group(5)), int(m.group(7)), int(m.group(9)), int(m.group(10))] == [a_, a_ + b_, a_ + b_ + c_, a_ + b_ + c_]
            if okz and lib == "wrath" and dr == "server":
                # header form follows the size: 3-byte size field exactly when opcode + body exceed 0x7FFF
                okz = (b_ - int(m.group(6)) == (5 if int(m.group(6)) + 2 > 0x7FFF else 4))
        if okz:
            n_z += 1
            n_z_large += int(m.group(2)) > 0x8000
        else:
            rep.violation(f"C02/{lib}-{dr}/compressed-writer/{c['name']}", f"{c['key']}: a compressed message of about {flen} bytes between two small messages is not framed consistently: '{h[:200]}'",
                          {"container": c["key"], "input": rq[:200000], "implementation": h[:600], "replay_cmd": f"echo '{rq[:200000]}' | {har}"})
    rep.coverage = {
        "compressed_message_sequences": n_z, "compressed_frames_above_0x8000": n_z_large,
        "obligations": po["obligations"] + len(CONSTS), "discharged": po["discharged"] + sum(1 for k, v in CONSTS.items() if consts_seen.get(k) == v),
        "checker_cmd": "cd /verif/lean && lake build WowVerif.Thm.C02 WowVerif.Thm.C02b WowVerif.Thm.C02c && lake env lean WowVerif/Thm/C02c.lean",
        "trusted_base": TRUSTED_BASE_COMMON + ["hand transcription of traits/*.rs, util/trait_helpers/*.rs, the header parsing in opcodes.rs and expected.rs (validated by the correspondence)",
                                               "the body codec of *_WARDEN_DATA (u8[-], at most 65535 bytes) is modelled in the driver only for this correspondence"],
        "theorems": po["theorems"], "constants_checked": consts_seen,
        "sessions": {"streams": len(sreq), "agreeing": n_sess_ok, "messages": n_sess_msgs, "unknown_opcode_frames": n_sess_unknown, "unparsable_bodies": n_sess_bad, "streams_left_to_C03 (an arbitrary frame alone aborts the reader: known allocation finding)": n_sess_c03},
        "builtin_type_messages_written": n_builtin, "evaluations": len(reqs) + len(reads) + len(seqs) + len(ereqs), "encrypted_boundary_sequences": len(ereqs), "distinct_nontrivial": len(set(meta)) + len(set(map(str, smeta))),
        "write_requests": len(reqs), "read_requests": len(reads), "sequences": len(seqs), "writes_violating_property": n_abort,
        "rule": "body lengths 0..300 (thorough 0..2048), +-8 around 0x7FFB 0x7FFF 0x8000 0xFFFB 0xFFFF 0x10003, random lengths, large Wrath server bodies; 3 expansions x 2 directions; "
                "each written frame read back through the opcode-enum reader and the expect helper with 0/3 trailing bytes and with 2 surplus body bytes; random sequences of 1-20 messages on one stream",
        "samples": [{"request": reqs[i], "model": mo[i][:80], "implementation": ho[i][:80]} for i in (0, len(reqs) // 2)] + [{"request": seqs[0], "implementation": ho3[0][:200]}],
    }
    rep.assumptions = ["messages other than *_WARDEN_DATA are framed by the same trait code (compressed messages override the writers: see C05/C01)"]
    return rep.finish()
