"""C17 — generated Wireshark dissector code walks every message exactly to its end.

Model (WowVerif/Model/Wireshark.lean): the statement language of the generated `case` bodies and an interpreter `run` that
walks a byte string and returns the (width, encoding) list it consumed and the bytes left; `trMembers`: the (width,
encoding) list the wowm definition prescribes for a value, in definition order.
Theorems (WowVerif/Thm/C17.lean): the interpreter only moves forward and accounts for every byte it consumed
(run_accounts), counted loops and end-of-packet loops unfold as the definition's arrays do (iterN_append / iterWhile_nil),
and for straight-line messages a `true` verdict of the static matcher implies the walk of every canonical encoding
(flat fragment, see Thm/C17.lean).
Tie: T-gen (tools/wireshark_c.py) re-reads parser.txt / enums.txt / imports.txt / register.txt / variables.txt from /repo
(strict: unknown shapes are reported) and the driver interprets every translated program on branch-directed, enumerator-
sweeping and random canonical encodings produced by the specification semantics (and on the wowm test vectors): the walk
must end exactly at the end of the body and its (width, encoding) list must equal the definition's."""
import sys, os, re, collections
sys.path.insert(0, os.path.join(os.path.dirname(__file__), "..", "lib"))
sys.path.insert(0, os.path.join(os.path.dirname(__file__), "..", "tools"))
sys.path.insert(0, os.path.dirname(__file__))
from semcorr import *
import wireshark_c as wsc
from c03 import test_vectors

PID = "C17"


def ws_dirs(tier, rep):
    """the fragments to check: the committed ones (C08 shows that the generator reproduces them byte for byte); the thorough tier
    additionally runs the CURRENT generator on a scratch copy and checks what it emits now"""
    out = [("committed", os.path.join(REPO, wsc.WS_DIR))]
    if tier != "quick":
        import genrun, shutil
        keep = os.path.join(CACHE, "c17-regenerated")
        with genrun.GenScratch() as g:
            g.build()
            r = g.run()
            if r[0] == 0:
                shutil.rmtree(keep, ignore_errors=True)
                shutil.copytree(os.path.join(genrun.SCRATCH, wsc.WS_DIR), keep)
                out.append(("regenerated", keep))
            else:
                rep.violation("C17/generator-run", f"the generator exits with status {r[0]} on a scratch copy of the tree", {"log": str(r[1])[-1500:]}, no_input=True)
    return out


def run(tier, seed):
    rep = Report(PID, tier, seed, "proof")
    po = proof_obligations("WowVerif.Thm.C17", ["wowdrv"])
    add_proof_failures(rep, po)
    po2 = proof_obligations("WowVerif.Thm.C17b")      # trace_accounts: the prescribed field list accounts for the whole encoding
    add_proof_failures(rep, po2)
    po = dict(po, theorems=dict(po["theorems"], **po2["theorems"]), obligations=po["obligations"] + po2["obligations"], discharged=po["discharged"] + po2["discharged"])
    po3 = proof_obligations("WowVerif.Thm.C17c")      # flat_sound / flat_walk: soundness of the static matcher for straight-line messages
    add_proof_failures(rep, po3)
    po = dict(po, theorems=dict(po["theorems"], **po3["theorems"]), obligations=po["obligations"] + po3["obligations"], discharged=po["discharged"] + po3["discharged"])
    po4 = proof_obligations("WowVerif.Thm.C17d")      # walkMs_sound / walk_full / walk_full_dir / walk_full_login: arrays, conditionals, structs, optional tails — fields, branches, end
    add_proof_failures(rep, po4)
    po = dict(po, theorems=dict(po["theorems"], **po4["theorems"]), obligations=po["obligations"] + po4["obligations"], discharged=po["discharged"] + po4["discharged"])
    rng = SplitMix64(seed)
    cov = None
    for label, base in ws_dirs(tier, rep):
        cov = walk(rep, tier, rng, label, base, po) if cov is None else dict(cov, regenerated=walk(rep, tier, rng, label, base, po))
    rep.coverage = cov
    rep.assumptions = ["messages with built-in types outside the generic semantics (update mask, aura mask, splines, addon arrays, compressed payloads) are not walked (counted as unsupported)",
                       "the structural theorem (Thm/C17d.lean walk_full) proves the whole statement for all values of the definitions its matcher accepts (644 of 650 (definition, direction) pairs on the unchanged tree); the five Vanilla messages with built-in types and one login case without a dissector arm are decided on the enumerated encodings only"]
    return rep.finish()


def walk(rep, tier, rng, label, base, po):
    consts = wsc.load_constants(os.path.join(base, "enums.txt"))
    cases = wsc.parse_cases(os.path.join(base, "parser.txt"), consts)
    imports, register, variables = wsc.declarations(base)
    # ---- declarations
    n_decl = n_decl_ok = 0
    for which, d in cases.items():
        for name, (toks, prob, hfs, line, used) in d.items():
            for hf in hfs:
                n_decl += 1
                if hf in imports and hf in register:
                    n_decl_ok += 1
                else:
                    rep.violation(f"C17/declaration/{hf}", f"{name} (parser.txt:{line}) uses {hf}, which is not {'declared in imports.txt' if hf not in imports else 'registered in register.txt'}", {"case": name, "field": hf}, no_input=True)
    ptext = open(os.path.join(base, "parser.txt")).read()
    for v in sorted(set(re.findall(r"&(\w+)\);", ptext)) - {x for x in re.findall(r"&(hf_\w+)", ptext)}):
        n_decl += 1
        if v in variables:
            n_decl_ok += 1
        else:
            rep.violation(f"C17/declaration/var-{v}", f"variable {v} is assigned by ptvcursor_add_ret_uint but not declared in variables.txt", {"variable": v}, no_input=True)
    # ---- programs
    wsfile = os.path.join(CACHE, f"wsprogs-{label}.txt")
    unsupported_cases = collections.Counter()
    with open(wsfile, "w") as f:
        for which, d in cases.items():
            for name, (toks, prob, hfs, line, used) in d.items():
                if toks is None:
                    if "compressed payload" in prob:
                        unsupported_cases["compressed"] += 1
                    else:
                        rep.violation(f"C17/translator/{name}", f"{name} (parser.txt:{line}): statement shape not recognised: {prob}", {"case": name, "line": line, "problem": prob}, no_input=True)
                    continue
                f.write(f"ws {which}:{name} {' '.join(toks)}\n")
    conts = build_corpus()
    d = Driver()
    d.ask(f"load {wsfile}")
    have = {w: set(n for n, v in cases[w].items() if v[0] is not None) for w in cases}
    reqs, meta = [], []
    missing = []
    per_random = 3 if tier == "quick" else 20
    for c in conts:
        if "tokens" not in c:
            continue
        if c["lib"] == "vanilla":
            which, ver = "world", 0
        elif c["lib"] == "login":
            which, ver = "login", c["target"]
        else:
            continue
        nm = c["name"]
        case = nm if nm in cases[which] else re.sub(r"_(Client|Server)$", "", nm)
        if case not in cases[which]:
            missing.append(c["key"])
            continue
        if case not in have[which]:
            continue
        toks = c["tokens"]
        ncond = sum(1 for t in toks if t in ("eq", "ne", "and"))
        nenum = max([int(toks[i + 3]) for i in range(len(toks) - 3) if toks[i] == "enum" and toks[i + 3].isdigit()] + [0])
        dirs = [1] if c["kind"] in ("smsg", "slogin") else [0] if c["kind"] in ("cmsg", "clogin") else [0, 1]
        for s2c in dirs:
            samples = list(range(min(2 * (ncond + 2), 48))) + [500000 + k for k in range(min(nenum, 40))] + [1000000] * per_random
            for k, smp in enumerate(samples):
                reqs.append(f"wsrun {which}:{case} {s2c} {ver} {c['key']} {rng.below(1 << 40)} {(2, 5, 0, 1)[k % 4]} {smp}")
                meta.append((c, case, s2c))
    r = corpus_mod.Resolver()
    by_name = collections.defaultdict(list)
    for c in conts:
        by_name[(libname(c), c["name"])].append(c)
    for lib, dr, bs, name in test_vectors(r.objs):
        if lib == "vanilla" or lib.startswith("login"):
            for c in by_name.get((lib, name), []):
                if "tokens" not in c:
                    continue
                which = "world" if lib == "vanilla" else "login"
                case = name if name in cases[which] else re.sub(r"_(Client|Server)$", "", name)
                if case not in have[which]:
                    continue
                hl = 1 if which == "login" else (6 if dr == "client" else 4)
                reqs.append(f"wsbytes {which}:{case} {1 if dr == 'server' else 0} {c['target'] if which == 'login' else 0} {c['key']} {bs[hl:].hex() or '-'}")
                meta.append((c, case, 1 if dr == "server" else 0))
    out = d.ask_many(reqs)
    # the verified static matcher (Thm/C17c.lean): straight-line definitions are covered for ALL values by `flat_walk`
    pairs = sorted({(f"{'world' if c['lib'] == 'vanilla' else 'login'}:{case}", c["key"], s2c) for (c, case, s2c) in meta})
    flat = d.ask_many([f"wsflat {n} {k}" for n, k, _ in pairs])
    n_flat = n_flat_ok = 0
    flat_bad = []
    for (n, k, s2c), o in zip(pairs, flat):
        if "flat=1" in o:
            n_flat += 1
            # the verified matcher for this direction (direction-wrapped MSG cases: the arm of this direction)
            if ("s2c=1" if s2c else "c2s=1") in o:
                n_flat_ok += 1
            elif not n.startswith("login"):      # login cases sit inside a protocol_version switch: outside the fragment
                flat_bad.append((n, k))
    # the verified STRUCTURAL matcher (Thm/C17d.lean walk_ends / walk_ends_dir): arrays, conditionals, nested structs, optional tails — for every
    # value at once.  Both sides are numbered by field / variable NAME for it (corpus.Resolver(name_ids=True), wireshark_c.NAME_IDS)
    nfile = os.path.join(CACHE, f"wsnamed-{label}.txt")
    need = {k for _, k, _ in pairs}
    rn = corpus_mod.Resolver(name_ids=True)
    wsc.NAME_IDS = True
    try:
        cases_n = wsc.parse_cases(os.path.join(base, "parser.txt"), consts)
    finally:
        wsc.NAME_IDS = False
    with open(nfile, "w") as f:
        for c in rn.containers():
            if "tokens" in c and c["key"] in need:
                f.write(f"container N|{c['key']} {c['opcode']} {' '.join(c['tokens'])}\n")
        for which, dd in cases_n.items():
            for name, (toks, prob, hfs, line, used) in dd.items():
                if toks is not None:
                    f.write(f"ws N|{which}:{name} {' '.join(toks)}\n")
    d.ask(f"load {nfile}")
    ver_of = {c["key"]: c["target"] for (c, case, s2c) in meta if c["lib"] == "login"}
    wm = d.ask_many([f"wsmatch N|{n} N|{k}" + (f" {ver_of[k]}" if k in ver_of else "") for n, k, _ in pairs])
    n_struct_ok = n_struct_new = 0
    struct_bad = []
    flat_by = {(n, k, s2c): ("flat=1" in o and ("s2c=1" if s2c else "c2s=1") in o) for (n, k, s2c), o in zip(pairs, flat)}
    for (n, k, s2c), o in zip(pairs, wm):
        ok_ = "wf=1" in o and (("s2c=1" if s2c else "c2s=1") in o)
        if ok_:
            n_struct_ok += 1
            if not flat_by[(n, k, s2c)]:
                n_struct_new += 1
        else:
            struct_bad.append((n, k, s2c, o))
    d.close()
    classes = collections.Counter()
    per_case = collections.defaultdict(collections.Counter)
    for (c, case, s2c), rq, o in zip(meta, reqs, out):
        cls = o.split()[0] + (" " + o.split()[1] if o.startswith("ok") else "")
        classes[cls] += 1
        per_case[c["key"]][cls] += 1
        if o.startswith("ok same") or o.startswith("unsupported") or o in ("genfail",):
            continue
        if o.startswith("specerr") or o in ("notwf", "encfail", "tracefail"):
            continue
        if o.startswith("wserr nocase-"):
            # the dissector has no case for this protocol version (e.g. reconnect messages declared for all versions, version 3
            # has no reconnect exchange of its own): not a message "the dissector covers"
            classes["not-dissected-version"] += 1
            continue            # the specification side could not produce / decode this input: nothing to compare (C01's business)
        hexs = (re.search(r"hex=(\S+)", o) or [None, rq.split()[-1]])[1]
        what = {"left": "stops before the end of the message body", "wserr": "runs past the end of the body or reads an unassigned variable", "diff": "consumes a field with another width / encoding than the definition prescribes"}.get(o.split()[0], o.split()[0])
        rep.violation(f"C17/{c['key']}/{o.split()[0]}", f"{c['key']} ({'server to client' if s2c else 'client to server'}): the dissector case {case} {what}: {o[:120]}",
                      {"container": c["key"], "case": case, "direction_s2c": s2c, "body_hex": hexs[:4000], "model": o[:400],
                       "replay_cmd": f"printf 'load {CORPUS_PATH}\\nload {wsfile}\\nwsbytes {rq.split()[1]} {s2c} {rq.split()[3]} {c['key']} {hexs[:20000]}\\n' | {driver_path()}"})
    for n, k in flat_bad:
        c_ = next(c for (c, case, s2c) in meta if c["key"] == k)
        wit = [1 for (c, case, s2c), o in zip(meta, out) if c["key"] == k and not (o.startswith("ok same") or o.startswith("unsupported"))]
        if not wit:
            rep.violation(f"C17/{k}/static-matcher", f"{k}: the definition is straight-line but the verified matcher rejects its dissector case {n} (a field is walked with another width / encoding / order)",
                          {"container": k, "case": n, "unchecked": "flatMatches (Thm/C17c.lean)"}, no_input=True)
    # a pair the structural matcher refuses although the definition is inside its fragment (no built-in type, no `self.size` field): the walk is no
    # longer proved to end at the end for all values — reported unless the interpreter runs above already produced a concrete witness for it
    toks_of = {c["key"]: c["tokens"] for (c, case, s2c) in meta}
    n_struct_outside = 0
    for n, k, s2c, o in struct_bad:
        t_ = toks_of.get(k, [])
        has_size_field = any(t_[i] == "f" and i + 2 < len(t_) and t_[i + 2] == "s" for i in range(len(t_)))
        if "prim" in t_ or has_size_field or "wf=0" in o:
            n_struct_outside += 1
            continue
        wit = [1 for (c, case, s2c_), o_ in zip(meta, out) if c["key"] == k and not (o_.startswith("ok same") or o_.startswith("unsupported"))]
        if not wit:
            rep.violation(f"C17/{k}/structural-matcher", f"{k} ({'server to client' if s2c else 'client to server'}): the verified matcher no longer accepts the dissector case {n} for this definition (a loop over another count, a condition on another variable / other values, a field walked with another width, or statements in another order): {o}",
                          {"container": k, "case": n, "direction_s2c": s2c, "matcher": o, "theorem": "WowVerif.Wireshark.walk_ends / walk_ends_dir / walk_ends_login (Thm/C17d.lean)"}, no_input=True)
    covered = sum(1 for k, v in per_case.items() if any(x.startswith("ok") for x in v))
    return {
        "fragments": label,
        "obligations": po["obligations"] + n_decl, "discharged": po["discharged"] + n_decl_ok,
        "checker_cmd": "cd /verif/lean && lake build WowVerif.Thm.C17 && lake env lean WowVerif/Thm/C17.lean; python3 /verif/tools/wireshark_c.py",
        "trusted_base": TRUSTED_BASE_COMMON + ["tools/wireshark_c.py (line-regular C shapes of parser.txt; unknown shapes are reported)",
                                               "semantics of the hand-written dissector helpers add_cstring / add_sized_cstring / add_string / add_packed_guid as modelled in Wireshark.lean (NUL-terminated; u32 length + bytes; u8 length + bytes; mask byte + one byte per set bit)",
                                               "the fragments checked are the committed tests/wireshark/*.txt, which C08 shows to be what the generator emits"],
        "theorems": po["theorems"], "declaration_obligations": n_decl,
        "evaluations": len(reqs), "distinct_nontrivial": len(set(reqs)), "outcome_classes": dict(classes), "cases_translated": {w: len(have[w]) for w in have},
        "cases_unsupported": dict(unsupported_cases), "containers_walked_ok": covered, "straight_line_definitions": n_flat, "straight_line_definitions_proved_for_all_values": n_flat_ok,
        "pairs_proved_for_all_values (walk_full: prescribed fields, branches, end position)": n_struct_ok, "of_which_not_straight_line": n_struct_new, "pairs_compared_by_the_structural_matcher": len(pairs),
        "structural_matcher_outside_fragment (built-in type / self.size field)": n_struct_outside,
        "structural_matcher_refused_sample": [f"{n} {k} s2c={s} {o}" for n, k, s, o in struct_bad[:12]], "containers_without_case": len(missing), "containers_without_case_sample": missing[:8],
        "rule": "per Vanilla world message and login message/version with a dissector case: branch-directed samples (every arm), enumerator sweep, random samples with array lengths 0/1/2/5, both directions for MSG; wowm test vectors; walk must end at the end of the body with the definition's (width, encoding) list",
        "samples": [{"request": reqs[i][:160], "model": out[i][:120]} for i in (0, len(reqs) // 2, len(reqs) - 1)] if reqs else [],
    }
