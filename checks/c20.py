"""C20 — area-trigger containment and distance helpers match their geometric definition.

Theorems (WowVerif/Thm/C20.lean, over the real numbers, Mathlib): the code's formulas — written once over abstract
operations in Model/Geometry.lean — are the box-frame containment (isWithinSquare_iff, frame_reconstruct), the Euclidean
distance (distanceBetween_eq), the circle test (contains_circle_iff) and a consistent verify_trigger (verifyTrigger_spec).
Tie: the same generic definitions instantiated with Float answer the correspondence requests; the implementation is
compared on every trigger of the three tables (points inside, on each axis near faces/edges/corners, on other maps,
unknown ids) and on random boxes with every yaw.  The comparison abstains within 2e-3 of a boundary (f32 vs f64)."""
import sys, os, re, math
sys.path.insert(0, os.path.join(os.path.dirname(__file__), "..", "lib"))
sys.path.insert(0, os.path.join(os.path.dirname(__file__), "..", "tools"))
from vlib import *
import triggers

PID = "C20"
EPS = 2e-3


def fmt(x):
    return repr(round(float(x), 4))


def spec_square(p, o, l, w, h, yaw):
    """independent geometric oracle: coordinates in the frame e1=(cos yaw, sin yaw), e2=(-sin yaw, cos yaw)"""
    dx, dy, dz = p[0] - o[0], p[1] - o[1], p[2] - o[2]
    c, s = math.cos(yaw), math.sin(yaw)
    u, v = dx * c + dy * s, -dx * s + dy * c
    ms = [abs(abs(u) - (l / 2 + 2)), abs(abs(v) - (w / 2 + 2)), abs(abs(dz) - (h / 2 + 2))]
    return (abs(u) <= l / 2 + 2 and abs(v) <= w / 2 + 2 and abs(dz) <= h / 2 + 2), min(ms)


def run(tier, seed):
    rep = Report(PID, tier, seed, "proof")
    rng = SplitMix64(seed)
    po = proof_obligations("WowVerif.Thm.C20", ["wowdrv"])
    add_proof_failures(rep, po)
    drv = driver_path()
    rc, out, har = harness_build("base")
    if rc != 0:
        rep.violation("C20/harness-build", "harness does not build against /repo", {"log": out[-3000:]}, no_input=True)
        rep.coverage = {"obligations": po["obligations"], "discharged": 0, "checker_cmd": "lake build WowVerif.Thm.C20", "trusted_base": TRUSTED_BASE_COMMON}
        return rep.finish()

    def rnd(lo, hi):
        return lo + (hi - lo) * (rng.below(1 << 30) / float(1 << 30))

    reqs, meta = [], []       # shape-level requests answered by both sides
    treqs, tmeta = [], []     # trigger-level requests (implementation) with the model answer composed from shape-level answers
    n_trig = 0
    for exp in ("vanilla", "tbc", "wrath"):
        tbl, n_entries = triggers.load(exp)
        if len(tbl) != n_entries:
            rep.violation(f"C20/translator/{exp}", f"trigger table of {exp}: {n_entries} entries, {len(tbl)} readable", {"exp": exp}, no_input=True)
        first = {}
        for t in tbl:
            first.setdefault(t["id"], t)
        ids = list(first)
        sel = ids if tier != "quick" else ids[:: max(1, len(ids) // 120)] + [i for i in ids if first[i]["kind"] == "square"]
        for tid in dict.fromkeys(sel):
            t = first[tid]
            n_trig += 1
            o = (float(t["x"]), float(t["y"]), float(t["z"]))
            pts = []
            if t["kind"] == "circle":
                r = float(t["radius"])
                for k in range(6 if tier == "quick" else 20):
                    th, ph = rnd(0, 2 * math.pi), rnd(-1.2, 1.2)
                    for fr in (0.5, 0.97, 1.03, 1.6):
                        d = r * fr
                        pts.append((o[0] + d * math.cos(th) * math.cos(ph), o[1] + d * math.sin(th) * math.cos(ph), o[2] + d * math.sin(ph)))
            else:
                l, w, h, yaw = (float(t[k]) for k in ("length", "width", "height", "yaw"))
                c, s = math.cos(yaw), math.sin(yaw)
                hl, hw, hh = l / 2 + 2, w / 2 + 2, h / 2 + 2
                cands = [(0, 0, 0)]
                for fu in (-1.03, -0.97, 0, 0.97, 1.03):
                    for fv in (-1.03, -0.97, 0, 0.97, 1.03):
                        for fz in (-1.03, 0, 0.97):
                            cands.append((fu * hl, fv * hw, fz * hh))
                if tier == "quick":
                    cands = [cands[rng.below(len(cands))] for _ in range(16)] + [(0.97 * hl, 0, 0), (0, 0.97 * hw, 0), (1.03 * hl, 0, 0), (0, 1.03 * hw, 0), (0.97 * hl, 0.97 * hw, 0)]
                for (u, v, z) in cands:
                    pts.append((o[0] + u * c - v * s, o[1] + u * s + v * c, o[2] + z))
            for p in pts:
                ps = tuple(fmt(x) for x in p)
                if t["kind"] == "circle":
                    reqs.append(f"geocircle {t['x']} {t['y']} {t['z']} {ps[0]} {ps[1]} {ps[2]} {t['radius']}")
                else:
                    reqs.append(f"geosq {ps[0]} {ps[1]} {ps[2]} {t['x']} {t['y']} {t['z']} {t['length']} {t['width']} {t['height']} {t['yaw']}")
                meta.append(("trigger-shape", exp, t, p))
                treqs.append(f"trig {exp} {tid} {t['map']} {ps[0]} {ps[1]} {ps[2]}")
                tmeta.append((len(reqs) - 1, True))
            # other map, unknown id
            ps = tuple(fmt(x) for x in o)
            other = next(v for v in sorted(triggers.map_values(exp).values()) if v != t["map"])
            treqs.append(f"trig {exp} {tid} {other} {ps[0]} {ps[1]} {ps[2]}")
            tmeta.append((None, "outside"))
        unknown = max(ids) + 1000
        treqs.append(f"trig {exp} {unknown} 0 0 0 0"); tmeta.append((None, "notfound"))
        # EVERY id that is not in the table up to its largest id (+2, and u32::MAX), asked at the centre of the next larger trigger and of
        # the next smaller one on their maps — where a lookup that lands on a neighbour would answer success
        byid = dict(first)
        sid = sorted(byid)
        import bisect
        for absent in [i_ for i_ in range(0, max(ids) + 3) if i_ not in byid] + [0xFFFFFFFF]:
            j_ = bisect.bisect_left(sid, absent)
            for nb in ([sid[j_]] if j_ < len(sid) else []) + ([sid[j_ - 1]] if j_ > 0 else []):
                t_ = byid[nb]
                treqs.append(f"trig {exp} {absent} {t_['map']} {fmt(t_['x'])} {fmt(t_['y'])} {fmt(t_['z'])}")
                tmeta.append((None, "notfound"))
    # random boxes: every yaw, aspect ratio; points near faces, edges, corners
    nbox = 300 if tier == "quick" else 6000
    for _ in range(nbox):
        o = (rnd(-3000, 3000), rnd(-3000, 3000), rnd(-200, 600))
        l, w, h = rnd(0.5, 120), rnd(0.5, 120), rnd(0.5, 60)
        yaw = rnd(0, 2 * math.pi) if rng.below(5) else rng.choice([0.0, math.pi / 2, math.pi, 3 * math.pi / 2, math.pi / 4, 6.2])
        c, s = math.cos(yaw), math.sin(yaw)
        hl, hw, hh = l / 2 + 2, w / 2 + 2, h / 2 + 2
        for _ in range(6):
            fu, fv, fz = (rng.choice([-1.04, -0.96, -0.3, 0.0, 0.5, 0.96, 1.04, 1.5]) for _ in range(3))
            u, v, z = fu * hl, fv * hw, fz * hh
            p = (o[0] + u * c - v * s, o[1] + u * s + v * c, o[2] + z)
            reqs.append("geosq " + " ".join(fmt(x) for x in p + o + (l, w, h, yaw)))
            meta.append(("random-box", None, None, p))
    for _ in range(200 if tier == "quick" else 4000):
        a = (rnd(-5000, 5000), rnd(-5000, 5000), rnd(-500, 500)); b_ = (rnd(-5000, 5000), rnd(-5000, 5000), rnd(-500, 500))
        reqs.append("geodist " + " ".join(fmt(x) for x in a + b_)); meta.append(("dist", None, None, None))
        reqs.append("geodist2 " + " ".join(fmt(x) for x in a[:2] + b_[:2])); meta.append(("dist", None, None, None))
    mo = run_parallel(drv, reqs, jobs=8)
    ho = run_parallel(har, reqs + treqs, jobs=8)
    ho_t = ho[len(reqs):]
    ho = ho[:len(reqs)]
    abstain = 0
    decided = 0
    for i, (rq, a, h, m) in enumerate(zip(reqs, mo, ho, meta)):
        ws = rq.split()
        if ws[0] in ("geodist", "geodist2"):
            try:
                x, y = float(a), float(h)
                vals = [float(v) for v in ws[1:]]
                want = math.dist(vals[:len(vals) // 2], vals[len(vals) // 2:])
            except ValueError:
                x, y, want = 0, 1e30, 0
            decided += 1
            if abs(y - want) > 1e-4 * max(1.0, abs(want)):
                rep.violation("C20/distance", f"{ws[0]} returned {h}, the Euclidean distance is {want}", {"input": rq, "implementation": h, "model": a, "euclidean": want, "replay_cmd": f"echo '{rq}' | {har}"})
            elif abs(x - y) > 1e-4 * max(1.0, abs(x)):
                rep.violation("C20/correspondence/distance", f"model and implementation differ on {rq}", {"request": rq, "model": a, "implementation": h}, no_input=True)
            continue
        mm = re.match(r"(in|out) margin=(\S+)", a)
        verdict, margin = mm.group(1), float(mm.group(2))
        if ws[0] == "geosq":
            v = [float(x) for x in ws[1:]]
            sv, sm = spec_square(v[0:3], v[3:6], v[6], v[7], v[8], v[9])
        else:
            v = [float(x) for x in ws[1:]]
            d = math.dist(v[0:3], v[3:6])
            sv, sm = d < v[6], abs(d - v[6])
        if min(margin, sm) < EPS * max(1.0, max(abs(x) for x in v) / 1000):
            abstain += 1
            continue
        decided += 1
        if (h == "in") != sv:
            rep.violation(f"C20/{ws[0]}", f"implementation says '{h}' but the geometric definition says '{'in' if sv else 'out'}' (margin {sm:.4f})",
                          {"input": rq, "implementation": h, "model": a, "geometric_oracle": "in" if sv else "out", "margin": sm, "replay_cmd": f"echo '{rq}' | {har}"})
        elif verdict != h:
            rep.violation(f"C20/correspondence/{ws[0]}", f"model and implementation differ on {rq}", {"request": rq, "model": a, "implementation": h}, no_input=True)
    # trigger verification: consistent with containment
    for (rq, h, (idx, exp_)) in zip(treqs, ho_t, tmeta):
        if idx is None:
            want = exp_
        else:
            mm = re.match(r"(in|out) margin=(\S+)", mo[idx])
            if float(mm.group(2)) < EPS * 10:
                continue
            want = "success" if mm.group(1) == "in" else "outside"
        decided += 1
        if h != want:
            rep.violation("C20/verify_trigger", f"verify_trigger: '{h}' but containment says '{want}'", {"input": rq, "implementation": h, "expected": want, "replay_cmd": f"echo '{rq}' | {har}"})
    rep.coverage = {
        "obligations": po["obligations"], "discharged": po["discharged"],
        "checker_cmd": "cd /verif/lean && lake build WowVerif.Thm.C20 && lake env lean WowVerif/Thm/C20.lean",
        "trusted_base": TRUSTED_BASE_COMMON + ["Mathlib (Real, trigonometric identities) for the proof instance", "f32 rounding and libm sin/cos are NOT modelled: the correspondence abstains within 2e-3 of a face",
                                               "tools/triggers.py reads the trigger tables (entry count cross-checked)"],
        "theorems": po["theorems"],
        "evaluations": len(reqs) + len(treqs), "distinct_nontrivial": decided, "abstained_near_boundary": abstain, "triggers_exercised": n_trig,
        "rule": "every (thorough) / a stride plus all box-shaped (quick) triggers of the three tables with points inside and 3% inside/outside each face, edge and corner, other map, unknown id; random boxes x 6 points; random distances. non-trivial = decided away from the boundary",
        "samples": [{"request": reqs[i], "model": mo[i], "implementation": ho[i]} for i in (0, len(reqs) // 3, len(reqs) // 2)] + [{"request": treqs[0], "implementation": ho_t[0]}],
    }
    rep.assumptions = ["real f32 arithmetic of the implementation is compared with f64 evaluation of the same formula away from boundaries only"]
    return rep.finish()
