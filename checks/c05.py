"""C05 — header encryption is transparent for whole message sequences.

Theorems (WowVerif/Thm/C05.lean): for ANY cipher satisfying the byte-wise coupling law — dec_enc, readFrameEnc_plain,
enc_read_write (encrypted frame differs from the plain one only in header bytes; the decrypting reader returns the
written message; states stay coupled) and enc_stream (every finite message sequence, by induction, including Wrath's
variable-length server header).  Built on the C02 model (same constants, same header arithmetic).
Tie: (a) the cipher law itself is validated on wow_srp by sampling (both directions, byte-wise vs chunked);
(b) random session keys x sequences of 1-30 real messages (lengths straddling the 2/3-byte boundary, a second message
type) are written with write_encrypted_*, read with read_encrypted and expect_*_message_encryption, and compared with the
positions the model predicts; cipher and plain streams may differ in header positions only."""
import sys, os, re
sys.path.insert(0, os.path.join(os.path.dirname(__file__), "..", "lib"))
from vlib import *

PID = "C05"


def predict(exp, d, msgs):
    pos, out = 0, "ok hdronly=1"
    for k, l in msgs:
        n = l if k == "w" else 4
        hl = (3 if (exp == "wrath" and d == "server" and n + 2 > 0x7FFF) else 2) + (4 if d == "client" else 2)
        pos += hl + n
        out += f" {n}@{pos}"
    return out + f" end={pos}"


def run(tier, seed):
    rep = Report(PID, tier, seed, "proof")
    po = proof_obligations("WowVerif.Thm.C05", [])
    add_proof_failures(rep, po)
    rc, out, har = harness_build("world")
    if rc != 0:
        rep.violation("C05/harness-build", "harness does not build against /repo", {"log": out[-3000:]}, no_input=True)
        rep.coverage = {"obligations": po["obligations"], "discharged": 0, "checker_cmd": "lake build WowVerif.Thm.C05", "trusted_base": TRUSTED_BASE_COMMON}
        return rep.finish()
    rng = SplitMix64(seed)
    # (a) cipher law on wow_srp
    law = []
    for exp in ("vanilla", "tbc", "wrath"):
        for _ in range(20 if tier == "quick" else 200):
            law.append(f"cipherlaw {exp} {rng.bytes(40).hex()} {rng.bytes(1 + rng.below(60)).hex()}")
    lo = run_parallel(har, law, jobs=8)
    for rq, r in zip(law, lo):
        if r != "s2c=1 c2s=1":
            rep.violation("C05/cipher-law", f"the header cipher does not decrypt what it encrypted: {r}", {"input": rq, "implementation": r, "replay_cmd": f"echo '{rq}' | {har}"})
    # (b) sequences
    reqs, meta = [], []
    pool = [0, 1, 5, 100, 0x7FF9, 0x7FFA, 0x7FFB, 0x7FFC, 0x7FFD, 0x7FFE, 0x7FFF, 0x8000, 0x8001, 40000, 65529]
    nseq = 8 if tier == "quick" else 80
    for exp in ("vanilla", "tbc", "wrath"):
        for d in ("server", "client"):
            for api in ("enum", "expect"):
                # deterministic boundary sequence first (corpus of past failures), then random ones
                fixed = [[("w", l), ("p" if d == "server" else "w", 7)] for l in (0x7FFB, 0x7FFC, 0x7FFD, 0x7FFE, 0x7FFF, 0x8000)]
                seqs = fixed + [[(("p" if (d == "server" and rng.below(4) == 0) else "w"), (rng.choice(pool) if rng.below(3) == 0 else rng.below(400))) for _ in range(1 + rng.below(30))] for _ in range(nseq)]
                for ms in seqs:
                    ms = [(k, (l if k == "w" else l % 1000)) for k, l in ms]
                    if exp != "wrath" or d == "client":
                        ms = [(k, min(l, 65529 if d == "client" else 65531)) for k, l in ms]
                    reqs.append(f"eseq {exp} {d} {api} {rng.bytes(40).hex()} {','.join(k + str(l) for k, l in ms)}")
                    meta.append((exp, d, api, ms))
    ho = run_parallel(har, reqs, jobs=12)
    nmsg = 0
    for (exp, d, api, ms), rq, h in zip(meta, reqs, ho):
        nmsg += len(ms)
        want = predict(exp, d, ms)
        if h != want:
            kind = "header-only" if "hdronly=0" in h else "sequence"
            rep.violation(f"C05/{exp}-{d}/{api}-{kind}", f"{exp} {d} {api}: an encrypted sequence of {len(ms)} messages is not read back as written: '{h[:160]}' (expected '{want[:120]}')",
                          {"input": rq, "implementation": h, "expected": want, "replay_cmd": f"echo '{rq}' | {har}"})
    rep.coverage = {
        "obligations": po["obligations"], "discharged": po["discharged"],
        "checker_cmd": "cd /verif/lean && lake build WowVerif.Thm.C05 && lake env lean WowVerif/Thm/C05.lean",
        "trusted_base": TRUSTED_BASE_COMMON + ["the wow_srp header ciphers satisfy the byte-wise coupling law (assumption of the theorems, validated by sampling in this run)",
                                               "the framing model of C02 (hand transcription, tied by C02's correspondence)"],
        "theorems": po["theorems"],
        "evaluations": len(reqs) + len(law), "distinct_nontrivial": len(set(reqs)), "sequences": len(reqs), "messages_in_sequences": nmsg, "cipher_law_samples": len(law),
        "rule": "3 expansions x 2 directions x 2 reader entry points x (6 boundary sequences + random sequences of 1-30 messages with random 40-byte session keys); plus cipher-law samples",
        "samples": [{"request": reqs[i][:200], "implementation": ho[i][:160]} for i in (0, len(reqs) // 2)],
    }
    rep.assumptions = ["compressed messages override the encrypted writers (print_encrypted_body); they are exercised by C01/C03 only in unencrypted form"]
    return rep.finish()
