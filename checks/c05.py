"""C05 — header encryption is transparent for whole message sequences.

Theorems (WowVerif/Thm/C05.lean): for ANY cipher satisfying the byte-wise coupling law — dec_enc, readFrameEnc_plain,
enc_read_write (encrypted frame differs from the plain one only in header bytes; the decrypting reader returns the
written message; states stay coupled) and enc_stream (every finite message sequence, by induction, including Wrath's
variable-length server header).  Built on the C02 model (same constants, same header arithmetic).
Tie: (a) the cipher law itself is validated on wow_srp by sampling (both directions, byte-wise vs chunked);
(b) random session keys x sequences of 1-30 real messages (lengths straddling the 2/3-byte boundary, a second message
type) are written with write_encrypted_*, read with read_encrypted and expect_*_message_encryption, and compared with the
positions the model predicts; cipher and plain streams may differ in header positions only."""
import sys, os, re
sys.path.insert(0, os.path.join(os.path.dirname(__file__), "..", "lib"))
sys.path.insert(0, os.path.join(os.path.dirname(__file__), "..", "tools"))
from semcorr import *

PID = "C05"


def predict(exp, d, msgs):
    pos, out = 0, "ok hdronly=1"
    for k, l in msgs:
        n = l if k == "w" else 4
        hl = (3 if (exp == "wrath" and d == "server" and n + 2 > 0x7FFF) else 2) + (4 if d == "client" else 2)
        pos += hl + n
        out += f" {n}@{pos}"
    return out + f" end={pos}"


def run(tier, seed):
    rep = Report(PID, tier, seed, "proof")
    po = proof_obligations("WowVerif.Thm.C05", [])
    add_proof_failures(rep, po)
    po_b = proof_obligations("WowVerif.Thm.C05b")      # enc_session: encrypted sessions of message VALUES (cipher law + framing + body codec)
    add_proof_failures(rep, po_b)
    po = dict(po, theorems=dict(po["theorems"], **po_b["theorems"]), obligations=po["obligations"] + po_b["obligations"], discharged=po["discharged"] + po_b["discharged"])
    # T-gen: the dispatch of the opcode enums' writers (tools/opcode_dispatch.py): in `P_write_{encrypted,unencrypted}_{client,server}` the arm of
    # every variant calls the method of the SAME name on the message, so the enum writer is the message writer whose transparency is proved
    import opcode_dispatch
    disp, dprob = opcode_dispatch.check()
    for p in dprob:
        rep.violation(f"C05/dispatch-translator/{p['file']}#{p['enum']}", p["problem"], p, no_input=True)
    for a in disp:
        if a["kind"] == "write" and not a["ok"]:
            rep.violation(f"C05/dispatch/{a['file']}#{a['enum']}::{a['fn']}/{a['variant']}", f"{a['file']}: {a['enum']}::{a['fn']} writes {a['variant']} with `{a['calls']}`",
                          dict(a, input=f"{a['enum']}::{a['variant']} written with {a['fn']}"), no_input=False)
        if a["kind"] == "display" and not a["ok"]:
            rep.violation(f"C05/dispatch-display/{a['file']}#{a['enum']}/{a['variant']}", f"{a['file']}: {a['enum']}::{a['variant']} is displayed as {a['text']}", a, no_input=True)
    n_disp_write = sum(1 for a in disp if a["kind"] == "write")
    rc, out, har = harness_build("world")
    if rc != 0:
        rep.violation("C05/harness-build", "harness does not build against /repo", {"log": out[-3000:]}, no_input=True)
        rep.coverage = {"obligations": po["obligations"], "discharged": 0, "checker_cmd": "lake build WowVerif.Thm.C05", "trusted_base": TRUSTED_BASE_COMMON}
        return rep.finish()
    rng = SplitMix64(seed)
    # (a) cipher law on wow_srp
    law = []
    for exp in ("vanilla", "tbc", "wrath"):
        for _ in range(20 if tier == "quick" else 2000):
            law.append(f"cipherlaw {exp} {rng.bytes(40).hex()} {rng.bytes(1 + rng.below(60)).hex()}")
    lo = run_parallel(har, law, jobs=8)
    for rq, r in zip(law, lo):
        if r != "s2c=1 c2s=1":
            rep.violation("C05/cipher-law", f"the header cipher does not decrypt what it encrypted: {r}", {"input": rq, "implementation": r, "replay_cmd": f"echo '{rq}' | {har}"})
    # (b) sequences
    reqs, meta = [], []
    pool = [0, 1, 5, 100, 0x7FF9, 0x7FFA, 0x7FFB, 0x7FFC, 0x7FFD, 0x7FFE, 0x7FFF, 0x8000, 0x8001, 40000, 65529]
    nseq = 8 if tier == "quick" else 600
    for exp in ("vanilla", "tbc", "wrath"):
        for d in ("server", "client"):
            for api in ("enum", "expect", "expectother"):
                # deterministic boundary sequence first (corpus of past failures), then random ones
                fixed = [[("w", l), ("p" if d == "server" else "w", 7)] for l in (0x7FFB, 0x7FFC, 0x7FFD, 0x7FFE, 0x7FFF, 0x8000)]
                if exp == "wrath" and d == "server":
                    # the 3-byte size field: bodies up to the published limit of the endless array the `w` message carries (65 535 bytes); larger
                    # bodies come from counted arrays in part (c)
                    fixed += [[("p", 3), ("w", l), ("p", 9)] for l in (65531, 65533, 65534, 65535)]
                seqs = fixed + [[(("p" if (d == "server" and rng.below(4) == 0) else "w"), (rng.choice(pool + ([65533, 65535] if (exp == "wrath" and d == "server") else [])) if rng.below(3) == 0 else rng.below(400))) for _ in range(1 + rng.below(30))] for _ in range(nseq)]
                for ms in seqs:
                    ms = [(k, (l if k == "w" else l % 1000)) for k, l in ms]
                    if exp != "wrath" or d == "client":
                        ms = [(k, min(l, 65529 if d == "client" else 65531)) for k, l in ms]
                    reqs.append(f"eseq {exp} {d} {api} {rng.bytes(40).hex()} {','.join(k + str(l) for k, l in ms)}")
                    meta.append((exp, d, api, ms))
    # Wrath server bodies beyond what 16 bits describe, through the typed expect helper with header decryption (`ebig`: SMSG_SEND_UNLEARN_SPELLS with n spells
    # between two small messages)
    for n_ in (8190, 16382, 16383, 16384, 20000) + ((40000, 100000) if tier != "quick" else ()):
        reqs.append(f"ebig wrath {rng.bytes(40).hex()} {n_}")
        meta.append(("wrath", "server", "expect-big", [("p", 4), ("w", 4 + 4 * n_), ("p", 4)]))
    ho = run_parallel(har, reqs, jobs=12)
    nmsg = 0
    for (exp, d, api, ms), rq, h in zip(meta, reqs, ho):
        nmsg += len(ms)
        want = predict(exp, d, ms)
        if h != want:
            kind = "header-only" if "hdronly=0" in h else "sequence"
            rep.violation(f"C05/{exp}-{d}/{api}-{kind}", f"{exp} {d} {api}: an encrypted sequence of {len(ms)} messages is not read back as written: '{h[:160]}' (expected '{want[:120]}')",
                          {"input": rq, "implementation": h, "expected": want, "replay_cmd": f"echo '{rq}' | {har}"})
    # (c) sequences of ANY messages, including the compressed ones whose encrypted writers are overridden (print_encrypted_body):
    # canonical plain frames (Lean generator; python reference encoder for built-in types and compressed members) are read by the
    # plain reader, written encrypted and plain, and the cipher stream is read back by the decrypting reader
    import pyenc, zlib
    conts = build_corpus(expanded=True)
    drv = Driver()
    pools = {}
    world = [c for c in conts if c["lib"] != "login"]
    plain_c = [c for c in world if "tokens" in c and "prim" not in c["tokens"]]
    pick = plain_c if tier != "quick" else [c for i, c in enumerate(plain_c) if i % 4 == seed % 4]
    gq = [f"gen {c['key']} {rng.below(1 << 40)} 3" for c in pick]
    for c, g in zip(pick, drv.ask_many(gq)):
        if g.startswith("ok"):
            body = bytes.fromhex(g.split()[1]) if g.split()[1] != "-" else b""
            for dr in directions(c):
                pools.setdefault((libname(c), dr), []).append((c["key"], frame(libname(c), dr, c["opcode"], body), False))
    drv.close()
    n_z = 0
    for c in world:
        toks = c.get("ztokens") or c.get("zmsg_tokens") or (c.get("tokens") if "tokens" in c and "prim" in c["tokens"] else None)
        if toks is None:
            continue
        for s_ in range(4 if tier == "quick" else 96):
            try:
                body = pyenc.encode(toks, rng, (1, 2, 3, 6)[s_ % 4], None)
            except (pyenc.Unsupported, OverflowError, ValueError):
                break
            if "zmsg_tokens" in c:
                body = len(body).to_bytes(4, "little") + zlib.compress(body)
            for dr in directions(c):
                pools.setdefault((libname(c), dr), []).append((c["key"], frame(libname(c), dr, c["opcode"], body), "tokens" not in c))
                n_z += "tokens" not in c
    freqs, fmeta = [], []
    for (exp, d), pool_ in sorted(pools.items()):
        zs = [x for x in pool_ if x[2]]
        for k in range(len(zs) * 2 + (30 if tier == "quick" else 2000)):
            n = 1 + rng.below(10)
            fs = [rng.choice(pool_) for _ in range(n)]
            if zs and k < len(zs) * 2:
                fs[(k // 2) % n if k % 2 else 0] = zs[k // 2]          # every compressed frame: once first, once inside a sequence
                if k % 2:
                    fs.append(rng.choice(pool_))
            if sum(len(f[1]) for f in fs) > 200000:
                continue
            freqs.append(f"eseqf {exp} {d} {rng.bytes(40).hex()} {','.join(f[1].hex() for f in fs)}")
            fmeta.append((exp, d, fs))
    fo = run_parallel(har, freqs, jobs=12)
    n_fmsg = n_unread = n_fz = 0
    for (exp, d, fs), rq, h in zip(fmeta, freqs, fo):
        if h.startswith("unreadable") or h.startswith("plain-write-"):
            n_unread += 1          # the plain reader rejects a generated frame, or the plain writer refuses the value: C01's subject, not this property's
            continue
        m = re.match(r"ok hdronly=(\d) plain=([\d,]+)((?: \d+!?@\d+)*) end=(\d+)$", h)
        good = False
        if m and m.group(1) == "1" and "!" not in m.group(3):
            lens = [int(x) for x in m.group(2).split(",")]
            poss = [int(x.split("@")[1]) for x in m.group(3).split()]
            cum = [sum(lens[:i + 1]) for i in range(len(lens))]
            good = len(lens) == len(fs) and poss == cum and int(m.group(4)) == cum[-1]
        if good:
            n_fmsg += len(fs)
            n_fz += sum(1 for f in fs if f[2])
        else:
            names = [f[0].split(":")[-1] for f in fs]
            culprit = next((f[0] for f in fs if f[2]), fs[0][0])
            rep.violation(f"C05/{exp}-{d}/any-message/{culprit.split(':')[-1] if any(f[2] for f in fs) else 'sequence'}",
                          f"{exp} {d}: the encrypted form of the sequence {names[:6]} is not read back as the plain stream is: '{h[:200]}'",
                          {"input": rq[:60000], "messages": names, "implementation": h[:2000], "replay_cmd": f"echo '{rq[:60000]}' | {har}"})
    rep.coverage = {
        "any_message_sequences": len(freqs), "any_message_messages_read_back": n_fmsg, "compressed_messages_read_back": n_fz, "compressed_frames_generated": n_z, "sequences_with_frame_rejected_by_plain_reader": n_unread,
        "obligations": po["obligations"], "discharged": po["discharged"],
        "checker_cmd": "cd /verif/lean && lake build WowVerif.Thm.C05 && lake env lean WowVerif/Thm/C05.lean",
        "trusted_base": TRUSTED_BASE_COMMON + ["the wow_srp header ciphers satisfy the byte-wise coupling law (assumption of the theorems, validated by sampling in this run)",
                                               "the framing model of C02 (hand transcription, tied by C02's correspondence)", "tools/opcode_dispatch.py (reads the match arms of the opcode enums' writers)"],
        "theorems": po["theorems"], "dispatch_write_arms": n_disp_write,
        "evaluations": len(reqs) + len(law) + len(freqs), "distinct_nontrivial": len(set(reqs)), "sequences": len(reqs), "messages_in_sequences": nmsg, "cipher_law_samples": len(law),
        "rule": "3 expansions x 2 directions x 2 reader entry points x (6 boundary sequences + random sequences of 1-30 messages with random 40-byte session keys); plus cipher-law samples",
        "samples": [{"request": reqs[i][:200], "implementation": ho[i][:160]} for i in (0, len(reqs) // 2)],
    }
    rep.assumptions = ["the any-message stream compares the library's encrypted path with its own plain path (the relation enc_stream states); stream positions of compressed messages come from the library's plain writer, zlib is outside the model"]
    return rep.finish()
