"""C04 — out-of-domain field values are rejected, never silently reinterpreted.

Theorems (WowVerif/Thm/C04.lean): decLeaf_enum_reject / decLeaf_enum_declared (an undeclared number at an enum field's wire
width is an error reporting that number), fixedMs_consumes + size_reject (a constant-sized container never decodes from
a body of another length — all containers, by mutual induction), enumReadOk_sound / narrowing_cast_aliases (the read
expression the printer emits for an enum member).
T-gen: every enum read site of every generated reader (tools/rust_reads.py) is classified and `enumReadOk` evaluated;
the opcode match arms of every opcodes.rs are compared with the opcodes the wowm defines.
T-corr: canonical encodings with one enum field set to an undeclared number (aliases modulo 2^8 / 2^16 of a declared
value, neighbours, maxima), constant-sized world messages with shorter/longer bodies, undefined opcodes."""
import sys, os, re, collections
sys.path.insert(0, os.path.join(os.path.dirname(__file__), "..", "lib"))
sys.path.insert(0, os.path.join(os.path.dirname(__file__), "..", "tools"))
from semcorr import *
import rust_reads, rust_flags

PID = "C04"


def run(tier, seed):
    rep = Report(PID, tier, seed, "proof")
    po = proof_obligations("WowVerif.Thm.C04", ["wowdrv"])
    add_proof_failures(rep, po)
    conts = build_corpus(expanded=True)
    ok = [c for c in conts if "tokens" in c]
    # ---------------- T-gen (whole readers): the program translated from every generated reader must be the normal form of its definition's
    # program (lib/readertie.py; Thm/C01b.lean); here: the differences that concern enum validation (missing / other domain / other width / cast)
    import readertie
    po_b = proof_obligations("WowVerif.Thm.C01c")       # reader_decodes_as_spec: a reader that matches rejects exactly what the definition's decoder rejects
    add_proof_failures(rep, po_b)
    tie_cov = readertie.report(rep, PID, readertie.compute())
    d = Driver()
    # ---------------- T-gen: read expressions and opcode tables
    rcorpus = rust_flags.Corpus()
    items, problems = rust_reads.extract(rcorpus)
    for p in problems:
        rep.violation(f"C04/translator/{p['file']}#{p['member']}", p["problem"], p, no_input=True)
    verdicts = d.ask_many([i["line"] for i in items])
    n_site_ok = 0
    for it, v in zip(items, verdicts):
        if v == "ok":
            n_site_ok += 1
            continue
        key = "C04/upcast-enum-narrowing-cast" if it["shape"].startswith("cast") else f"C04/{it['file']}#{it['member']}/read-expression"
        alias = 256 ** it["base_bytes"]
        rep.violation(key, f"{it['file']}: member {it['member']}: {it['enum']} is read as `{it['rust']}`: values that alias a declared value modulo {alias} are accepted",
                      {"file": it["file"], "member": it["member"], "enum": it["enum"], "rust": it["rust"], "wire_bytes": it["wire_bytes"],
                       "input": f"any canonical encoding with {it['member']} := declared value + {alias}"}, no_input=False)
    optabs = rust_reads.opcode_tables(rcorpus)
    for t in optabs:
        if t["rust"] != t["wowm"]:
            extra = sorted(set(t["rust"]) - set(t["wowm"]))
            missing = sorted(set(t["wowm"]) - set(t["rust"]))
            rep.violation(f"C04/opcode-table/{t['exp']}-{t['dir']}", f"{t['exp']} {t['dir']} opcode reader accepts {extra[:5]} that the wowm does not define / lacks {missing[:5]}",
                          {"expansion": t["exp"], "direction": t["dir"], "accepted_but_undefined": extra, "defined_but_rejected": missing,
                           "input": f"frame with opcode {(extra or missing)[0]:#x}"})
    # ---------------- T-gen: the dispatch itself (tools/opcode_dispatch.py): the arm for opcode N builds variant X by X's own reader, and X's OPCODE is N
    import opcode_dispatch
    disp, dprob = opcode_dispatch.check()
    for p in dprob:
        rep.violation(f"C04/dispatch-translator/{p['file']}#{p['enum']}", p["problem"], p, no_input=True)
    for a in disp:
        if a["kind"] == "read" and not a["ok"]:
            rep.violation(f"C04/dispatch/{a['file']}#{a['enum']}/{a['opcode']:#06x}", f"{a['file']}: {a['enum']}::read_opcodes answers opcode {a['opcode']:#x} with variant {a['variant']} read by {a['type']} (whose OPCODE is {a['const_opcode']})",
                          dict(a, input=f"frame with opcode {a['opcode']:#x} and a body of {a['type']}"), no_input=False)
    ldisp, lprob = opcode_dispatch.check_login()
    for p in lprob:
        rep.violation(f"C04/dispatch-translator/{p['file']}#{p['enum']}", p["problem"], p, no_input=True)
    for a in ldisp:
        if a["kind"] == "login-read" and not a["ok"]:
            rep.violation(f"C04/dispatch/{a['file']}#{a['enum']}::{a['fn']}/{a['opcode']:#04x}", f"{a['file']}: {a['enum']}::{a['fn']} answers opcode {a['opcode']:#x} with variant {a['variant']} read by {a['type']}::{a['calls']} (OPCODE {a['const_opcode']})",
                          dict(a, input=f"login message with opcode byte {a['opcode']:#x}"), no_input=False)
    n_disp_read = sum(1 for a in disp if a["kind"] == "read") + sum(1 for a in ldisp if a["kind"] == "login-read")
    # ---------------- T-corr
    rc, out, har = harness_build("world")
    if rc != 0:
        rep.violation("C04/harness-build", "harness does not build against /repo", {"log": out[-3000:]}, no_input=True)
        rep.coverage = {"obligations": po["obligations"], "discharged": 0, "checker_cmd": "lake build WowVerif.Thm.C04", "trusted_base": TRUSTED_BASE_COMMON}
        d.close()
        return rep.finish()
    rng = SplitMix64(seed)
    # (a) enum corruption
    reqs, meta = [], []
    per = 3 if tier == "quick" else 40
    for c in ok:
        if " enum " not in " " + " ".join(c["tokens"]) + " ":
            continue
        nsites = min(" ".join(c["tokens"]).count(" enum "), 6 if tier == "quick" else 40)
        for site in range(nsites):
            for k in range(per if site < 3 else 1):
                reqs.append(f"genbad {c['key']} {rng.below(1 << 40)} {site} {k}")
                meta.append((c, site))
    gen = d.ask_many(reqs)
    hreq, hmeta = [], []
    spec_disagree = 0
    for (c, site), rq, g in zip(meta, reqs, gen):
        if not g.startswith("ok"):
            continue
        parts = g.split()
        body = bytes.fromhex(parts[1]) if parts[1] != "-" else b""
        bad = int(parts[2].split("=")[1]); wire = int(parts[3].split("=")[1]); spec = parts[4].split("=")[1]
        if not spec.startswith("err_enum_"):
            spec_disagree += 1     # the corrupted field was not reached by the spec decoder (should not happen)
        for dr in directions(c):
            fr = frame(libname(c), dr, c["opcode"], body)
            hreq.append(f"codec {libname(c)} {dr} {fr.hex()}")
            hmeta.append((c, dr, fr, bad, wire, rq))
    ho = run_parallel(har, hreq, jobs=12)
    n_enum = 0
    for (c, dr, fr, bad, wire, rq), hq, h in zip(hmeta, hreq, ho):
        n_enum += 1
        m = re.match(r"err enum (\w+) (-?\d+)", h)
        if m and int(m.group(2)) % (1 << (8 * wire)) == bad:
            continue
        if h.startswith("err size") or h.startswith("err buffer") or h.startswith("err eof") or h.startswith("err io"):
            # the undeclared value changed the layout the reader expected before it validated the enum: still a rejection,
            # but not one that reports the offending number
            kind = "rejected-without-reporting"
        elif h.startswith("ok") or h.startswith("abort"):
            kind = "accepted" if h.startswith("ok") else "abort"
        else:
            kind = "wrong-report"
        alias = bad >= 256 and wire > 1
        key = f"C04/{c['key']}/enum-{kind}"
        rep.violation(key, f"{c['key']}: enum field #{rq.split()[3]} carries the undeclared number {bad} ({wire}-byte wire width); the library answers '{h[:100]}'",
                      {"container": c["key"], "direction": dr, "input_frame_hex": fr.hex(), "undeclared_value": bad, "wire_bytes": wire, "implementation": h[:300],
                       "expected": f"err enum <name> {bad}", "replay_cmd": f"echo '{hq[:20000]}' | {har}"})
    # (b) constant-sized world messages with another body length
    fx = d.ask_many([f"fixed {c['key']}" for c in ok])
    sreq, smeta = [], []
    nfixed = 0
    for c, f in zip(ok, fx):
        if not f.startswith("some") or c["lib"] == "login":
            continue
        nfixed += 1
        L = int(f.split()[1])
        g = d.ask(f"gen {c['key']} {rng.below(1 << 40)}")
        if not g.startswith("ok"):
            continue
        body = bytes.fromhex(g.split()[1]) if g.split()[1] != "-" else b""
        deltas = [-1, 1] if tier == "quick" else [-64, -16, -8, -4, -3, -2, -1, 1, 2, 3, 4, 8, 16, 64, 1000]
        for dl in deltas:
            nb = body[:L + dl] if dl < 0 else body + bytes([0] * dl)
            if len(nb) == L or (dl < 0 and L + dl < 0):
                continue
            for dr in directions(c)[:1]:
                fr = frame(libname(c), dr, c["opcode"], nb)
                sreq.append(f"codec {libname(c)} {dr} {fr.hex()}")
                smeta.append((c, dr, L, len(nb)))
    so = run_parallel(har, sreq, jobs=12)
    for (c, dr, L, ln), hq, h in zip(smeta, sreq, so):
        if h.startswith("err"):
            continue
        rep.violation(f"C04/{c['key']}/fixed-size", f"{c['key']} has constant size {L}; a body of {ln} bytes is answered '{h[:100]}'",
                      {"container": c["key"], "fixed_size": L, "body_len": ln, "implementation": h[:300], "replay_cmd": f"echo '{hq}' | {har}"})
    # (c) undefined opcodes
    oreq, ometa = [], []
    for t in optabs:
        defined = set(t["wowm"])
        cands = [o for o in range(0, 0x600) if o not in defined]
        if tier == "quick":
            cands = cands[:: max(1, len(cands) // 120)]
        cands += [0xFFFF, 0x10000 + rng.below(1 << 15), 0xFFFFFFFF][: (1 if t["dir"] == "server" else 3)]
        for o in cands:
            if t["dir"] == "server" and o > 0xFFFF:
                continue
            fr = frame(t["exp"], t["dir"], o, b"")
            oreq.append(f"codec {t['exp']} {t['dir']} {fr.hex()}")
            ometa.append((t, o))
    oo = run_parallel(har, oreq, jobs=12)
    for (t, o), hq, h in zip(ometa, oreq, oo):
        if h == f"err opcode {o}":
            continue
        rep.violation(f"C04/opcode/{t['exp']}-{t['dir']}", f"undefined opcode {o:#x} ({t['exp']} {t['dir']}) is answered '{h[:80]}' instead of an error reporting {o}",
                      {"expansion": t["exp"], "direction": t["dir"], "opcode": o, "implementation": h[:200], "replay_cmd": f"echo '{hq}' | {har}"})
    d.close()
    n_tab = sum(1 for t in optabs if t["rust"] == t["wowm"])
    rep.coverage = {
        "obligations": po["obligations"] + po_b["obligations"] + len(items) + len(optabs) + tie_cov["readers_compared"],
        "discharged": po["discharged"] + po_b["discharged"] + n_site_ok + n_tab + tie_cov["readers_equal_to_normal_form_of_definition"],
        "reader_tie": tie_cov,
        "checker_cmd": "cd /verif/lean && lake build WowVerif.Thm.C04; python3 /verif/tools/rust_reads.py",
        "trusted_base": TRUSTED_BASE_COMMON + ["tools/rust_reads.py (reads `// name: Type` + `let name = <read>.try_into()?;` and the opcode match arms)", "tools/wowm.py, tools/corpus.py"],
        "theorems": po["theorems"], "enum_read_sites": len(items), "opcode_tables": len(optabs), "dispatch_read_arms": n_disp_read,
        "evaluations": n_enum + len(sreq) + len(oreq), "distinct_nontrivial": len(set(hreq)) + len(set(sreq)) + len(set(oreq)),
        "enum_corruptions": n_enum, "fixed_size_messages": nfixed, "fixed_size_requests": len(sreq), "undefined_opcodes_tried": len(oreq),
        "spec_decoder_did_not_report_enum": spec_disagree,
        "rule": "per message: up to 6 (thorough 40) enum fields x several undeclared numbers (aliases +2^8/+2^16/+2^24 of a declared value, neighbours, maxima); every constant-sized world message with body length -1/+1 (thorough -4..+4); undefined opcodes below 0x600 (quick: stride) plus large ones",
        "samples": [{"request": hreq[i][:160], "implementation": ho[i][:120]} for i in (0, len(hreq) // 2)] + ([{"request": sreq[0][:120], "implementation": so[0]}] if sreq else []),
    }
    rep.assumptions = ["containers with compressed parts or built-ins outside the generic semantics are not corrupted (listed by C01)"]
    return rep.finish()
