"""C14 — login protocol-version views of a message are lossless and codec-equivalent.

Theorems (WowVerif/Thm/C14.lean): lower_lift / lower_lift_schema (lifting a version-N record into the collective record
and lowering it again returns the original, for every record over N's fields, the defaulted fields being the ones N does
not declare), embedsOk_sound (meaning of the static embedding check), readProtocol_eq / writeProtocol_eq (the
protocol-parameterised API is N's codec composed with the view), protocol_roundtrip (reading N's bytes through the
protocol API and writing them back reproduces the bytes), lower_lift_lower.
Tie: (a) T-gen: for every message family and older version the field schema (names, wire types, enumerators with values,
flattened over branches and nested structs) is re-derived from the wowm sources and the verified `embedsOk` is evaluated
on (version N, version 8).  (b) T-corr on the hand-written collective/*.rs through the public API: for generated canonical
values, malformed values and wowm test vectors of every version N message: N's own opcode-enum reader vs
`read_protocol(N)`, `from_version_N` vs the protocol value, `to_version_N` vs N's value, `write_protocol(N)` vs N's writer vs
the input bytes, consumed counts, error kinds; for generated version-8 values lowered to every N: to/from/to stability,
`write_protocol(N)` = N's writer on the lowered value, and N's reader returns the lowered value."""
import sys, os, re, collections, zlib
sys.path.insert(0, os.path.join(os.path.dirname(__file__), "..", "lib"))
sys.path.insert(0, os.path.join(os.path.dirname(__file__), "..", "tools"))
sys.path.insert(0, os.path.dirname(__file__))
from semcorr import *
import wowm
from c03 import test_vectors

PID = "C14"
VERSIONS = [2, 3, 5, 6, 7]


INTW = {"u8": 1, "u16": 2, "u32": 4, "u64": 8, "u48": 8, "i8": 1, "i16": 2, "i32": 4, "i64": 8, "u16_be": 2, "u32_be": 4, "u64_be": 8, "i32_be": 4, "u8_be": 1}


def value_kind(n):
    """(kind, width) of the VALUE a field of builtin type n carries in the generated Rust type"""
    if n in INTW:
        return ("int" if n[0] == "u" else "sint", INTW[n])
    if n in ("f32", "f32_be", "f64", "Population"):
        return ("float", 0)
    if n.startswith("Bool"):
        return ("bool", 0)
    if n in ("CString", "SizedCString", "String"):
        return ("string", 0)
    return (n, 0)


def schema(r, o, target, prefix=""):
    """flattened [(qualified field name, kind, width)] of the value fields of a container for a login version (branches and
    nested structs flattened; array-length fields, `self.size` fields and constants are not value fields), plus one pseudo-field
    per enumerator (with its value as the kind) of every definer-typed field"""
    out = []

    def counts(ms):
        c = set()
        for m in ms:
            if m["k"] == "field" and m["ty"]["t"] == "array" and m["ty"]["size"][0] == "var":
                c.add(m["ty"]["size"][1])
            elif m["k"] == "if":
                for sub in [m["members"]] + [e["members"] for e in m["elseifs"]] + ([m["else"]] if m["else"] is not None else []):
                    c |= counts(sub)
            elif m["k"] == "optional":
                c |= counts(m["members"])
        return c

    def members(ms, pre, cnt):
        for m in ms:
            if m["k"] == "field":
                t = m["ty"]
                nm = pre + m["name"]
                if m["name"] in cnt or m["value"] is not None:
                    continue
                if t["t"] == "array":
                    inner = t["inner"]
                    if inner in corpus_mod.INTS or inner in corpus_mod.ALIAS or inner in corpus_mod.PRIMS:
                        k, w = value_kind(inner)
                        out.append((nm, "array-of-" + k, w))
                    else:
                        so = r.lookup(inner, target)
                        out.append((nm, "array-of-" + ("struct" if so["kind"] == "struct" else "definer"), 0))
                        if so["kind"] == "struct":
                            members(so["members"], nm + ".", counts(so["members"]))
                        else:
                            definer(nm, so)
                    continue
                n = t["name"]
                if n in corpus_mod.INTS or n in corpus_mod.ALIAS or n in corpus_mod.PRIMS:
                    k, w = value_kind(n)
                    out.append((nm, k, w))
                    continue
                so = r.lookup(n, target)
                if so["kind"] == "struct":
                    out.append((nm, "struct", 0))
                    members(so["members"], nm + ".", counts(so["members"]))
                else:
                    definer(nm, so)
            elif m["k"] == "if":
                for sub in [m["members"]] + [e["members"] for e in m["elseifs"]] + ([m["else"]] if m["else"] is not None else []):
                    members(sub, pre, cnt)
            elif m["k"] == "optional":
                members(m["members"], pre + m["name"] + "?.", cnt)

    def definer(nm, so):
        out.append((nm, "definer", 0))
        for f in so["fields"]:
            out.append((nm + "#" + f["name"], "enumerator=" + str(f["int"]), 0))
    members(o["members"], prefix, counts(o["members"]))
    return out


def run(tier, seed):
    rep = Report(PID, tier, seed, "proof")
    po = proof_obligations("WowVerif.Thm.C14", ["wowdrv"])
    add_proof_failures(rep, po)
    rc, out, har = harness_build("world")
    if rc != 0:
        rep.violation("C14/harness-build", "harness does not build against /repo", {"log": out[-3000:]}, no_input=True)
        rep.coverage = {"obligations": po["obligations"], "discharged": 0, "checker_cmd": "lake build WowVerif.Thm.C14", "trusted_base": TRUSTED_BASE_COMMON}
        return rep.finish()
    rng = SplitMix64(seed)
    conts = build_corpus()
    r = corpus_mod.Resolver()
    # ---- T-gen: the associated types `type VersionN = …` of every CollectiveMessage impl name the type protocol version N really uses
    import collective_alias
    al_out, al_prob = collective_alias.check()
    for p_ in al_prob:
        rep.violation(f"C14/associated-type/{p_['file']}/v{p_.get('version', 0)}", f"collective/{p_['file']}: {p_['problem']}", p_, no_input=True)
    for a_ in al_out:
        if not a_["ok"]:
            rep.violation(f"C14/associated-type/{a_['file']}/v{a_['version']}", f"collective/{a_['file']}: `type Version{a_['version']}` resolves to {a_['resolved']} but protocol version {a_['version']} uses {a_['expected']} for {a_['type']}: read_protocol / write_protocol({a_['version']}) run another version's codec",
                          a_, no_input=True)
    # ---- T-gen: the enum conversion tables of the hand-written impls, arm by arm (lift: same name; lower: same name for every enumerator the older
    # version has, explicitly) — `lower (lift v) = v` on the enum-valued members for every enumerator
    ct_out, ct_prob = collective_alias.conversion_tables()
    for p_ in ct_prob:
        rep.violation(f"C14/conversion-table/{p_['file']}/{p_['fn']}", f"collective/{p_['file']} {p_['fn']}: {p_['problem']}", p_, no_input=True)
    for a_ in ct_out:
        if not a_["ok"]:
            rep.violation(f"C14/conversion-table/{a_['file']}/{a_['fn']}/{a_['enumerator']}", f"collective/{a_['file']} {a_['fn']}: {a_['enum']}::{a_['enumerator']} is mapped to {a_['maps_to']} (the other version has an enumerator of the same name)",
                          dict(a_, input=f"a message whose {a_['enum']} is {a_['enumerator']}"), no_input=False)
    d = Driver()
    # ---- (a) embedding check on the schemas
    fams = sorted({o["name"] for o in r.objs if o["kind"] in ("clogin", "slogin")})
    emb_req, emb_meta = [], []
    for fam in fams:
        try:
            o8 = r.lookup(fam, 8)
        except corpus_mod.Unsupported:
            continue
        s8 = schema(r, o8, 8)
        for v in VERSIONS:
            try:
                ov = r.lookup(fam, v)
            except corpus_mod.Unsupported:
                continue
            sv = schema(r, ov, v)
            ids = {}

            def code(x):
                return ids.setdefault(x, len(ids))
            fa = ",".join(f"{code('N' + n)}:{code('T' + t)}:{w}" for n, t, w in sv) or "-"
            fb = ",".join(f"{code('N' + n)}:{code('T' + t)}:{w}" for n, t, w in s8) or "-"
            emb_req.append(f"embeds {fa} {fb}")
            emb_meta.append((fam, v, sv, s8, {v_: k for k, v_ in ids.items()}))
    emb = d.ask_many(emb_req)
    n_emb_ok = 0
    for (fam, v, sv, s8, names), rq, e in zip(emb_meta, emb_req, emb):
        if e.startswith("ok 1"):
            n_emb_ok += 1
        else:
            miss = [names.get(int(x.split(":")[0]), "?")[1:] + " : " + names.get(int(x.split(":")[1]), "?")[1:] + " width " + x.split(":")[2] for x in e.split("missing=")[1].split()] if "missing=" in e else [e]
            rep.violation(f"C14/embeds/{fam}/v{v}", f"{fam}: version {v} declares {miss[:4]} which version 8 (the collective type) does not declare with the same kind of value (or only narrower) — lifting cannot be lossless",
                          {"family": fam, "version": v, "missing_in_v8": miss, "schema_version": sv, "schema_v8": s8, "model_cmd": f"echo '{rq[:4000]}' | {driver_path()}"}, no_input=True)
    # ---- (b) correspondence
    login = [c for c in conts if c["lib"] == "login" and "tokens" in c]
    per = 6 if tier == "quick" else 60
    reqs, meta = [], []
    gq, gm = [], []
    for c in login:
        toks = c["tokens"]
        nenum = max([int(toks[i + 3]) for i in range(len(toks) - 3) if toks[i] == "enum" and toks[i + 3].isdigit()] + [0])
        for k in range(per):
            # first samples are branch-directed (every enumerator / single flag mask steering an `if`), the rest random
            gq.append(f"gen {c['key']} {rng.below(1 << 40)} {1 + rng.below(4)} {k if k < per - 2 else 1000000}")
            gm.append((c, "gen"))
        for k in range(min(nenum, 64)):
            # enumerator sweep: sample k gives every enum field its k-th declared enumerator
            gq.append(f"gen {c['key']} {rng.below(1 << 40)} 2 {500000 + k}")
            gm.append((c, "gen"))
        if "arrv" in toks:
            # counted arrays at the boundaries of the narrower count widths (a view with a u8 count next to one with a u16 count): exactly
            # 254 / 255 / 256 / 257 / 300 elements, as far as the version's own count field can say so
            for L_ in (254, 255, 256, 257, 300):
                gq.append(f"gen {c['key']} {rng.below(1 << 40)} {1000 + L_} 1000000")
                gm.append((c, "genlong"))      # not used for lowering version-8 values: 256 elements are not representable with a u8 count
        for site in range(3):
            gq.append(f"genbad {c['key']} {rng.below(1 << 40)} {site} {rng.below(3)}")
            gm.append((c, "bad"))
    go = d.ask_many(gq)
    d.close()
    seen = set()
    collective = {os.path.basename(f)[:-3].upper() for f in os.listdir(os.path.join(REPO, "wow_login_messages/src/collective")) if f.endswith(".rs") and f != "mod.rs"}
    for (c, how), g in zip(gm, go):
        if not g.startswith("ok") or c["name"].upper() not in collective:
            continue        # only message families that have a collective type (wow_login_messages/src/collective/<family>.rs)
        body = bytes.fromhex(g.split()[1]) if g.split()[1] != "-" else b""
        fr = bytes([c["opcode"]]) + body
        dr = directions(c)[0]
        v = c["target"]
        if v in VERSIONS:
            for cut in ([len(fr)] if how == "bad" else [len(fr), max(1, len(fr) - 1 - rng.below(3))]):
                rq = f"coll {v} {dr} {fr[:cut].hex()}"
                if rq not in seen:
                    seen.add(rq)
                    reqs.append(rq)
                    meta.append((c["name"], v, dr, ("gen" if how == "genlong" else how) if cut == len(fr) else "truncated"))
        elif v == 8 and how == "gen":
            for vv in VERSIONS:
                rq = f"coll8 {vv} {dr} {fr.hex()}"
                if rq not in seen:
                    seen.add(rq)
                    reqs.append(rq)
                    meta.append((c["name"], vv, dr, "lower8"))
    for lib, dr, bs, name in test_vectors(r.objs):
        if lib.startswith("login") and int(lib[5:]) in VERSIONS and name.upper() in collective:
            rq = f"coll {lib[5:]} {dr} {bs.hex()}"
            if rq not in seen:
                seen.add(rq)
                reqs.append(rq)
                meta.append((name, int(lib[5:]), dr, "test-vector"))
    ho = run_parallel(har, reqs, jobs=12)
    classes = collections.Counter()
    per_family = collections.Counter()
    for (name, v, dr, how), rq, h in zip(meta, reqs, ho):
        fr_hex = rq.split()[3]
        good, why = True, ""
        if rq.startswith("coll8"):
            if h.startswith("skip") or h.startswith("err"):
                classes["coll8:" + h.split()[0]] += 1
                continue
            m = re.match(r"ok idem=(\d) wok=(\d) back=(\d) wproto=(\S*) wown=(\S*)", h)
            if not m:
                good, why = False, "unexpected reply"
            elif m.group(1) != "1":
                good, why = False, "to_version_N(from_version_N(to_version_N(m))) differs from to_version_N(m)"
            elif m.group(2) != "1" or m.group(4) != m.group(5):
                good, why = False, "write_protocol(N) differs from version N's writer on the lowered value"
            elif m.group(3) != "1":
                good, why = False, "version N's reader does not return the lowered value from the bytes write_protocol(N) produced"
            classes["coll8:ok"] += 1
        else:
            if h.startswith("mismatch"):
                good, why = False, "version N's own reader and read_protocol(N) disagree on acceptance / message kind"
            elif h.startswith("err"):
                m = re.match(r"err own=(\S+) proto=(\S+)", h)
                if not m or m.group(1) != m.group(2):
                    good, why = False, "error kinds differ between version N's reader and read_protocol(N)"
                classes["coll:err"] += 1
            else:
                m0 = re.match(r"ok n_own=(\d+) n_proto=(\d+) lift=(\d) lower=(\d) lowermi=(\d) relower=(\d) wok=(\d) wproto=(\S*) wown=(\S*)", h)
                m = None
                if m0:
                    g_ = m0.groups()
                    m = re.match(r"(\S+) (\S+) (\S+) (\S+) (\S+) (\S+) (\S+) (\S+)", " ".join(g_[:4] + g_[5:]))
                if m and m0.group(4) == "0" and m0.group(5) == "1":
                    # the lowered value differs from version N's value ONLY in the raw integer of a flag struct: undeclared flag bits
                    classes["coll:undeclared-flag-bits"] += 1
                    per_family[name] += 1
                    rep.violation(f"C14/undeclared-flag-bits-dropped/{name}", f"{name} protocol version {v}: flag bits that no enumerator declares survive version {v}'s own codec but are dropped by from_version_{v} / to_version_{v}, so read_protocol({v}) + write_protocol({v}) does not reproduce the bytes: {h[h.find(' expected='):][:300]}",
                                  {"family": name, "version": v, "direction": dr, "input_hex": fr_hex, "implementation": h[:1200], "replay_cmd": f"echo '{rq}' | {har}"})
                    continue
                if not m:
                    good, why = False, "unexpected reply"
                elif m.group(1) != m.group(2):
                    good, why = False, "consumed byte counts differ"
                elif m.group(3) != "1":
                    good, why = False, "read_protocol(N) is not from_version_N of version N's value"
                elif m.group(4) != "1":
                    good, why = False, "to_version_N of the protocol value is not version N's value (lifting then lowering loses information)"
                elif m.group(5) != "1":
                    good, why = False, "to_version_N(from_version_N(a)) != a"
                elif m.group(6) != "1" or m.group(7) != m.group(8):
                    good, why = False, "write_protocol(N) differs from version N's writer"
                elif how in ("gen", "test-vector") and m.group(7) != fr_hex[:2 * int(m.group(1))]:
                    good, why = False, "write_protocol(N) does not reproduce the canonical bytes that were read"
                classes["coll:ok"] += 1
        per_family[name] += 1
        if not good:
            rep.violation(f"C14/{name}/v{v}/{why.split(' ')[0]}", f"{name} protocol version {v} ({how}): {why}: '{h[:240]}'",
                          {"family": name, "version": v, "direction": dr, "input_kind": how, "input_hex": fr_hex, "implementation": h, "replay_cmd": f"echo '{rq}' | {har}"})
    rep.coverage = {
        "obligations": po["obligations"] + len(emb_req), "discharged": po["discharged"] + n_emb_ok,
        "checker_cmd": "cd /verif/lean && lake build WowVerif.Thm.C14 && lake env lean WowVerif/Thm/C14.lean",
        "trusted_base": TRUSTED_BASE_COMMON + ["record abstraction of message values (field name -> value); the hand-written from_version_N / to_version_N bodies are exercised through the public API, not translated",
                                               "tools/wowm.py + the schema flattening in checks/c14.py (names, wire types, enumerators)"],
        "theorems": po["theorems"], "embedding_obligations": len(emb_req), "embedding_ok": n_emb_ok,
        "evaluations": len(reqs) + len(emb_req), "distinct_nontrivial": len(seen), "outcome_classes": dict(classes), "families_exercised": len(per_family),
        "per_family": dict(per_family.most_common(40)),
        "rule": "every login message of versions 2,3,5,6,7: generated canonical values (+1 truncation each), malformed values, wowm test vectors through version N's reader and read_protocol(N); every generated version-8 value lowered to each N",
        "samples": [{"request": reqs[i][:160], "implementation": ho[i][:200]} for i in (0, len(reqs) // 2, len(reqs) - 1)] if reqs else [],
    }
    rep.assumptions = ["values are compared through their Debug rendering (f32 NaN payloads are not distinguished; login messages contain no floats except realm population)",
                       "tokio / async-std protocol readers are covered by C06's copy-identity check"]
    return rep.finish()
