"""C16 — ill-formed wowm is rejected with the specific diagnostic of the rule it breaks.

Theorems (WowVerif/Thm/C16.lean): the version algebra transcribed from parser/types/version.rs — covers is inclusion of the
denoted build sets, overlaps is non-empty intersection, covers is a preorder, overlaps symmetric, lookup by version is
unambiguous when no two definitions of a name overlap (lookup_unique).
Fault injection against the real generator (scratch copy): each static rule is violated at several sites of the real
corpus (top level, inside structs referenced by messages, inside if / else-if / optional blocks, in files using #tag_all
and paste_versions); the generator must stop with the exit status of that rule (table re-read from
error_printer/mod.rs), and must accept the unmodified tree."""
import sys, os, re, collections
sys.path.insert(0, os.path.join(os.path.dirname(__file__), "..", "lib"))
sys.path.insert(0, os.path.join(os.path.dirname(__file__), "..", "tools"))
from genrun import *
import wowm

PID = "C16"


def read_codes():
    src = open(os.path.join(REPO, "wow_message_parser/src/error_printer/mod.rs")).read()
    return {m.group(1): int(m.group(2)) for m in re.finditer(r"pub\(crate\) const (\w+): i32 = (\d+);", src)}


def all_members(ms, depth=0, ctx="top"):
    for m in ms:
        yield m, depth, ctx
        if m["k"] == "if":
            yield from all_members(m["members"], depth + 1, "if")
            for e in m["elseifs"]:
                yield from all_members(e["members"], depth + 1, "elseif")
            if m["else"] is not None:
                yield from all_members(m["else"], depth + 1, "else")
        elif m["k"] == "optional":
            yield from all_members(m["members"], depth + 1, "optional")


class Site:
    def __init__(self, rule, path, edit, where):
        self.rule, self.path, self.edit, self.where = rule, path, edit, where


def build_sites(objs, rng):
    """one list of candidate sites per rule; each site edits exactly one wowm file"""
    by_name = collections.defaultdict(list)
    for o in objs:
        by_name[o["name"]].append(o)
    sites = collections.defaultdict(list)
    gen_objs = [o for o in objs if o["kind"] in ("struct", "cmsg", "smsg", "msg", "clogin", "slogin") and wowm.is_generated(o)]

    def line_edit(path, lineno, fn):
        def apply(root):
            p = os.path.join(root, os.path.relpath(path, REPO))
            lines = open(p).read().split("\n")
            new = fn(lines[lineno - 1])
            if new == lines[lineno - 1]:
                return False
            lines[lineno - 1] = new
            open(p, "w").write("\n".join(lines))
            return True
        return apply

    def append_edit(path, text):
        def apply(root):
            p = os.path.join(root, os.path.relpath(path, REPO))
            open(p, "a").write("\n" + text + "\n")
            return True
        return apply

    definers = {o["name"]: o for o in objs if o["kind"] in ("enum", "flag")}
    names_with_tests = {t_["name"] for t_ in objs if t_["kind"] == "test"}
    # replacement names for the unknown-type rule: a name that exists nowhere, a name that exists only in the OTHER protocol family
    # (login <-> world), and a name that exists only for world versions the user does not have — the diagnostic must be the rule's in every case
    typed = [x for x in objs if x["kind"] in ("enum", "flag", "struct")]
    names_login = sorted({x["name"] for x in typed if x["login"]} - {x["name"] for x in typed if x["world"]})
    names_world = sorted({x["name"] for x in typed if x["world"]} - {x["name"] for x in typed if x["login"]})

    def replacements(o):
        out = [("nowhere", "NoSuchTypeXyz")]
        if o["world"] and names_login:
            out.append(("other-family", names_login[len(o["name"]) % len(names_login)]))
        if o["login"] and names_world:
            out.append(("other-family", names_world[len(o["name"]) % len(names_world)]))
        if o["world"]:
            mine = [v for v in o["world"]]
            others = sorted({x["name"] for x in typed if x["world"] and not x["login"] and not any(wowm.world_overlaps(a, b) for a in x["world"] for b in mine)}
                            - {x["name"] for x in typed if x["world"] and any(wowm.world_overlaps(a, b) for a in x["world"] for b in mine)})
            if others:
                out.append(("other-version", others[len(o["name"]) % len(others)]))
        return out
    for o in gen_objs:
        tagk = "paste" if o.get("pasted") else ("tag_all" if not any(k in ("versions", "login_versions", "paste_versions") for k, _ in o["tags"]) else "own")
        for m, depth, ctx in all_members(o["members"]):
            where = f"{o['kind']} {o['name']} ({tagk}) depth {depth} in {ctx}"
            if m["k"] == "field" and m["ty"]["t"] == "name":
                tn = m["ty"]["name"]
                if tn in definers or tn in by_name:
                    # unknown type
                    for rk, rn in replacements(o):
                        sites["COMPLEX_NOT_FOUND"].append(Site("COMPLEX_NOT_FOUND", o["file"], line_edit(o["file"], m["line"], lambda s, tn=tn, rn=rn: re.sub(r"\b" + tn + r"\b", rn, s, count=1)), where + f" replaced-by {rk}-{'x' * len(rk)}"))
                if tn in definers and not m["ty"].get("upcast") and definers[tn]["kind"] == "enum" and definers[tn]["ty"] in ("u8", "u16"):
                    same = definers[tn]["ty"]
                    sites["TYPE_IS_UPCAST_TO_SAME"].append(Site("TYPE_IS_UPCAST_TO_SAME", o["file"], line_edit(o["file"], m["line"], lambda s, tn=tn, same=same: re.sub(r"\b" + tn + r"\b", f"({same}){tn}", s, count=1)), where))
                if tn in ("u8", "u16", "u32") and not m["ty"].get("upcast"):
                    # an upcast is only defined for enums: `(u64)u32 x;`
                    sites["UNSUPPORTED_UPCAST"].append(Site("UNSUPPORTED_UPCAST", o["file"], line_edit(o["file"], m["line"], lambda s, tn=tn: re.sub(r"\b" + tn + r"\b", f"(u64){tn}", s, count=1)), where))
                # duplicate field name: repeat the declaration on the same line
                sites["DUPLICATE_FIELD_NAMES"].append(Site("DUPLICATE_FIELD_NAMES", o["file"], line_edit(o["file"], m["line"], lambda s: s + " " + s.strip() if s.strip().endswith(";") else s), where))
            if m["k"] == "if":
                var, op, val = m["conds"][0]
                # a NEW nested conditional with the wrong operator, inserted behind the first member of every kind of body of this statement (if body,
                # each else-if body, else body): `T zz; if (zz <wrong op> ENUMERATOR) { u8 zz2; }` with T the type of this statement's own variable
                vt = next((mm["ty"]["name"] for mm, _, _ in all_members(o["members"]) if mm["k"] == "field" and mm["name"] == var and mm["ty"]["t"] == "name"), None)
                if vt in definers and op in ("==", "&") and len(m["conds"]) == 1:
                    rule_ = "ENUM_HAS_BITWISE_AND" if definers[vt]["kind"] == "enum" else "FLAG_HAS_EQUALS"
                    bad = "&" if definers[vt]["kind"] == "enum" else "=="
                    bodies = [("if-body", m["members"])] + [(f"else-if-body", e["members"]) for e in m["elseifs"]] + [("else-body", m["else"] or [])]
                    for bk, bm in bodies:
                        if bm and bm[0]["k"] == "field":
                            snippet = f" {vt} zz_verif_nested; if (zz_verif_nested {bad} {val}) {{ u8 zz_verif_inner; }}"
                            sites[rule_].append(Site(rule_, o["file"], line_edit(o["file"], bm[0]["line"], lambda s, snippet=snippet: s + snippet if s.strip().endswith(";") else s), where + f" inserted-in {bk}"))
                if op == "==" :
                    sites["MISSING_ENUMERATOR"].append(Site("MISSING_ENUMERATOR", o["file"], line_edit(o["file"], m["line"], lambda s, val=val: re.sub(r"\b" + re.escape(val) + r"\b", "NO_SUCH_ENUMERATOR_XYZ", s, count=1)), where))
                    if len(m["conds"]) == 1:
                      sites["ENUM_HAS_BITWISE_AND"].append(Site("ENUM_HAS_BITWISE_AND", o["file"], line_edit(o["file"], m["line"], lambda s: s.replace("==", "&", 1)), where))
                    if len(m["conds"]) > 1:
                        def other_var(root, o=o, m=m, var=var):
                            # the `||` may stand on a continuation line of the condition
                            p = os.path.join(root, os.path.relpath(o["file"], REPO))
                            lines = open(p).read().split("\n")
                            for i in range(m["line"] - 1, min(len(lines), m["line"] + 6)):
                                new = re.sub(r"\|\|\s*" + var + r"\b", "|| other_variable_xyz", lines[i], count=1)
                                if new != lines[i]:
                                    lines[i] = new
                                    open(p, "w").write("\n".join(lines))
                                    return True
                            return False
                        sites["NON_MATCHING_IF_VARIABLES"].append(Site("NON_MATCHING_IF_VARIABLES", o["file"], other_var, where))
                if op in ("&", "==") and len(m["conds"]) == 1:
                    # a NEW `||` chain whose second term tests another variable (the corpus has no `&` chains at all)
                    def chain(root, o=o, m=m, var=var, op=op, val=val):
                        p = os.path.join(root, os.path.relpath(o["file"], REPO))
                        lines = open(p).read().split("\n")
                        for i in range(m["line"] - 1, min(len(lines), m["line"] + 3)):
                            new = re.sub(r"\b" + re.escape(var) + r"\s*" + re.escape(op) + r"\s*" + re.escape(val) + r"\b", f"{var} {op} {val} || other_variable_xyz {op} {val}", lines[i], count=1)
                            if new != lines[i]:
                                lines[i] = new
                                open(p, "w").write("\n".join(lines))
                                return True
                        return False
                    sites["NON_MATCHING_IF_VARIABLES"].append(Site("NON_MATCHING_IF_VARIABLES", o["file"], chain, where + (" new-and-chain" if op == "&" else " new-eq-chain")))
                if op == "&":
                    sites["MISSING_ENUMERATOR"].append(Site("MISSING_ENUMERATOR", o["file"], line_edit(o["file"], m["line"], lambda s, val=val: re.sub(r"\b" + re.escape(val) + r"\b", "NO_SUCH_ENUMERATOR_XYZ", s, count=1)), where))
                    if len(m["conds"]) == 1:
                      sites["FLAG_HAS_EQUALS"].append(Site("FLAG_HAS_EQUALS", o["file"], line_edit(o["file"], m["line"], lambda s: s.replace("&", "==", 1)), where))
        # object-level rules
        where = f"{o['kind']} {o['name']} ({tagk})"
        # the two halves of a MSG pair share one entry of the opcode index: a context of their own for the index rules
        half = "server half of a MSG pair" if o["name"].endswith("_Server") else "client half of a MSG pair" if o["name"].endswith("_Client") else "plain"
        where_ix = where + " " + half
        # misplaced self.size: a `= self.size` field may only follow members of constant size — not a string / packed guid / variable array,
        # not an if statement, not an optional
        VAR_TYPES = ("CString", "SizedCString", "String", "PackedGuid")
        seen_cond = False
        for m in o["members"]:
            if m["k"] in ("if", "optional"):
                seen_cond = True
                continue
            if m["k"] != "field" or any(mm.get("value") == "self.size" for mm in o["members"] if mm["k"] == "field"):
                continue
            t_ = m["ty"]
            variable = (t_["t"] == "name" and t_["name"] in VAR_TYPES) or (t_["t"] == "array" and t_["size"][0] != "fixed")
            if variable or seen_cond:
                kind_ = "after-variable-member" if variable else "after-conditional"
                sites["INVALID_SELF_SIZE"].append(Site("INVALID_SELF_SIZE", o["file"], line_edit(o["file"], m["line"], lambda s: s + " u16 zz_verif_size = self.size;" if s.strip().endswith(";") else s), where + " " + kind_))
        # message name / opcode against the opcode index (world messages): a known opcode under another name, a name the index does not have
        if o["kind"] in ("cmsg", "smsg", "msg") and o.get("opcode_int") is not None and o["name"] not in names_with_tests:
            nm_ = o["name"]
            sites["OPCODE_HAS_INCORRECT_NAME"].append(Site("OPCODE_HAS_INCORRECT_NAME", o["file"], line_edit(o["file"], o["line"], lambda s, nm_=nm_: re.sub(r"\b" + nm_ + r"\b", nm_ + "_ZZVERIF", s, count=1)), where_ix))

            def not_in_index(root, o=o, nm_=nm_):
                p = os.path.join(root, os.path.relpath(o["file"], REPO))
                lines = open(p).read().split("\n")
                ln = lines[o["line"] - 1]
                new = re.sub(r"\b" + nm_ + r"\b", nm_ + "_ZZVERIF", ln, count=1)
                new = re.sub(r"=\s*0x[0-9A-Fa-f]+", "= 0x0FE7", new, count=1)
                if new == ln:
                    return False
                lines[o["line"] - 1] = new
                open(p, "w").write("\n".join(lines))
                return True
            sites["MESSAGE_NOT_IN_INDEX"].append(Site("MESSAGE_NOT_IN_INDEX", o["file"], not_in_index, where))
        if o["kind"] == "struct":
            first = o["members"][0] if o["members"] else None
            if first is not None and first["k"] == "field":
                sites["RECURSIVE_TYPE"].append(Site("RECURSIVE_TYPE", o["file"], line_edit(o["file"], first["line"], lambda s, n=o["name"]: s + f" {n} recursive_member_xyz;"), where))
        if tagk == "own":
            vers = [k for k, _ in o["tags"] if k in ("versions", "login_versions")]
            if vers == ["versions"]:
                def both(root, o=o):
                    p = os.path.join(root, os.path.relpath(o["file"], REPO))
                    txt = open(p).read()
                    lines = txt.split("\n")
                    # find the versions tag of this object (first `versions =` at/after the object's line)
                    for i in range(o["line"] - 1, len(lines)):
                        if re.search(r"\bversions\s*=", lines[i]):
                            lines[i] = lines[i] + ' login_versions = "2";'
                            open(p, "w").write("\n".join(lines))
                            return True
                    return False
                sites["BOTH_LOGIN_AND_WORLD_VERSIONS"].append(Site("BOTH_LOGIN_AND_WORLD_VERSIONS", o["file"], both, where))

                def nover(root, o=o):
                    p = os.path.join(root, os.path.relpath(o["file"], REPO))
                    lines = open(p).read().split("\n")
                    for i in range(o["line"] - 1, len(lines)):
                        if re.search(r"\bversions\s*=\s*\"[^\"]*\";", lines[i]):
                            lines[i] = re.sub(r"\bversions\s*=\s*\"[^\"]*\";", 'comment = "no version";', lines[i], count=1)
                            open(p, "w").write("\n".join(lines))
                            return True
                    return False
                sites["NO_VERSIONS"].append(Site("NO_VERSIONS", o["file"], nover, where))
        if o["kind"] in ("cmsg", "smsg", "msg") and o["opcode"] and tagk != "paste":
            sites["INCORRECT_OPCODE_FOR_MESSAGE"].append(Site("INCORRECT_OPCODE_FOR_MESSAGE", o["file"], line_edit(o["file"], o["line"], lambda s, oc=o["opcode"]: s.replace(oc, "0x5FF", 1)), where_ix))
            # … and the neighbouring opcode (another message's number) instead of one nobody uses
            if o.get("opcode_int") is not None:
                sites["INCORRECT_OPCODE_FOR_MESSAGE"].append(Site("INCORRECT_OPCODE_FOR_MESSAGE", o["file"], line_edit(o["file"], o["line"], lambda s, oc=o["opcode"], oi=o["opcode_int"]: s.replace(oc, f"0x{oi + 1:04X}", 1)), where_ix + " neighbour"))
    for name, d in definers.items():
        if not wowm.is_generated(d) or len(d["fields"]) < 2:
            continue
        where = f"{d['kind']} {name}"
        f0, f1 = d["fields"][0], d["fields"][1]
        if d["kind"] == "enum":
            sites["DUPLICATE_DEFINER_VALUES"].append(Site("DUPLICATE_DEFINER_VALUES", d["file"], line_edit(d["file"], d["line"], lambda s: s) if False else (lambda root, d=d, f0=f0, f1=f1: _replace_value(root, d, f1, f0["value"])), where))
        sites["INVALID_DEFINER_VALUE"].append(Site("INVALID_DEFINER_VALUE", d["file"], (lambda root, d=d, f1=f1: _replace_value(root, d, f1, "asdf_not_a_value")), where))
        if d["ty"] == "u8":
            sites["DEFINER_WITH_INVALID_VALUE"].append(Site("DEFINER_WITH_INVALID_VALUE", d["file"], (lambda root, d=d, f1=f1: _replace_value(root, d, f1, "0x1FF")), where + " value 0x1FF"))
            # boundary: the smallest value that does not fit the base type
            sites["DEFINER_WITH_INVALID_VALUE"].append(Site("DEFINER_WITH_INVALID_VALUE", d["file"], (lambda root, d=d, f1=f1: _replace_value(root, d, f1, "0x100")), where + " value 0x100 (smallest out-of-range)"))
        sites["INVALID_INTEGER_TYPE"].append(Site("INVALID_INTEGER_TYPE", d["file"], line_edit(d["file"], d["line"], lambda s, t=d["ty"]: re.sub(r":\s*" + t + r"\b", ": f32", s, count=1)), where))
        if d["kind"] == "flag":
            sites["FLAG_WITH_SIGNED_TYPE"].append(Site("FLAG_WITH_SIGNED_TYPE", d["file"], line_edit(d["file"], d["line"], lambda s, t=d["ty"]: re.sub(r":\s*" + t + r"\b", ": i32", s, count=1)), where))
    return sites


def _replace_value(root, d, field, newval):
    p = os.path.join(root, os.path.relpath(d["file"], REPO))
    lines = open(p).read().split("\n")
    pat = re.compile(r"\b" + re.escape(field["name"]) + r"\s*=\s*" + re.escape(field["value"]))
    for i in range(d["line"] - 1, min(len(lines), d["line"] + 400)):
        if pat.search(lines[i]):
            lines[i] = pat.sub(f"{field['name']} = {newval}", lines[i], count=1)
            open(p, "w").write("\n".join(lines))
            return True
    return False


VERSION_PAIRS = [("1", "1.12"), ("2.4.3", "2.4.3.8606"), ("1.12", "1.11"), ("1.12", "1.12.1"), ("2", "1"), ("2.4.3", "2.4"), ("1.12.1.5875", "1.12.1.6005"), ("3.3.5.12340", "3.3.5.12340"), ("*", "3.3.5"), ("3.3", "3.2"), ("1.12.1", "1.12.2"), ("1.2", "1.12")]


def run(tier, seed):
    rep = Report(PID, tier, seed, "fault_enumeration")
    po = proof_obligations("WowVerif.Thm.C16", [])
    add_proof_failures(rep, po)
    rng = SplitMix64(seed)
    codes = read_codes()
    objs = wowm.load_tree(os.path.join(REPO, "wow_message_parser/wowm"))
    sites = build_sites(objs, rng)
    per_rule = 2 if tier == "quick" else 12
    runs, results, samples = 0, collections.Counter(), []
    with GenScratch() as g:
        rc, out, _ = g.build()
        if rc != 0:
            rep.violation("C16/generator-build", "the generator does not build", {"log": out[-3000:]}, no_input=True)
            rep.coverage = {"evaluations": 1, "distinct_nontrivial": 2, "rule": "build failed", "samples": ["-"]}
            return rep.finish()
        rc, out, _ = g.run(); runs += 1
        if rc != 0:
            rep.violation("C16/unmodified-tree-rejected", f"the generator rejects the unmodified tree with status {rc}", {"log": out[-1500:], "input": "unmodified tree"})
        for rule in sorted(sites):
            if rule not in codes:
                rep.violation(f"C16/rule-table/{rule}", f"rule {rule} has no exit status in error_printer/mod.rs", {"rule": rule}, no_input=True)
                continue
            cands = sites[rule]
            # spread over contexts: prefer distinct `where` kinds
            picked, seen_ctx = [], set()
            order = list(range(len(cands)))
            if rule in ("INCORRECT_OPCODE_FOR_MESSAGE", "OPCODE_HAS_INCORRECT_NAME", "MESSAGE_NOT_IN_INDEX", "ENUM_HAS_BITWISE_AND", "FLAG_HAS_EQUALS", "NON_MATCHING_IF_VARIABLES"):
                # the index rules: one site of EVERY context (message kind, half of a MSG pair, own tags / paste, unused / neighbouring number)
                by_ctx = collections.defaultdict(list)
                for i in order:
                    by_ctx[re.sub(r"\b[A-Z][A-Za-z0-9_]+\b", "N", cands[i].where)].append(i)
                prio = lambda cx: (0 if ("else-if-body" in cx or "new-and-chain" in cx) else 1 if ("else-body" in cx or "new-eq-chain" in cx) else 2 if "inserted-in" in cx else 3, cx)
                for ctx in sorted(by_ctx, key=prio)[:(24 if rule.endswith(("MESSAGE", "NAME", "INDEX")) else 14)]:
                    i = rng.choice(by_ctx[ctx])
                    picked.append(cands[i]); seen_ctx.add(ctx); order.remove(i)
            for _ in range(min(len(order), 400)):
                i = order.pop(rng.below(len(order)))
                ctx = re.sub(r"\b[A-Z][A-Za-z0-9_]+\b", "N", cands[i].where)
                if ctx in seen_ctx and len(picked) + len(order) >= per_rule and rng.below(3):
                    continue
                seen_ctx.add(ctx)
                picked.append(cands[i])
                if len(picked) >= (max(per_rule, 5) if rule == "COMPLEX_NOT_FOUND" else per_rule):
                    break
            for s in picked:
                g.resync()
                if not s.edit(SCRATCH):
                    continue
                rc, out, _ = g.run(); runs += 1
                results[(rule, rc == codes[rule])] += 1
                if len(samples) < 6:
                    samples.append({"rule": rule, "site": s.where, "file": os.path.relpath(s.path, REPO), "expected_status": codes[rule], "status": rc})
                if rc != codes[rule]:
                    key = f"C16/{rule}/status-{rc}" + ("/boundary-2^n" if "smallest out-of-range" in s.where else "")
                    rep.violation(key, f"violating {rule} at {s.where} ({os.path.relpath(s.path, REPO)}) gives exit status {rc}, the rule's status is {codes[rule]}",
                                  {"rule": rule, "site": s.where, "file": os.path.relpath(s.path, REPO), "expected_status": codes[rule], "status": rc, "log": out[-800:],
                                   "input": "apply the described edit to the wowm file and run the generator"})
        # overlapping versions: pairs of version strings on two copies of one object
        npairs = 3 if tier == "quick" else len(VERSION_PAIRS)
        for a, b in VERSION_PAIRS[:npairs]:
            g.resync()
            p = os.path.join(SCRATCH, "wow_message_parser/wowm/world/zz_verif_overlap.wowm")
            open(p, "w").write(f'enum VerifOverlapProbe : u8 {{ A = 0; B = 1; }} {{ versions = "{a}"; }}\nenum VerifOverlapProbe : u8 {{ A = 0; B = 1; C = 2; }} {{ versions = "{b}"; }}\n')
            rc, out, _ = g.run(); runs += 1
            va, vb = wowm.parse_world_version(a), wowm.parse_world_version(b)
            want = codes.get("OVERLAPPING_VERSIONS") if wowm.world_overlaps(va, vb) else 0
            results[("OVERLAPPING_VERSIONS", rc == want)] += 1
            if rc != want:
                rep.violation(f"C16/OVERLAPPING_VERSIONS/{a}-vs-{b}", f"two definitions of one name with versions \"{a}\" and \"{b}\": exit status {rc}, expected {want} (overlaps = {want != 0})",
                              {"versions": [a, b], "expected_status": want, "status": rc, "log": out[-600:], "input": open(p).read()})
        # families of 3-4 definitions of one name, each tagged with one or two versions: rejected iff SOME pair of definitions overlaps
        # (not only neighbours in some order, not only the first version of a tag) — predicted by the version algebra
        pool = ["1", "1.1", "1.12", "1.12.1", "2", "2.4", "2.4.3", "3", "3.3", "3.3.5"]
        fams = [["1.12 3", "2.4.3", "3.3.5"], ["1.1 3.3.5", "1.12", "2.4.3", "3.3.5"], ["1.12", "2.4.3", "3.3.5"], ["3.3.5", "1.12 2", "2.4.3 1.1"]]
        for _ in range(2 if tier == "quick" else 30):
            fam = []
            for _ in range(3 + rng.below(2)):
                a = rng.choice(pool)
                tag = a
                if rng.below(2):
                    b = rng.choice([x for x in pool if x[0] != a[0]])
                    tag = f"{a} {b}" if rng.below(2) else f"{b} {a}"
                fam.append(tag)
            fams.append(fam)
        for fam in fams:
            g.resync()
            p = os.path.join(SCRATCH, "wow_message_parser/wowm/world/zz_verif_overlap.wowm")
            open(p, "w").write("".join(f'enum VerifOverlapProbe : u8 {{ A = 0; B = {i + 1}; }} {{ versions = "{t}"; }}\n' for i, t in enumerate(fam)))
            rc, out, _ = g.run(); runs += 1
            vs = [[wowm.parse_world_version(x) for x in t.split()] for t in fam]
            clash = any(wowm.world_overlaps(x, y) for i in range(len(vs)) for j in range(i + 1, len(vs)) for x in vs[i] for y in vs[j])
            want = codes.get("OVERLAPPING_VERSIONS") if clash else 0
            results[("OVERLAPPING_VERSIONS", rc == want)] += 1
            if rc != want:
                rep.violation(f"C16/OVERLAPPING_VERSIONS/family/{'|'.join(fam)}", f"{len(fam)} definitions of one name tagged {fam}: exit status {rc}, expected {want} (some pair overlaps = {clash})",
                              {"versions": fam, "expected_status": want, "status": rc, "log": out[-600:], "input": open(p).read()})
        # a type must FULFIL ALL version obligations of its user: for every version of the user's tag some version of the type's tag
        # covers it (version algebra: covers = inclusion of build sets); otherwise the type does not exist for that version
        cover_pairs = [("1.12", "1.12 2"), ("1 2", "1.12 2.4.3"), ("1.12", "1"), ("1.12 2", "1.12 2"), ("1", "1.12"), ("2.4.3 1.12", "1.12"), ("3", "1.12 2"), ("1.12 2", "1.12 2 3"), ("2 1.12 3.3.5", "3.3.5 2.4.3")]
        for _ in range(2 if tier == "quick" else 30):
            mk = lambda: " ".join(dict.fromkeys(rng.choice(pool) for _ in range(1 + rng.below(3))))
            cover_pairs.append((mk(), mk()))
        for T, U in cover_pairs if tier != "quick" else cover_pairs[:6] + cover_pairs[-2:]:
            tv = [wowm.parse_world_version(x) for x in T.split()]
            uv = [wowm.parse_world_version(x) for x in U.split()]
            if any(wowm.world_overlaps(x, y) for i, x in enumerate(tv) for y in tv[i + 1:]) or any(wowm.world_overlaps(x, y) for i, x in enumerate(uv) for y in uv[i + 1:]):
                continue          # a tag whose own versions overlap is a different rule (VERSION_TAGS_OVERLAP)
            g.resync()
            p = os.path.join(SCRATCH, "wow_message_parser/wowm/world/zz_verif_cover.wowm")
            open(p, "w").write(f'enum VerifCoverProbe : u8 {{ A = 0; B = 1; }} {{ versions = "{T}"; }}\nstruct VerifCoverUser {{ VerifCoverProbe p; }} {{ versions = "{U}"; }}\n')
            rc, out, _ = g.run(); runs += 1
            fulfilled = all(any(wowm.world_covers(t, u) for t in tv) for u in uv)
            want = 0 if fulfilled else codes.get("COMPLEX_NOT_FOUND")
            results[("COMPLEX_NOT_FOUND/coverage", rc == want)] += 1
            if rc != want:
                rep.violation(f"C16/COMPLEX_NOT_FOUND/coverage/{T}|{U}", f"a struct tagged \"{U}\" using an enum tagged \"{T}\": exit status {rc}, expected {want} (every version of the user covered = {fulfilled})",
                              {"type_versions": T, "user_versions": U, "expected_status": want, "status": rc, "log": out[-600:], "input": open(p).read()})
    bad = sum(v for (r, ok), v in results.items() if not ok)
    rep.coverage = {
        "evaluations": runs, "distinct_nontrivial": runs, "generator_runs": runs, "rules_exercised": sorted({r for r, _ in results}), "sites_available": {k: len(v) for k, v in sites.items()},
        "status_table": codes, "mismatches": bad,
        "rule": f"{per_rule} sites per rule chosen by seed across distinct contexts (object kind, own tags / #tag_all / paste_versions, nesting depth, if / else-if / else / optional); one generator run per injected violation; overlapping-version pairs predicted by the version algebra",
        "spec_theorems": po["theorems"], "spec_obligations": po["obligations"], "spec_discharged": po["discharged"],
        "samples": samples,
    }
    rep.assumptions = ["the rule -> exit status table is re-read from error_printer/mod.rs", "INVALID_SELF_SIZE, MESSAGE_NOT_IN_INDEX and OPCODE_HAS_INCORRECT_NAME are not injected yet"]
    return rep.finish()
