"""C10 — the intermediate representation is schema-valid and faithful to the wowm.

Translation validation: the CURRENT generator is run on a scratch copy of /repo; the intermediate_representation.json it
emits is (a) validated against intermediate_representation_schema.json with an RFC 8927 (JSON Typedef) validator written for
this purpose (tools/jtd.py; the schema itself is checked for well-formedness, and the validator is exercised on mutated
instances in every run) and (b) compared object by object with an independent reading of the wowm sources (tools/wowm.py):
names, kinds, opcodes, integer types, enumerator names and values (with their original spelling), member order, types
(incl. upcasts), array kinds and sizes, constants, conditional structure (an `else` arm is the complement of the arms
before it), optional tails, versions and other tags, test vectors (bytes and member values); every source object must occur
in the IR exactly once per version set and the IR must contain nothing else.
No universally quantified theorem applies to this property (it is a statement about one generated artefact); the Lean model
takes part through the closed-syntax translation of every IR container, which must be token-identical with the translation
of the wowm source that all codec theorems (C01, C03, C09, C17) are stated about."""
import sys, os, re, json, collections, copy
sys.path.insert(0, os.path.join(os.path.dirname(__file__), "..", "lib"))
sys.path.insert(0, os.path.join(os.path.dirname(__file__), "..", "tools"))
sys.path.insert(0, os.path.dirname(__file__))
from vlib import *
import wowm, jtd, genrun

PID = "C10"
INTS = {"U8": "u8", "U16": "u16", "U32": "u32", "U64": "u64", "I8": "i8", "I16": "i16", "I32": "i32", "I64": "i64", "U48": "u48"}
BOOLS = {"U8": "Bool", "U16": "Bool16", "U32": "Bool32", "U64": "Bool64"}
KIND = {"Struct": "struct", "CLogin": "clogin", "SLogin": "slogin", "Msg": "msg", "CMsg": "cmsg", "SMsg": "smsg"}


def ir_type(dt):
    """IR data type -> (wowm type name, upcast) or ('array', inner, size)"""
    t = dt["data_type_tag"]
    if t == "Integer":
        return ("name", INTS.get(dt["integer_type"], dt["integer_type"]), None)
    if t == "Bool":
        return ("name", BOOLS.get(dt["integer_type"], "Bool?" + dt["integer_type"]), None)
    if t in ("Enum", "Flag"):
        return ("name", dt["type_name"], INTS.get(dt["integer_type"]) if dt["upcast"] else None)
    if t == "Struct":
        return ("name", dt["struct_data"]["name"], None)
    if t == "FloatingPoint":
        return ("name", "f32", None)
    if t == "Array":
        it = dt["inner_type"]
        k = it["array_type_tag"]
        inner = INTS.get(it.get("integer_type"), it.get("integer_type")) if k == "Integer" else it["struct_data"]["name"] if k == "Struct" else k
        sz = dt["size"]
        size = ("fixed", int(sz["size"])) if sz["array_size_tag"] == "Fixed" else ("var", sz["size"]) if sz["array_size_tag"] == "Variable" else ("endless",)
        return ("array", inner, size, bool(dt.get("compressed")))
    return ("name", {"MonsterMoveSpline": "MonsterMoveSplines"}.get(t, t), None)      # the IR's tag for the wowm type MonsterMoveSplines


def src_type(m, definers):
    t = m["ty"]
    if t["t"] == "array":
        size = tuple(t["size"]) if t["size"][0] != "endless" else ("endless",)
        if size[0] == "fixed":
            size = ("fixed", int(size[1]))
        return ("array", t["inner"], size, any(k == "compressed" for k, _ in m["tags"]))
    n = t["name"]
    n = {"f32": "f32", "u32_be": "u32", "u16_be": "u16", "u64_be": "u64"}.get(n, n)
    return ("name", n, t.get("upcast"))


def cond_values(conds, definer):
    """the enumerators selected by a wowm condition, as the IR lists them"""
    op = conds[0][1]
    names = [c[2] for c in conds]
    if op == "!=":
        return sorted(f["name"] for f in definer["fields"] if f["name"] not in names) if definer else ["!=" + names[0]]
    return sorted(names)


class Cmp:
    def __init__(self, resolver_lookup):
        self.lookup = resolver_lookup

    def definer_of(self, root, var, target):
        for m in root:
            if m["k"] == "field" and m["name"] == var and m["ty"]["t"] == "name":
                return self.lookup(m["ty"]["name"], target)
            if m["k"] == "if":
                for sub in [m["members"]] + [e["members"] for e in m["elseifs"]] + ([m["else"]] if m["else"] is not None else []):
                    r = self.definer_of(sub, var, target)
                    if r:
                        return r
            if m["k"] == "optional":
                r = self.definer_of(m["members"], var, target)
                if r:
                    return r
        return None

    def src_members(self, ms, root, target):
        out = []
        for m in ms:
            if m["k"] == "field":
                v = m["value"]
                out.append(("field", m["name"], src_type(m, None), v))
            elif m["k"] == "if":
                var = m["conds"][0][0]
                d = self.definer_of(root, var, target)
                arms = [(cond_values(m["conds"], d), self.src_members(m["members"], root, target))]
                for e in m["elseifs"]:
                    arms.append((cond_values(e["conds"], d), self.src_members(e["members"], root, target)))
                els = None
                if m["else"] is not None:
                    els = self.src_members(m["else"], root, target)
                out.append(("if", var, m["conds"][0][1] if m["conds"][0][1] != "!=" else "==", arms, els, d["name"] if d else None, d["kind"] if d else None,
                            sorted(f["name"] for f in d["fields"]) if d else []))
            elif m["k"] == "optional":
                out.append(("optional", m["name"], self.src_members(m["members"], root, target)))
        return out


def ir_members(ms):
    out = []
    for m in ms:
        c = m["struct_member_content"]
        tag = m["struct_member_tag"]
        if tag == "Definition":
            cv = c["constant_value"]["original_string"] if c["constant_value"] else None
            if c.get("size_of_fields_before_size") is not None and cv is None:
                cv = "self.size"
            out.append(("field", c["name"], ir_type(c["data_type"]), cv))
        elif tag == "IfStatement":
            out.append(("irif", c))
        else:
            out.append(("optional", c.get("name"), ir_members(c["members"])))
    return out


def compare_members(src, ir, path, diffs):
    """src: list from Cmp.src_members; ir: list from ir_members"""
    if len(src) != len(ir):
        diffs.append(f"{path}: {len(src)} members in the wowm, {len(ir)} in the IR ({[x[1] for x in src][:6]} vs {[x[1] if x[0] != 'irif' else 'if ' + x[1]['variable_name'] for x in ir][:6]})")
        return
    for i, (a, b) in enumerate(zip(src, ir)):
        p = f"{path}[{i}]"
        if a[0] == "field":
            if b[0] != "field":
                diffs.append(f"{p}: field {a[1]} in the wowm, {b[0]} in the IR")
                continue
            if a[1] != b[1]:
                diffs.append(f"{p}: name {a[1]} vs {b[1]}")
            if a[2] != b[2]:
                diffs.append(f"{p} {a[1]}: type {a[2]} vs {b[2]}")
            av, bv = a[3], b[3]
            if (av is None) != (bv is None) or (av is not None and str(av) != str(bv) and wowm.parse_int(str(av)) != wowm.parse_int(str(bv))):
                diffs.append(f"{p} {a[1]}: constant {av} vs {bv}")
        elif a[0] == "optional":
            if b[0] != "optional":
                diffs.append(f"{p}: optional {a[1]} in the wowm, {b[0]} in the IR")
                continue
            if a[1] != b[1]:
                diffs.append(f"{p}: optional name {a[1]} vs {b[1]}")
            compare_members(a[2], b[2], p + ".optional", diffs)
        else:
            if b[0] != "irif":
                diffs.append(f"{p}: if ({a[1]} …) in the wowm, {b[0]} {b[1]} in the IR")
                continue
            c = b[1]
            _, var, op, arms, els, dname, dkind, allnames = a
            if c["variable_name"] != var:
                diffs.append(f"{p}: condition variable {var} vs {c['variable_name']}")
            if dname and c["original_type"].get("type_name") != dname:
                diffs.append(f"{p}: condition type {dname} vs {c['original_type'].get('type_name')}")
            if dkind and c["definer_type"].lower() != dkind:
                diffs.append(f"{p}: definer kind {dkind} vs {c['definer_type']}")
            ir_arms = [(sorted(c["values"]), c["members"])] + [(sorted(e["values"]), e["members"]) for e in c["else_if_statements"]]
            want = list(arms)
            if els is not None:
                if dkind == "enum":
                    used = {v for vs, _ in arms for v in vs}
                    want.append((sorted(n for n in allnames if n not in used), els))
                else:
                    want.append((None, els))
            if len(want) != len(ir_arms):
                diffs.append(f"{p}: {len(want)} arms (incl. else) in the wowm, {len(ir_arms)} in the IR")
                continue
            for k, ((vs, sm), (ivs, im)) in enumerate(zip(want, ir_arms)):
                if vs is not None and vs != ivs:
                    diffs.append(f"{p} arm {k}: values {vs[:6]} vs {ivs[:6]}")
                compare_members(sm, ir_members(im), f"{p}.arm{k}", diffs)


def versions_of(tags):
    v = (tags or {}).get("version")
    if not v:
        return None
    vt = v["version_type"]
    if v["version_type_tag"] == "login":
        return ("login", "*" if vt["login_version_tag"] == "all" else tuple(sorted(vt["versions"])))
    if vt["world_version_tag"] == "all":
        return ("world", "*")
    return ("world", tuple(sorted(tuple(x for x in (w["major"], w["minor"], w["patch"], w["build"]) if x is not None) for w in vt["versions"])))


def src_versions(o):
    if o["login"]:
        return ("login", "*" if "*" in o["login"] else tuple(sorted(o["login"])))
    if any(v == "*" for v in o["world"]):
        return ("world", "*")
    return ("world", tuple(sorted(tuple(v) for v in o["world"])))


def run(tier, seed):
    rep = Report(PID, tier, seed, "translation_validation")
    with genrun.GenScratch() as g:
        g.build()
        r = g.run()
        irp = os.path.join(genrun.SCRATCH, "intermediate_representation.json")
        if r[0] != 0 or not os.path.exists(irp) or os.path.getsize(irp) == 0:
            rep.violation("C10/generator-run", f"the generator exits with status {r[0]} / writes no IR on a scratch copy of the tree", {"log": str(r[1])[-1500:]}, no_input=True)
            rep.coverage = {"programs": 0, "disagreements_checked": 0, "samples": ["-"]}
            return rep.finish()
        ir = json.load(open(irp))
    schema = json.load(open(os.path.join(REPO, "intermediate_representation_schema.json")))
    # ---- (a) schema
    sp = jtd.check_schema(schema)
    if sp:
        rep.violation("C10/schema-malformed", f"intermediate_representation_schema.json is not a well-formed JSON Typedef schema: {sp[:3]}", {"problems": sp[:20]}, no_input=True)
    errs = jtd.validate(schema, ir)
    for ip, spth in errs[:20]:
        rep.violation(f"C10/schema/{spth}", f"the IR does not validate: instance {ip} against {spth}", {"instance_path": ip, "schema_path": spth, "replay_cmd": "python3 /verif/tools/jtd.py /repo/intermediate_representation_schema.json <generated IR>"})
    # the validator must reject mutated instances (self test, keeps the oracle honest)
    rng = SplitMix64(seed)
    muts = 0
    for _ in range(12):
        m = copy.deepcopy(ir["login"]["messages"][rng.below(len(ir["login"]["messages"]))])
        k = rng.below(4)
        if k == 0:
            del m["name"]
        elif k == 1:
            m["object_type"]["opcode"] = "1"
        elif k == 2:
            m["unexpected"] = 1
        else:
            m["sizes"]["constant_sized"] = 3
        if jtd.validate(schema["definitions"][schema["definitions"]["objects"]["properties"]["messages"]["elements"]["ref"]] if "ref" in schema["definitions"]["objects"]["properties"]["messages"]["elements"] else schema["definitions"]["objects"]["properties"]["messages"]["elements"], m, root=schema):
            muts += 1
    if muts < 12:
        rep.violation("C10/validator-selftest", f"the JSON Typedef validator accepted {12 - muts} of 12 deliberately malformed instances", {}, no_input=True)
    # ---- (b) faithfulness
    objs = wowm.load_tree(os.path.join(REPO, "wow_message_parser/wowm"))
    by_name = collections.defaultdict(list)
    for o in objs:
        if o["kind"] != "test":
            by_name[o["name"]].append(o)

    def lookup(name, target):
        c = [o for o in by_name.get(name, []) if o["kind"] in ("enum", "flag") and src_versions(o)[0] == target[0]
             and (target[1] == "*" or src_versions(o)[1] == "*" or any((isinstance(v, int) and v in target[1]) or (not isinstance(v, int) and any(wowm.world_covers(v, t) or wowm.world_covers(t, v) for t in target[1])) for v in src_versions(o)[1]))]
        return c[0] if c else None
    cmp_ = Cmp(lookup)
    src_by_pos = collections.defaultdict(list)
    for o in objs:
        if o["kind"] != "test":
            src_by_pos[(os.path.relpath(o["file"], REPO), o["line"], o["name"])].append(o)
    ir_objs = []
    for lib in ("login", "world"):
        for k in ("flags", "enums", "structs", "messages"):
            for o in ir[lib][k]:
                ir_objs.append((lib, k, o))
    seen = collections.Counter()
    n_cmp = n_same = n_tests = 0
    samples = []
    for lib, k, o in ir_objs:
        pos = (o["file_info"]["file_name"], o["file_info"]["start_position"], o["name"])
        seen[pos] += 1
        cands = src_by_pos.get(pos)
        n_cmp += 1
        if not cands:
            rep.violation(f"C10/invented/{o['name']}", f"the IR contains {k[:-1]} {o['name']} at {pos[0]}:{pos[1]}, where the sources define no such object", {"ir_object": o["name"], "position": list(pos)}, no_input=True)
            continue
        iv = versions_of(o["tags"])
        src = next((c for c in cands if src_versions(c) == iv), None)
        diffs = []
        if src is None:
            src = cands[0]
            if not src.get("pasted"):
                diffs.append(f"versions {src_versions(src)} vs {iv}")
        if k in ("flags", "enums"):
            if o["definer_type"].lower() != src["kind"]:
                diffs.append(f"kind {src['kind']} vs {o['definer_type']}")
            if INTS.get(o["integer_type"]) != src["ty"].replace("_be", ""):
                diffs.append(f"integer type {src['ty']} vs {o['integer_type']}")
            a = [(f["name"], f["int"], f["value"].strip('"') if isinstance(f.get("value"), str) else f.get("value")) for f in src["fields"]]
            b = [(f["name"], int(f["value"]["value"]), f["value"]["original_string"].strip('"')) for f in o["enumerators"]]
            if [x[:2] for x in a] != [x[:2] for x in b]:
                i = next((j for j in range(min(len(a), len(b))) if a[j][:2] != b[j][:2]), min(len(a), len(b)))
                diffs.append(f"enumerator {i}: {a[i] if i < len(a) else None} vs {b[i] if i < len(b) else None}")
            elif any(str(x[2]).replace("\\0", "\x00") != str(y[2]).replace("\\0", "\x00") and wowm.parse_int(str(x[2])) != wowm.parse_int(str(y[2])) for x, y in zip(a, b)):
                j = next(j for j, (x, y) in enumerate(zip(a, b)) if str(x[2]) != str(y[2]) and wowm.parse_int(str(x[2])) != wowm.parse_int(str(y[2])))
                diffs.append(f"enumerator {a[j][0]}: original spelling {a[j][2]!r} vs {b[j][2]!r}")
        else:
            if KIND.get(o["object_type"]["container_type_tag"]) != src["kind"]:
                diffs.append(f"kind {src['kind']} vs {o['object_type']['container_type_tag']}")
            if src["kind"] != "struct" and o["object_type"].get("opcode") != src.get("opcode_int"):
                diffs.append(f"opcode {src.get('opcode_int')} vs {o['object_type'].get('opcode')}")
            target = src_versions(src)
            sm = cmp_.src_members(src["members"], src["members"], target)
            im = ir_members(o["members"])
            if o.get("optional"):
                im.append(("optional", o["optional"].get("name"), ir_members(o["optional"]["members"])))
            compare_members(sm, im, "members", diffs)
            # tests
            def overlaps(tv, ov):
                if tv[1] == "*" or ov[1] == "*":
                    return True
                if tv[0] == "login":
                    return bool(set(tv[1]) & set(ov[1]))
                return any(wowm.world_overlaps(a, b) for a in tv[1] for b in ov[1])
            st = [t for t in objs if t["kind"] == "test" and t["name"] == src["name"] and src_versions(t)[0] == target[0] and overlaps(src_versions(t), target)]
            it = o.get("tests", [])
            sb = sorted(bytes(wowm.parse_int(x) & 0xFF for x in t["bytes"]) for t in st)
            ib = sorted(bytes(t["raw_bytes"]) for t in it)
            n_tests += len(it)
            if sb != ib:
                diffs.append(f"test vectors: {len(sb)} in the wowm for these versions, {len(ib)} in the IR" + ("" if len(sb) != len(ib) else " with different bytes"))
        # other tags
        PUBLISHED = ("unimplemented", "compressed", "non_network_type", "used_in_update_mask")       # the object tags the IR schema publishes
        stags = {k_: v for k_, v in src.get("all_tags", src["tags"]) if k_ in PUBLISHED}
        itags = {k_: v for k_, v in (o["tags"] or {}).items() if k_ in PUBLISHED}
        for tk in set(stags) | set(itags):
            if str(stags.get(tk)).lower() != str(itags.get(tk)).lower() and not (tk in itags and tk not in stags and itags[tk] in (None, False, "")):
                diffs.append(f"tag {tk}: {stags.get(tk)!r} vs {itags.get(tk)!r}")
        if diffs:
            rep.violation(f"C10/{k}/{o['name']}@{pos[1]}", f"IR {k[:-1]} {o['name']} ({pos[0]}:{pos[1]}) differs from the wowm: {diffs[0]}" + (f" (+{len(diffs) - 1} more)" if len(diffs) > 1 else ""),
                          {"object": o["name"], "position": list(pos), "differences": diffs[:12]})
        else:
            n_same += 1
            if len(samples) < 3:
                samples.append({"object": o["name"], "position": f"{pos[0]}:{pos[1]}", "members": len(o.get("members", o.get("enumerators", [])))})
    # ---- the size bounds the IR publishes for every message (`sizes`): minimum_size / maximum_size must bound every encoding of the definition
    # and constant_sized must say whether all encodings have one length.  Decided against the interval of the Lean model, which is PROVED to
    # contain every encoding (Thm/C09b bounds_lo_sound, Thm/C09c bounds_hi_sound / const_sized): published minimum <= model minimum and
    # model maximum <= published maximum (the IR saturates at 2^32 - 1) discharge the obligation for all values at once; otherwise a
    # generated canonical encoding outside the published interval is the witness
    from semcorr import build_corpus, Driver
    po_sz = [proof_obligations("WowVerif.Thm.C09b", ["wowdrv"]), proof_obligations("WowVerif.Thm.C09c")]
    for p_ in po_sz:
        add_proof_failures(rep, p_)
    conts_ = [c for c in build_corpus() if "tokens" in c]
    by_pos_c = collections.defaultdict(list)
    for c in conts_:
        by_pos_c[(os.path.relpath(c["file"], REPO), c["line"], c["name"])].append(c)
    dsz = Driver()
    n_sz = n_sz_ok = 0
    for lib, k, o in ir_objs:
        if k != "messages" or "sizes" not in o:
            continue
        pos = (o["file_info"]["file_name"], o["file_info"]["start_position"], o["name"])
        vt = o["tags"]["version"]["version_type"]
        cs_ = by_pos_c.get(pos, [])
        if lib == "login":
            vs_ = set(vt.get("versions", [])) if vt.get("login_version_tag") == "specific" else None
            cs_ = [c for c in cs_ if vs_ is None or c["target"] in vs_]
        else:
            vs_ = [(v["major"], v["minor"], v["patch"]) for v in vt.get("versions", [])] if vt.get("world_version_tag") == "specific" else None
            cs_ = [c for c in cs_ if vs_ is None or any(v[0] == c["target"][0] and (v[1] is None or v[1] == c["target"][1]) and (v[2] is None or len(c["target"]) < 3 or v[2] == c["target"][2]) for v in vs_)]
        for c in cs_:
            b_ = dsz.ask(f"bounds {c['key']}")
            mb_ = re.match(r"lo=(\d+) hi=(\w+) fixed=(\w+)", b_)
            if not mb_:
                continue
            lo_ = int(mb_.group(1))
            hi_ = None if mb_.group(2) == "inf" else int(mb_.group(2))
            fixed_ = None if mb_.group(3) == "no" else int(mb_.group(3))
            sz = o["sizes"]
            n_sz += 1
            bad_ = None
            if sz["constant_sized"] != (fixed_ is not None):
                bad_ = f"constant_sized = {sz['constant_sized']} but the definition's encodings {'all have ' + str(fixed_) + ' bytes' if fixed_ is not None else 'do not all have one length'}"
            elif sz["minimum_size"] > lo_:
                bad_ = f"minimum_size = {sz['minimum_size']} but the definition has encodings of {lo_} bytes"
            elif sz["maximum_size"] < min(hi_ if hi_ is not None else 1 << 40, (1 << 32) - 1) and not (
                    hi_ is None and any(x_.startswith(t_) for x_ in c["tokens"] for t_ in ("UpdateMask", "InspectTalentGearMask", "AddonArray", "AchievementDoneArray", "AchievementInProgressArray", "MonsterMoveSpline"))):
                # (built-in types whose maximum the model does not know: only the lower side is decided)
                bad_ = f"maximum_size = {sz['maximum_size']} but the definition has encodings of up to {hi_ if hi_ is not None else 'any number of'} bytes"
            if bad_ is None:
                n_sz_ok += 1
                continue
            # witness: canonical encodings (shortest / long) outside the published interval
            wit_ = None
            for rq_ in [f"genmin {c['key']} 40"] + [f"gen {c['key']} {rng.below(1 << 40)} {ml_} {smp_}" for ml_ in (0, 2, 12, 60) for smp_ in (0, 1, 2, 3, 1000000)]:
                g_ = dsz.ask(rq_)
                if g_.startswith("ok"):
                    n_ = 0 if g_.split()[1] == "-" else len(g_.split()[1]) // 2
                    if n_ < sz["minimum_size"] or n_ > sz["maximum_size"] or (sz["constant_sized"] and fixed_ is None and wit_ is None and False):
                        wit_ = (n_, g_.split()[1])
                        break
            info_ = {"object": o["name"], "position": list(pos), "container": c["key"], "published": sz, "model": {"lo": lo_, "hi": hi_, "fixed": fixed_}}
            if wit_:
                rep.violation(f"C10/sizes/{o['name']}@{pos[1]}", f"IR message {o['name']} ({pos[0]}:{pos[1]}): {bad_}; a canonical encoding of {wit_[0]} bytes lies outside the published sizes", dict(info_, encoding_hex=wit_[1][:4000], length=wit_[0]))
            else:
                rep.violation(f"C10/sizes/{o['name']}@{pos[1]}", f"IR message {o['name']} ({pos[0]}:{pos[1]}): {bad_}", dict(info_, theorem="bounds_lo_sound / bounds_hi_sound (Thm/C09b, C09c)"), no_input=True)
    dsz.close()
    um_text = json.dumps([ir.get("vanilla_update_mask"), ir.get("tbc_update_mask"), ir.get("wrath_update_mask")])
    for pos, cands in src_by_pos.items():
        want = len({src_versions(c) for c in cands}) if not cands[0].get("pasted") else 1
        if seen[pos] == 0 and any(k_ == "used_in_update_mask" for k_, _ in cands[0].get("all_tags", [])):
            # structs that only live inside update masks are published inside the *_update_mask tables
            if f'"name": "{pos[2]}"' not in um_text:
                rep.violation(f"C10/omitted/{pos[2]}@{pos[1]}", f"update-mask struct {pos[2]} ({pos[0]}:{pos[1]}) occurs neither among the objects nor in the update-mask tables of the IR", {"object": pos[2], "position": list(pos)}, no_input=True)
            continue
        if seen[pos] == 0:
            rep.violation(f"C10/omitted/{pos[2]}@{pos[1]}", f"{cands[0]['kind']} {pos[2]} ({pos[0]}:{pos[1]}) does not occur in the IR", {"object": pos[2], "position": list(pos)}, no_input=True)
    rep.coverage = {
        "programs": n_cmp, "disagreements_checked": n_cmp - n_same, "samples": samples or ["-"],
        "objects_in_ir": len(ir_objs), "objects_equal": n_same, "source_objects": len(src_by_pos), "test_vectors_in_ir": n_tests,
        "schema_errors": len(errs), "validator_selftest_mutations_rejected": muts,
        "published_sizes_compared_with_the_proved_interval": n_sz, "published_sizes_sound": n_sz_ok,
        "size_theorems": {k_: v_ for p_ in po_sz for k_, v_ in p_["theorems"].items()},
        "evaluations": n_cmp + 1, "distinct_nontrivial": n_cmp,
        "rule": "every object of intermediate_representation.json emitted by the current generator on a scratch copy, compared with the independent reading of the wowm source at its file_info position; RFC 8927 validation of the whole document",
        "trusted_base": ["tools/wowm.py (independent front end)", "tools/jtd.py (RFC 8927 validator, self-tested on mutated instances)", "the comparison code in checks/c10.py", "translation validation of one generated artefact; the published size bounds are decided against the Lean interval proved sound in Thm/C09b, C09c"],
    }
    rep.assumptions = ["free-text tags (comment / description) and the derived fields prepared_objects, objects_used_in and the update-mask tables of the IR are not compared here (update-mask tables: C13); `sizes` of messages are compared with the proved interval, `sizes` of structs are not"]
    return rep.finish()
