"""Static tie between the generated Rust READERS and the wowm definitions (used by C01, C03, C04).

tools/rust_codec.py translates every `read_inner` / `read` of /repo's current generated sources into the closed syntax of
Model/Sem.lean; tools/codec_spec.py translates the wowm definitions into the same syntax with the same variable ids.  The compiled
Lean driver decides `readerMatches spec rust` (Model/SemNorm.lean; Thm/C01b.lean) for every version-expanded message.  A reader that
is the normal form of its definition inherits the theorems about the specification decoder (round trip, totality, rejection of
undeclared enum values, exact consumption) — as far as the wire operations go; how the values are moved into the result is
exercised by the correspondence streams.

When a reader differs, `explain` locates the first difference and `classify` says which property it concerns."""
import re
import os, sys, collections
sys.path.insert(0, os.path.join(os.path.dirname(__file__), "..", "tools"))
from vlib import *
import semcorr

TIE_PATH = os.path.join(CACHE, "readertie.txt")

KNOWN_DIFFERENT = {
    # the reader of the version-8 proof reply does not consume the constant of the else branch (C01's known finding)
    ("login8", "CMD_AUTH_LOGON_PROOF_Server"): "C01/login/constant-in-else-branch-not-consumed",
}


def parse(toks, roles=False):
    """token stream -> tree; roles=True keeps the role of every field (writer comparison)"""
    pos = [0]

    def ty():
        t = toks[pos[0]]
        pos[0] += 1
        if t == "int":
            a = toks[pos[0]:pos[0] + 2]
            pos[0] += 2
            return ("int",) + tuple(a)
        if t in ("bool", "lvl", "prim"):
            a = toks[pos[0]]
            pos[0] += 1
            return (t, a)
        if t == "enum":
            k, e, n = toks[pos[0]:pos[0] + 3]
            pos[0] += 3
            vs = toks[pos[0]:pos[0] + int(n)]
            pos[0] += int(n)
            return ("enum", k, e, tuple(vs))
        if t == "struct":
            return ("struct", ms())
        if t in ("arrf", "arrv"):
            n = toks[pos[0]]
            pos[0] += 1
            return (t, n, ty())
        return (t,)

    def cond():
        t = toks[pos[0]]
        pos[0] += 1
        if t == "ne":
            v = toks[pos[0]]
            pos[0] += 1
            return ("ne", v)
        n = int(toks[pos[0]])
        pos[0] += 1
        vs = toks[pos[0]:pos[0] + n]
        pos[0] += n
        return (t, tuple(vs))

    def ms():
        out = []
        while True:
            t = toks[pos[0]]
            pos[0] += 1
            if t == "end":
                return tuple(out)
            if t == "f":
                i = toks[pos[0]]
                role = toks[pos[0] + 1]
                if role == "c":
                    role = "c" + toks[pos[0] + 2]
                pos[0] += 3 if role[0] == "c" else 2
                out.append(("f", i, role, ty()) if roles else ("f", i, ty()))
            elif t == "fe":
                i = toks[pos[0]]
                pos[0] += 1
                out.append(("fe", i, ty()))
            elif t == "if":
                v = toks[pos[0]]
                n = int(toks[pos[0] + 1])
                pos[0] += 2
                arms = []
                for _ in range(n):
                    c = cond()
                    arms.append((c, ms()))
                out.append(("if", v, tuple(arms), ms()))
            elif t == "opt":
                out.append(("opt", ms()))
            else:
                raise ValueError("token " + t)
    return ms()


def holds(c, x):
    if c[0] == "eq":
        return str(x) in c[1]
    if c[0] == "ne":
        return str(x) != c[1]
    return any(int(m) & x for m in c[1])


def fill(w, s):
    """ids the writer does not name (`self.as_int()` of an enum container, `self.size()`): taken from the READER program at the same position"""
    if isinstance(w, tuple) and isinstance(s, tuple):
        if w and s and w[0] == "f" and s[0] == "f" and len(w) == 4 and len(s) == 3:
            return ("f", s[1] if w[1] == "?" else w[1], w[2], fill(w[3], s[2]))
        if len(w) == len(s):
            return tuple(fill(x, y) for x, y in zip(w, s))
        return w
    return s if w == "?" else w


def untree(ms):
    """tree (with roles) -> tokens"""
    out = []

    def ty(t):
        if t[0] == "int":
            return ["int", t[1], t[2]]
        if t[0] in ("bool", "lvl", "prim"):
            return [t[0], t[1]]
        if t[0] == "enum":
            return ["enum", t[1], t[2], str(len(t[3]))] + list(t[3])
        if t[0] == "struct":
            return ["struct"] + untree(t[1]) + ["end"]
        if t[0] in ("arrf", "arrv"):
            return [t[0], t[1]] + ty(t[2])
        return [t[0]]
    for m in ms:
        if m[0] == "f":
            role = [m[2]] if m[2][0] != "c" else ["c", m[2][1:]]
            out += ["f", m[1]] + role + ty(m[3])
        elif m[0] == "fe":
            out += ["fe", m[1]] + ty(m[2])
        elif m[0] == "opt":
            out += ["opt"] + untree(m[1]) + ["end"]
        else:
            out += ["if", m[1], str(len(m[2]))]
            for c, b in m[2]:
                out += ([c[0], c[1]] if c[0] == "ne" else [c[0], str(len(c[1]))] + list(c[1])) + untree(b) + ["end"]
            out += untree(m[3]) + ["end"]
    return out


def bound(ms):
    out = []
    for m in ms:
        if m[0] == "f":
            out.append(m[1])
        elif m[0] == "if":
            for _, b in m[2]:
                out += bound(b)
            out += bound(m[3])
        elif m[0] == "opt":
            out += bound(m[1])
    return out


def expand(ms, dom):
    """python rendering of Sem.expandMs — used ONLY to describe a difference the Lean driver has found"""
    out = []
    dom = dict(dom)
    for m in ms:
        if m[0] == "f":
            t = expty(m[-1])
            out.append(m[:-1] + (t,))
            if len(m) == 4 and m[2] == "s":
                dom.pop(m[1], None)
            elif t[0] == "enum":
                dom[m[1]] = [int(v) for v in t[3]]
            else:
                dom.pop(m[1], None)
        elif m[0] == "fe":
            out.append(("fe", m[1], expty(m[2])))
        elif m[0] == "opt":
            out.append(("opt", expand(m[1], dom)))
            for i in bound(m[1]):
                dom.pop(i, None)
        else:
            v = m[1]
            arms = tuple((c, expand(b, dom)) for c, b in m[2])
            els = expand(m[3], dom)
            if v in dom:
                new = []
                for x in dom[v]:
                    body = els
                    for c, b in arms:
                        if holds(c, x):
                            body = b
                            break
                    new.append((("eq", (str(x),)), body))
                out.append(("if", v, tuple(new), ()))
            else:
                out.append(("if", v, arms, els))
            for i in bound((m,)):
                dom.pop(i, None)
    return tuple(out)


def expty(t):
    if t[0] == "struct":
        return ("struct", expand(t[1], {}))
    if t[0] in ("arrf", "arrv"):
        return (t[0], t[1], expty(t[2]))
    return t


def firstdiff(a, b, path=""):
    if a == b:
        return None
    if type(a) != type(b) or not isinstance(a, tuple):
        return (path, a, b)
    if a and b and isinstance(a[0], str) and isinstance(b[0], str) and a[0] in ("f", "fe", "int", "enum", "bool", "lvl", "prim", "cstring", "sizedcstring", "string", "packedguid", "datetime") and (a[0] != b[0] or a[0] in ("int", "enum", "bool", "lvl", "prim")):
        return (path, a, b)
    if len(a) != len(b):
        for i, (x, y) in enumerate(zip(a, b)):
            if x != y:
                return firstdiff(x, y, path + f"/{i}") if isinstance(x, tuple) and isinstance(y, tuple) else (path + f"/{i}", x, y)
        return (path + f"/{min(len(a), len(b))}", a[len(b):len(b) + 1] if len(a) > len(b) else "(nothing)", b[len(a):len(a) + 1] if len(b) > len(a) else "(nothing)")
    for i, (x, y) in enumerate(zip(a, b)):
        d = firstdiff(x, y, path + "/" + (str(x[0]) if isinstance(x, tuple) and x and isinstance(x[0], str) else str(i)))
        if d:
            return d
    return None


def short(x, n=220):
    s = repr(x)
    return s if len(s) <= n else s[:n] + "…"


def mentions(x, word):
    if isinstance(x, tuple):
        return any(mentions(y, word) for y in x)
    return x == word


def compute(repo=None, only=None):
    """-> pairs: one per (version-expanded message, side) with side in reader / writer; status same / differ / spec-unsupported /
    rust-untranslated / no-reader / no-definition, detail.
    `repo`: another tree than /repo (C07: the scratch copy the generator has just written into); `only`: predicate on message names"""
    import codec_spec, rust_codec, wowm as wowm_mod
    root = repo or REPO
    saved = rust_codec.REPO
    rust_codec.REPO = root
    try:
        r = codec_spec.NameResolver(wowm_mod.load_tree(os.path.join(root, "wow_message_parser/wowm")))
        spec = {}
        for c in r.spec_containers():
            if only is None or only(c["name"]):
                spec[(c["key"].split(":")[0], c["name"])] = c
        tr = rust_codec.Translator()
        rust_r, rust_w = {}, {}
        for d in rust_codec.translate_all(tr, only):
            rust_r.setdefault((d["ctx"], d["rust_type"]), d)
        for d in rust_codec.translate_all_writers(tr, only):
            rust_w.setdefault((d["ctx"], d["rust_type"]), d)
        import rust_size
        rust_s = {}
        for d in rust_size.translate_all(None, only):
            rust_s.setdefault((d["ctx"], d["rust_type"]), d)
    finally:
        rust_codec.REPO = saved
    lines, pairs = [], []
    for k, c in sorted(spec.items()):
        if "tokens" in c:
            lines.append(f"container S|{c['key']} {c['opcode']} {' '.join(c['tokens'])}")
        for side, table in (("reader", rust_r), ("writer", rust_w)):
            rd = table.get(k)
            p = {"side": side, "ctx": k[0], "name": k[1], "key": c["key"], "wowm": f"{os.path.relpath(c['file'], root)}:{c['line']}", "rust_file": rd["file"] if rd else None}
            if rd is None:
                p.update(status="no-reader", detail=f"no generated Rust type found for this message")
            elif "tokens" not in c:
                p.update(status="spec-unsupported", detail=c["unsupported"])
            elif "tokens" not in rd:
                p.update(status="rust-untranslated", detail=rd["untranslated"])
            else:
                toks = rd["tokens"]
                if side == "writer" and "?" in toks:
                    rr = rust_r.get(k)
                    if rr and "tokens" in rr:
                        try:
                            toks = untree(fill(parse(toks, roles=True), parse(rr["tokens"]))) + ["end"]
                        except Exception:
                            pass
                    toks = [("0" if t == "?" else t) for t in toks]
                tag = "R" if side == "reader" else "W"
                lines.append(f"container {tag}|{c['key']} {c['opcode']} {' '.join(toks)}")
                p.update(status="?", spec_tokens=c["tokens"], rust_tokens=toks)
            pairs.append(p)
    for k in rust_r:
        if k not in spec:
            pairs.append({"side": "reader", "ctx": k[0], "name": k[1], "key": None, "rust_file": rust_r[k]["file"], "status": "no-definition", "detail": "generated reader without a wowm message of this name / version"})
    with open(TIE_PATH, "w") as f:
        f.write("\n".join(lines) + "\n")
    d = semcorr.Driver()
    d.ask(f"load {TIE_PATH}")
    todo = [p for p in pairs if p["status"] == "?"]
    ans = d.ask_many([f"progeq {'r' if p['side'] == 'reader' else 'w'} S|{p['key']} {'R' if p['side'] == 'reader' else 'W'}|{p['key']}" for p in todo])
    # declared size of the world messages: `size_without_header` is either a literal or `self.size()`; a literal must be the syntactic constant size
    # of the definition (`fixedMs`; Thm/C09.lean `const_sized`: then EVERY encoding has exactly that many bytes), and a definition that is
    # constant-sized needs no other form
    wr = [p for p in pairs if p["side"] == "writer" and p.get("rust_file") and not p["ctx"].startswith("login") and "spec_tokens" in p]
    fx = d.ask_many([f"bounds S|{p['key']}" for p in wr])
    # the size FUNCTIONS (tools/rust_size.py; Model/SizeFn.lean, Thm/C07b.lean size_matches_sound): the term list of every generated `size()` must be
    # the one the definition prescribes; definitions with conditional members are outside (`supported=0` on the definition's side as well)
    sz = []
    for k, c in sorted(spec.items()):
        rs = rust_s.get(k)
        if rs is None or "tokens" not in c or "constant" in rs:
            continue
        sp = {"side": "size", "ctx": k[0], "name": k[1], "key": c["key"], "rust_file": rs["file"]}
        if "tokens" in rs:
            sp["rust_terms"] = rs["tokens"]
        elif "outside" in rs:
            sp["outside"] = rs["outside"]
        else:
            sp["unreadable"] = rs["unreadable"]
        sz.append(sp)
    sa = d.ask_many([f"sizeeq S|{p['key']} {' '.join(p.get('rust_terms', ['other']))}" for p in sz])
    d.close()
    for p, a in zip(sz, sa):
        if "unreadable" in p:
            p.update(status="rust-untranslated", detail="size(): " + p["unreadable"])
        elif "outside" in p:
            # the definition must agree that it has conditional / compressed members
            p.update(status="outside" if ("supported=0" in a or "compressed" in p["outside"]) else "differ",
                     detail=f"size() is outside the translated subset ({p['outside']})" + ("" if "supported=0" in a else f" although the definition has no conditional member: {a[:300]}"))
        elif a.startswith("same") and "supported=1" in a:
            p.update(status="same", wf="wf=1" in a)
        else:
            p.update(status="differ", detail=f"size() sums `{' '.join(p['rust_terms'])[:300]}`; {a[:400]}")
    pairs += sz
    for p, a in zip(wr, fx):
        try:
            src = open(os.path.join(root, p["rust_file"])).read()
        except OSError:
            continue
        m = re.search(r"fn size_without_header\(&self\) -> u32 \{\s*([^}]*?)\s*\}", src)
        mf = re.search(r"fixed=(\w+) prim=(\S+)", a)
        if not m or not mf:
            p["declared"] = {"status": "unreadable", "rust": m.group(1) if m else None, "model": a}
            continue
        rust, fixed = m.group(1), mf.group(1)
        if re.fullmatch(r"\d+", rust):
            ok = fixed == rust
        elif rust == "self.size() as u32":
            ok = True          # the value-dependent size function (dynamic side: the writers assert size() == bytes written)
        else:
            ok = False
        p["declared"] = {"status": "same" if ok else "differ", "rust": rust, "model_fixed": fixed}
    for p, a in zip(todo, ans):
        if a.startswith("same"):
            p["status"] = "same"
            p["wf"] = "wf=1" in a
            p["prim"] = "prim=1" in a
        else:
            p["status"] = "differ"
            try:
                roles = p["side"] == "writer"
                sp = expand(parse(p["spec_tokens"], roles=roles), {})
                ru = parse(p["rust_tokens"], roles=roles)
                fd = firstdiff(sp, ru)
                if fd is None:
                    p["detail"] = f"driver: {a}; the python rendering of the normal form sees no difference (normaliser mismatch)"
                    p["diff"] = None
                else:
                    p["detail"] = f"at {fd[0] or '/'}: the definition says {short(fd[1])}, the {p['side']} does {short(fd[2])}"
                    p["diff"] = fd
            except Exception as ex:
                p["detail"] = f"driver: {a}; ({ex})"
                p["diff"] = None
    return pairs


def classify(p):
    """which property a differing / untranslatable reader concerns: (pid, kind)"""
    fd = p.get("diff")
    if fd:
        a, b = fd[1], fd[2]
        if mentions(a, "enum") and not mentions(b, "enum"):
            return "C04", "enum-not-validated"
        if mentions(a, "enum") and mentions(b, "enum"):
            return "C04", "enum-domain-or-width"
    d = p.get("detail", "")
    if "wrapper around read_" in d or "enum type" in d or "as u8" in d or "as u16" in d:
        return "C04", "read-expression"
    return "C01", "wire-operations"


def report(rep, pid, pairs):
    """add the tie's obligations to a Report; only the violations that concern `pid` are raised there (C01 raises all that are not C04's)"""
    n_same = sum(1 for p in pairs if p["status"] == "same")
    n_wf = sum(1 for p in pairs if p["status"] == "same" and p.get("wf"))
    both = collections.Counter((p["ctx"], p["name"]) for p in pairs if p["status"] == "same" and p.get("wf") and p["side"] in ("reader", "writer"))
    n_rt = sum(1 for v in both.values() if v == 2)
    outside = collections.Counter()
    raised = 0
    for p in pairs:
        if p["status"] == "same":
            continue
        k = (p["ctx"], p["name"])
        if p["status"] == "outside":
            outside["size() with conditional / compressed members (not compared term by term)"] += 1
            continue
        if p["status"] == "spec-unsupported":
            outside["definition outside the closed syntax: " + p["detail"][:40]] += 1
            continue
        if p["status"] == "rust-untranslated" and ("ZlibDecoder" in p["detail"] or "SKIP_SERIALIZE_READ_PANIC" in p["detail"] or "decompressed_size" in p["detail"] or "size_uncompressed" in p["detail"]):
            outside[f"{p['side']} outside the translated subset: " + ("AddonArray placeholder (C03 known finding)" if "SKIP_SERIALIZE" in p["detail"] else "compressed")] += 1
            continue
        if p["status"] == "rust-untranslated" and "current_size of the endless array is a static sum" in p["detail"]:
            # the reader of an endless array after a conditional computes the bytes read so far without the conditional members (C01's known finding,
            # here found on the code itself)
            if pid == "C01":
                rep.violation("C01/endless-array-after-if/current_size", f"{p['key']}: {p['detail'][:300]}", {"container": p["key"], "rust_file": p.get("rust_file"), "difference": p["detail"]}, no_input=True)
            else:
                outside["reader with C01's known finding endless-array-after-if"] += 1
            continue
        owner, kind = classify(p)
        if pid == "C03":
            # C03 only cares about readers that leave the translated statement subset (every recognised form is a call of a util reader
            # with `?`, a guarded allocation, a loop or a conditional — none of which can panic by itself)
            if p["status"] != "rust-untranslated":
                continue
        elif owner != pid and not (pid == "C01" and owner not in ("C04",)):
            continue
        if k in KNOWN_DIFFERENT and p["side"] == "reader" and pid == "C01":
            rep.violation(KNOWN_DIFFERENT[k], f"{p['key']}: the generated reader is not the decoder of its definition: {p.get('detail', '')[:300]}",
                          {"container": p["key"], "wowm": p.get("wowm"), "rust_file": p.get("rust_file"), "difference": p.get("detail")}, no_input=True)
            continue
        if k in KNOWN_DIFFERENT and p["side"] == "reader":
            continue
        if pid in ("C03", "C04") and p["side"] in ("writer", "size"):
            continue          # writers and size functions are C01's (and C02's / C07's) subject
        raised += 1
        sd = p["side"]
        if sd == "size":
            rep.violation(f"{pid}/size-tie/{p['ctx']}:{p['name']}", f"{p['key']} ({p.get('rust_file')}): the generated size() is not the size function of its definition: {p.get('detail', '')[:500]}",
                          {"container": p["key"], "rust_file": p.get("rust_file"), "status": p["status"], "difference": p.get("detail"), "theorem": "WowVerif.Sem.size_matches_sound (Thm/C07b.lean)",
                           "rust_terms": " ".join(p.get("rust_terms", []))[:2000]}, no_input=True)
            continue
        what = {"differ": f"the generated {sd} is not the {'decoder' if sd == 'reader' else 'encoder'} of its definition", "rust-untranslated": f"the generated {sd} is outside the translated subset (the proof obligation `{sd}Matches` cannot be evaluated)",
                "no-reader": "no generated type", "no-definition": "reader without definition"}[p["status"]]
        rep.violation(f"{pid}/{sd}-tie/{p['ctx']}:{p['name']}", f"{p['key'] or p['name']} ({p.get('rust_file')}): {what}: {p.get('detail', '')[:400]}",
                      {"container": p["key"], "wowm": p.get("wowm"), "rust_file": p.get("rust_file"), "status": p["status"], "difference": p.get("detail"),
                       "theorem": "WowVerif.Sem.readerE_decodes_as_spec / writer_encodes_as_spec via progeq (Thm/C01c.lean, Thm/C01d.lean)", "spec_tokens": " ".join(p.get("spec_tokens", []))[:3000], "rust_tokens": " ".join(p.get("rust_tokens", []))[:3000]},
                      no_input=True)
    n_decl = n_decl_ok = 0
    for p in pairs:
        dcl = p.get("declared")
        if not dcl:
            continue
        n_decl += 1
        if dcl["status"] == "same":
            n_decl_ok += 1
        elif pid == "C01":
            rep.violation(f"C01/declared-size-const/{p['ctx']}:{p['name']}", f"{p['key']} ({p.get('rust_file')}): size_without_header is `{dcl.get('rust')}` but the definition's constant size is {dcl.get('model_fixed', dcl.get('model'))}",
                          {"container": p["key"], "rust_file": p.get("rust_file"), "declared": dcl, "theorem": "WowVerif.Sem.const_sized (Thm/C09.lean)",
                           "input": "every value of this message: the header announces the declared size, the body has the definition's size"}, no_input=False)
    # obligations that fail by a recorded known finding are not counted (the finding is reported separately)
    n_known = sum(1 for p in pairs if p["status"] == "differ" and p["side"] == "reader" and (p["ctx"], p["name"]) in KNOWN_DIFFERENT)
    return {"readers_compared": sum(1 for p in pairs if p["status"] in ("same", "differ")) - n_known, "readers_equal_to_normal_form_of_definition": n_same,
            "readers": sum(1 for p in pairs if p["status"] == "same" and p["side"] == "reader"), "writers": sum(1 for p in pairs if p["status"] == "same" and p["side"] == "writer"),
            "size_functions": sum(1 for p in pairs if p["status"] == "same" and p["side"] == "size"),
            "messages_whose_writer_and_reader_both_match_a_well_formed_definition (writer_reader_roundtrip applies)": n_rt,
            "declared_sizes_compared": n_decl, "declared_sizes_equal_to_the_definition": n_decl_ok,
            "outside": dict(outside), "raised_here": raised}
