"""Static tie between the generated Rust READERS and the wowm definitions (used by C01, C03, C04).

tools/rust_codec.py translates every `read_inner` / `read` of /repo's current generated sources into the closed syntax of
Model/Sem.lean; tools/codec_spec.py translates the wowm definitions into the same syntax with the same variable ids.  The compiled
Lean driver decides `readerMatches spec rust` (Model/SemNorm.lean; Thm/C01b.lean) for every version-expanded message.  A reader that
is the normal form of its definition inherits the theorems about the specification decoder (round trip, totality, rejection of
undeclared enum values, exact consumption) — as far as the wire operations go; how the values are moved into the result is
exercised by the correspondence streams.

When a reader differs, `explain` locates the first difference and `classify` says which property it concerns."""
import os, sys, collections
sys.path.insert(0, os.path.join(os.path.dirname(__file__), "..", "tools"))
from vlib import *
import semcorr

TIE_PATH = os.path.join(CACHE, "readertie.txt")

KNOWN_DIFFERENT = {
    # the reader of the version-8 proof reply does not consume the constant of the else branch (C01's known finding)
    ("login8", "CMD_AUTH_LOGON_PROOF_Server"): "C01/login/constant-in-else-branch-not-consumed",
}


def parse(toks):
    pos = [0]

    def ty():
        t = toks[pos[0]]
        pos[0] += 1
        if t == "int":
            a = toks[pos[0]:pos[0] + 2]
            pos[0] += 2
            return ("int",) + tuple(a)
        if t in ("bool", "lvl", "prim"):
            a = toks[pos[0]]
            pos[0] += 1
            return (t, a)
        if t == "enum":
            k, e, n = toks[pos[0]:pos[0] + 3]
            pos[0] += 3
            vs = toks[pos[0]:pos[0] + int(n)]
            pos[0] += int(n)
            return ("enum", k, e, tuple(vs))
        if t == "struct":
            return ("struct", ms())
        if t in ("arrf", "arrv"):
            n = toks[pos[0]]
            pos[0] += 1
            return (t, n, ty())
        return (t,)

    def cond():
        t = toks[pos[0]]
        pos[0] += 1
        if t == "ne":
            v = toks[pos[0]]
            pos[0] += 1
            return ("ne", v)
        n = int(toks[pos[0]])
        pos[0] += 1
        vs = toks[pos[0]:pos[0] + n]
        pos[0] += n
        return (t, tuple(vs))

    def ms():
        out = []
        while True:
            t = toks[pos[0]]
            pos[0] += 1
            if t == "end":
                return tuple(out)
            if t == "f":
                i = toks[pos[0]]
                role = toks[pos[0] + 1]
                pos[0] += 3 if role == "c" else 2
                out.append(("f", i, ty()))
            elif t == "fe":
                i = toks[pos[0]]
                pos[0] += 1
                out.append(("fe", i, ty()))
            elif t == "if":
                v = toks[pos[0]]
                n = int(toks[pos[0] + 1])
                pos[0] += 2
                arms = []
                for _ in range(n):
                    c = cond()
                    arms.append((c, ms()))
                out.append(("if", v, tuple(arms), ms()))
            elif t == "opt":
                out.append(("opt", ms()))
            else:
                raise ValueError("token " + t)
    return ms()


def holds(c, x):
    if c[0] == "eq":
        return str(x) in c[1]
    if c[0] == "ne":
        return str(x) != c[1]
    return any(int(m) & x for m in c[1])


def bound(ms):
    out = []
    for m in ms:
        if m[0] == "f":
            out.append(m[1])
        elif m[0] == "if":
            for _, b in m[2]:
                out += bound(b)
            out += bound(m[3])
        elif m[0] == "opt":
            out += bound(m[1])
    return out


def expand(ms, dom):
    """python rendering of Sem.expandMs — used ONLY to describe a difference the Lean driver has found"""
    out = []
    dom = dict(dom)
    for m in ms:
        if m[0] == "f":
            t = expty(m[2])
            out.append(("f", m[1], t))
            if t[0] == "enum":
                dom[m[1]] = [int(v) for v in t[3]]
            else:
                dom.pop(m[1], None)
        elif m[0] == "fe":
            out.append(("fe", m[1], expty(m[2])))
        elif m[0] == "opt":
            out.append(("opt", expand(m[1], dom)))
            for i in bound(m[1]):
                dom.pop(i, None)
        else:
            v = m[1]
            arms = tuple((c, expand(b, dom)) for c, b in m[2])
            els = expand(m[3], dom)
            if v in dom:
                new = []
                for x in dom[v]:
                    body = els
                    for c, b in arms:
                        if holds(c, x):
                            body = b
                            break
                    new.append((("eq", (str(x),)), body))
                out.append(("if", v, tuple(new), ()))
            else:
                out.append(("if", v, arms, els))
            for i in bound((m,)):
                dom.pop(i, None)
    return tuple(out)


def expty(t):
    if t[0] == "struct":
        return ("struct", expand(t[1], {}))
    if t[0] in ("arrf", "arrv"):
        return (t[0], t[1], expty(t[2]))
    return t


def firstdiff(a, b, path=""):
    if a == b:
        return None
    if type(a) != type(b) or not isinstance(a, tuple):
        return (path, a, b)
    if a and b and isinstance(a[0], str) and isinstance(b[0], str) and a[0] in ("f", "fe", "int", "enum", "bool", "lvl", "prim", "cstring", "sizedcstring", "string", "packedguid", "datetime") and (a[0] != b[0] or a[0] in ("int", "enum", "bool", "lvl", "prim")):
        return (path, a, b)
    if len(a) != len(b):
        for i, (x, y) in enumerate(zip(a, b)):
            if x != y:
                return firstdiff(x, y, path + f"/{i}") if isinstance(x, tuple) and isinstance(y, tuple) else (path + f"/{i}", x, y)
        return (path + f"/{min(len(a), len(b))}", a[len(b):len(b) + 1] if len(a) > len(b) else "(nothing)", b[len(a):len(a) + 1] if len(b) > len(a) else "(nothing)")
    for i, (x, y) in enumerate(zip(a, b)):
        d = firstdiff(x, y, path + "/" + (str(x[0]) if isinstance(x, tuple) and x and isinstance(x[0], str) else str(i)))
        if d:
            return d
    return None


def short(x, n=220):
    s = repr(x)
    return s if len(s) <= n else s[:n] + "…"


def mentions(x, word):
    if isinstance(x, tuple):
        return any(mentions(y, word) for y in x)
    return x == word


def compute():
    """-> dict(pairs=[...], counts) ; every pair: ctx, name, status in same/differ/spec-unsupported/rust-untranslated, detail"""
    import codec_spec, rust_codec
    r = codec_spec.NameResolver()
    spec = {}
    for c in r.spec_containers():
        spec[(c["key"].split(":")[0], c["name"])] = c
    rust = {}
    for d in rust_codec.translate_all():
        rust.setdefault((d["ctx"], d["rust_type"]), d)
    lines, pairs = [], []
    for k, c in sorted(spec.items()):
        rd = rust.get(k)
        p = {"ctx": k[0], "name": k[1], "key": c["key"], "wowm": f"{os.path.relpath(c['file'], REPO)}:{c['line']}", "rust_file": rd["file"] if rd else None}
        if rd is None:
            p.update(status="no-reader", detail="no generated Rust type found for this message")
        elif "tokens" not in c:
            p.update(status="spec-unsupported", detail=c["unsupported"])
        elif "tokens" not in rd:
            p.update(status="rust-untranslated", detail=rd["untranslated"])
        else:
            lines.append(f"container S|{c['key']} {c['opcode']} {' '.join(c['tokens'])}")
            lines.append(f"container R|{c['key']} {c['opcode']} {' '.join(rd['tokens'])}")
            p.update(status="?", spec_tokens=c["tokens"], rust_tokens=rd["tokens"])
        pairs.append(p)
    for k in rust:
        if k not in spec:
            pairs.append({"ctx": k[0], "name": k[1], "key": None, "rust_file": rust[k]["file"], "status": "no-definition", "detail": "generated reader without a wowm message of this name / version"})
    with open(TIE_PATH, "w") as f:
        f.write("\n".join(lines) + "\n")
    d = semcorr.Driver()
    d.ask(f"load {TIE_PATH}")
    todo = [p for p in pairs if p["status"] == "?"]
    ans = d.ask_many([f"progeq S|{p['key']} R|{p['key']}" for p in todo])
    d.close()
    for p, a in zip(todo, ans):
        if a.startswith("same"):
            p["status"] = "same"
            p["wf"] = "wf=1" in a
            p["prim"] = "prim=1" in a
        else:
            p["status"] = "differ"
            try:
                sp = expand(parse(p["spec_tokens"]), {})
                ru = parse(p["rust_tokens"])
                fd = firstdiff(sp, ru)
                if fd is None:
                    p["detail"] = f"driver: {a}; the python rendering of the normal form sees no difference (normaliser mismatch)"
                    p["diff"] = None
                else:
                    p["detail"] = f"at {fd[0] or '/'}: the definition says {short(fd[1])}, the reader does {short(fd[2])}"
                    p["diff"] = fd
            except Exception as ex:
                p["detail"] = f"driver: {a}; ({ex})"
                p["diff"] = None
    return pairs


def classify(p):
    """which property a differing / untranslatable reader concerns: (pid, kind)"""
    fd = p.get("diff")
    if fd:
        a, b = fd[1], fd[2]
        if mentions(a, "enum") and not mentions(b, "enum"):
            return "C04", "enum-not-validated"
        if mentions(a, "enum") and mentions(b, "enum"):
            return "C04", "enum-domain-or-width"
    d = p.get("detail", "")
    if "wrapper around read_" in d or "enum type" in d or "as u8" in d or "as u16" in d:
        return "C04", "read-expression"
    return "C01", "wire-operations"


def report(rep, pid, pairs):
    """add the tie's obligations to a Report; only the violations that concern `pid` are raised there (C01 raises all that are not C04's)"""
    n_same = sum(1 for p in pairs if p["status"] == "same")
    n_wf = sum(1 for p in pairs if p["status"] == "same" and p.get("wf"))
    outside = collections.Counter()
    raised = 0
    for p in pairs:
        if p["status"] == "same":
            continue
        k = (p["ctx"], p["name"])
        if p["status"] == "spec-unsupported":
            outside["definition outside the closed syntax: " + p["detail"][:40]] += 1
            continue
        if p["status"] == "rust-untranslated" and ("ZlibDecoder" in p["detail"] or "SKIP_SERIALIZE_READ_PANIC" in p["detail"]):
            outside["reader outside the translated subset: " + ("compressed" if "Zlib" in p["detail"] else "AddonArray placeholder (C03 known finding)")] += 1
            continue
        owner, kind = classify(p)
        if owner != pid and not (pid == "C01" and owner not in ("C04",)):
            continue
        if k in KNOWN_DIFFERENT and pid == "C01":
            rep.violation(KNOWN_DIFFERENT[k], f"{p['key']}: the generated reader is not the decoder of its definition: {p.get('detail', '')[:300]}",
                          {"container": p["key"], "wowm": p.get("wowm"), "rust_file": p.get("rust_file"), "difference": p.get("detail")}, no_input=True)
            continue
        if k in KNOWN_DIFFERENT:
            continue
        raised += 1
        what = {"differ": "the generated reader is not the decoder of its definition", "rust-untranslated": "the generated reader is outside the translated subset (proof obligation `readerMatches` cannot be evaluated)",
                "no-reader": "no generated reader", "no-definition": "reader without definition"}[p["status"]]
        rep.violation(f"{pid}/reader-tie/{p['ctx']}:{p['name']}", f"{p['key'] or p['name']} ({p.get('rust_file')}): {what}: {p.get('detail', '')[:400]}",
                      {"container": p["key"], "wowm": p.get("wowm"), "rust_file": p.get("rust_file"), "status": p["status"], "difference": p.get("detail"),
                       "theorem": "WowVerif.Sem.readerMatches_sound / progeq (Thm/C01b.lean)", "spec_tokens": " ".join(p.get("spec_tokens", []))[:3000], "rust_tokens": " ".join(p.get("rust_tokens", []))[:3000]},
                      no_input=True)
    return {"readers_compared": sum(1 for p in pairs if p["status"] in ("same", "differ")), "readers_equal_to_normal_form_of_definition": n_same,
            "of_which_well_formed (round-trip theorem applies)": n_wf, "outside": dict(outside), "raised_here": raised}
