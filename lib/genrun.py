"""Running the real generator (wow_message_parser) against a scratch copy of /repo's working tree.

The generator bakes `CARGO_MANIFEST_DIR/..` at compile time as the workspace it writes to, so the scratch copy lives at
one FIXED path outside /repo and /verif, is built in place (cargo target cached under /verif/.cache/gen-target; rsync -a
keeps mtimes so only changed files recompile), is used under a lock, and is removed at the end of each check."""
import os, subprocess, hashlib, shutil, time
from vlib import *

SCRATCH_ROOT = "/tmp/wowgen"
SCRATCH = os.path.join(SCRATCH_ROOT, "repo")
GEN_TARGET = os.path.join(CACHE, "gen-target")
GEN_BIN = os.path.join(GEN_TARGET, "release", "wow_message_parser")


class GenScratch:
    def __init__(self, target=None):
        """`target`: cargo target directory of the generator build.  A check that EDITS the generator's sources in the scratch copy
        (C07 extends the message index) must use its own directory: cargo's freshness test is by mtime, and the next rsync from
        /repo restores the old file with its old mtime, so a shared directory would keep serving the edited binary."""
        self.target = target or GEN_TARGET
        self.bin = os.path.join(self.target, "release", "wow_message_parser")

    def __enter__(self):
        self.lock = Lock("gen")
        self.lock.__enter__()
        os.makedirs(SCRATCH_ROOT, exist_ok=True)
        sh(["rsync", "-a", "--delete", "--exclude", "target", "--exclude", ".git", REPO + "/", SCRATCH + "/"], timeout=600)
        return self

    def __exit__(self, *a):
        shutil.rmtree(SCRATCH_ROOT, ignore_errors=True)
        self.lock.__exit__(*a)

    def build(self):
        env = env_offline()
        env["CARGO_TARGET_DIR"] = self.target
        t0 = time.time()
        rc, out = sh(["cargo", "build", "--release", "--offline", "-p", "wow_message_parser"], cwd=SCRATCH, timeout=3600, env=env)
        return rc, out, round(time.time() - t0, 1)

    def run(self, extra_env=None, taskset=None, timeout=600):
        env = env_offline()
        if extra_env:
            env.update(extra_env)
        cmd = [self.bin]
        if taskset:
            cmd = ["taskset", "-c", taskset] + cmd
        t0 = time.time()
        p = subprocess.run(cmd, cwd=SCRATCH, stdout=subprocess.PIPE, stderr=subprocess.STDOUT, text=True, timeout=timeout, env=env)
        return p.returncode, p.stdout, round(time.time() - t0, 1)

    def resync(self):
        """restore the scratch tree to /repo's working tree (keeps the build cache valid)"""
        sh(["rsync", "-a", "--delete", "--exclude", "target", "--exclude", ".git", REPO + "/", SCRATCH + "/"], timeout=600)


def tree_digest(root, exclude=("target", ".git")):
    """{relative path: sha1} of every file below root"""
    out = {}
    for dp, dn, fn in os.walk(root):
        dn[:] = sorted(d for d in dn if d not in exclude)
        for f in sorted(fn):
            p = os.path.join(dp, f)
            try:
                out[os.path.relpath(p, root)] = hashlib.sha1(open(p, "rb").read()).hexdigest()
            except OSError:
                out[os.path.relpath(p, root)] = "unreadable"
    return out


def tree_diff(a, b):
    """(only in a, only in b, differing)"""
    ka, kb = set(a), set(b)
    return sorted(ka - kb), sorted(kb - ka), sorted(k for k in ka & kb if a[k] != b[k])
