"""Shared by C01/C03/C04/C09: the spec-side corpus, frame construction, running generated encodings through the libraries."""
import os, sys
sys.path.insert(0, os.path.join(os.path.dirname(__file__), "..", "tools"))
from vlib import *
import corpus as corpus_mod

CORPUS_PATH = os.path.join(CACHE, "corpus.txt")


def build_corpus(expanded=False):
    """`expanded`: also return the "#x" variants (expressible built-in types written out in the closed syntax); the driver's corpus
    file always holds them"""
    n, uns = corpus_mod.write_corpus(CORPUS_PATH)
    r = corpus_mod.Resolver()
    conts = [c for c in r.containers() if expanded or not c.get("expanded")]
    return conts


def frame(lib, direction, opcode, body):
    """bytes of a complete message as the definition + framing rules say"""
    if lib.startswith("login"):
        return bytes([opcode]) + body
    oplen = 4 if direction == "client" else 2
    field = len(body) + oplen
    if lib == "wrath" and direction == "server" and field > 0x7FFF:
        hdr = bytes([0x80 | (field >> 16), (field >> 8) & 0xFF, field & 0xFF])
    else:
        hdr = field.to_bytes(2, "big")
    return hdr + opcode.to_bytes(oplen, "little") + body


def directions(c):
    k = c["kind"]
    if k in ("cmsg", "clogin"):
        return ["client"]
    if k in ("smsg", "slogin"):
        return ["server"]
    return ["client", "server"]


def libname(c):
    return c["lib"] if c["lib"] != "login" else "login" + str(c["target"])


class Driver:
    """persistent driver process with the corpus loaded"""
    def __init__(self):
        import subprocess
        self.p = subprocess.Popen([driver_path()], stdin=subprocess.PIPE, stdout=subprocess.PIPE, text=True, bufsize=1)
        self.ask(f"load {CORPUS_PATH}")

    def ask(self, line):
        self.p.stdin.write(line + "\n")
        self.p.stdin.flush()
        return self.p.stdout.readline().rstrip("\n")

    def ask_many(self, lines):
        # a writer thread feeds the requests while this thread collects the replies (no pipe-buffer deadlock whatever the sizes)
        import threading
        lines = list(lines)

        def feed():
            try:
                for i in range(0, len(lines), 500):
                    self.p.stdin.write("\n".join(lines[i:i + 500]) + "\n")
                    self.p.stdin.flush()
            except BrokenPipeError:
                pass
        t = threading.Thread(target=feed, daemon=True)
        t.start()
        out = []
        for _ in lines:
            r = self.p.stdout.readline()
            if not r:
                out.append("abort driver-exit")
                continue
            out.append(r.rstrip("\n"))
        t.join()
        return out

    def close(self):
        try:
            self.p.stdin.close()
            self.p.wait(timeout=5)
        except Exception:
            self.p.kill()
