"""Shared machinery for the /verif checks: builds, line-protocol runs, evidence, violation protocol."""
import fcntl, hashlib, json, os, re, subprocess, sys, time

VERIF = os.path.dirname(os.path.dirname(os.path.abspath(__file__)))
REPO = os.environ.get("VERIF_REPO", "/repo")
LEAN = os.path.join(VERIF, "lean")
CACHE = os.path.join(VERIF, ".cache")
EVID = os.path.join(VERIF, "evidence")
REPLAY = os.path.join(VERIF, "evidence", "replay")
ALLOWED_AXIOMS = {"propext", "Classical.choice", "Quot.sound"}
TRUSTED_BASE_COMMON = [
    "Lean 4.33 kernel (lake build; thorough tier re-checks with leanchecker)",
    "axioms allowed in #print axioms: propext, Classical.choice, Quot.sound (audited on every run; no sorry/admit/native_decide/bv_decide/implemented_by/unsafe)",
    "compiled Lean driver (Lean compiler + C toolchain): trusted only for correspondence and search",
    "Rust harness crates under /verif/harness calling /repo's public API in-process",
]
os.makedirs(CACHE, exist_ok=True)
os.makedirs(REPLAY, exist_ok=True)


def env_offline():
    e = dict(os.environ)
    e.update({"CARGO_NET_OFFLINE": "true", "GOPROXY": "off", "PIP_NO_INDEX": "1"})
    return e


class Lock:
    def __init__(self, name):
        self.path = os.path.join(CACHE, name + ".lock")

    def __enter__(self):
        self.f = open(self.path, "w")
        fcntl.flock(self.f, fcntl.LOCK_EX)
        return self

    def __exit__(self, *a):
        fcntl.flock(self.f, fcntl.LOCK_UN)
        self.f.close()


def sh(cmd, cwd=None, timeout=None, env=None, input=None):
    p = subprocess.run(cmd, cwd=cwd, shell=isinstance(cmd, str), stdout=subprocess.PIPE, stderr=subprocess.STDOUT,
                       timeout=timeout, env=env or env_offline(), input=input, text=True)
    return p.returncode, p.stdout


# ---------------------------------------------------------------- Lean side

def lean_build(targets):
    """lake build the given targets (module names or exe). Returns (rc, output)."""
    with Lock("lean"):
        rc, out = sh(["lake", "build"] + list(targets), cwd=LEAN, timeout=3600)
    return rc, out


AX_RE = re.compile(r"'([^']+)' depends on axioms: \[([^\]]*)\]")
AX_NONE_RE = re.compile(r"'([^']+)' does not depend on any axioms")


def lean_axioms(module):
    """Elaborate the module's source again and return {theorem: [axioms]} from its #print axioms lines."""
    path = os.path.join(LEAN, module.replace(".", "/") + ".lean")
    with Lock("lean"):
        rc, out = sh(["lake", "env", "lean", path], cwd=LEAN, timeout=3600)
    res = {}
    for m in AX_RE.finditer(out):
        res[m.group(1)] = [a.strip() for a in m.group(2).split(",") if a.strip()]
    for m in AX_NONE_RE.finditer(out):
        res[m.group(1)] = []
    return rc, out, res


BAD_TOKENS = re.compile(r"\b(sorry|admit|native_decide|bv_decide|implemented_by|unsafe)\b|^\s*axiom\s|maxHeartbeats\s+0")


def strip_lean_comments(src):
    # remove /- ... -/ (nested not handled beyond one level of greedy-safe scan) and -- comments
    out, i, depth = [], 0, 0
    while i < len(src):
        if src.startswith("/-", i):
            depth += 1; i += 2; continue
        if src.startswith("-/", i) and depth > 0:
            depth -= 1; i += 2; continue
        if depth == 0:
            if src.startswith("--", i):
                j = src.find("\n", i)
                i = len(src) if j < 0 else j
                continue
            out.append(src[i])
        elif src[i] == "\n":
            out.append("\n")
        i += 1
    return "".join(out)


def lean_source_audit():
    """grep all non-generated Lean sources for forbidden constructs (comments stripped)."""
    hits = []
    for root, _, files in os.walk(LEAN):
        if ".lake" in root:
            continue
        for f in files:
            if f.endswith(".lean"):
                p = os.path.join(root, f)
                src = strip_lean_comments(open(p).read())
                for n, line in enumerate(src.split("\n"), 1):
                    if BAD_TOKENS.search(line):
                        hits.append(f"{os.path.relpath(p, LEAN)}:{n}: {line.strip()[:120]}")
    return hits


def proof_obligations(module, extra_targets=()):
    """Build a theorem module, audit axioms. Returns dict with obligations/discharged/failures/log."""
    t0 = time.time()
    rc, out = lean_build([module] + list(extra_targets))
    res = {"module": module, "build_rc": rc, "theorems": {}, "failures": [], "build_s": round(time.time() - t0, 1)}
    if rc != 0:
        errs = [l for l in out.split("\n") if l.startswith("error")]
        res["failures"].append({"kind": "lake-build", "module": module, "errors": errs[:20]})
    rc2, out2, ax = lean_axioms(module)
    res["theorems"] = ax
    for thm, axs in ax.items():
        bad = [a for a in axs if a not in ALLOWED_AXIOMS]
        if bad:
            res["failures"].append({"kind": "axiom", "theorem": thm, "axioms": bad})
    if rc == 0 and not ax:
        res["failures"].append({"kind": "no-theorems", "module": module})
    audit = lean_source_audit()
    if audit:
        res["failures"].append({"kind": "source-audit", "hits": audit[:20]})
    if rc == 0 and os.environ.get("VERIF_TIER_EFFECTIVE") == "thorough":
        # independent re-check of the compiled module (and everything it imports from this project) by leanchecker
        t1 = time.time()
        rc3, out3 = sh(["lake", "env", "leanchecker", module], cwd=LEAN, timeout=3600)
        res["leanchecker"] = {"rc": rc3, "seconds": round(time.time() - t1, 1)}
        if rc3 != 0:
            res["failures"].append({"kind": "leanchecker", "module": module, "log": out3[-1500:]})
    res["obligations"] = max(len(ax), 1)
    res["discharged"] = sum(1 for t, a in ax.items() if all(x in ALLOWED_AXIOMS for x in a)) if rc == 0 else 0
    return res


def driver_path():
    return os.path.join(LEAN, ".lake", "build", "bin", "wowdrv")


# ---------------------------------------------------------------- Rust side

def harness_build(name, features=None, extra_env=None, variant=None, no_default=False):
    """cargo build the harness crate /verif/harness/<name> against /repo's working tree. Returns (rc, out, binpath).
    `variant` selects a separate target directory (reduced feature configurations, C19)."""
    crate = os.path.join(VERIF, "harness", name)
    target = os.path.join(CACHE, "target-" + name + ("-" + variant if variant else ""))
    env = env_offline()
    env["CARGO_TARGET_DIR"] = target
    if extra_env:
        env.update(extra_env)
    lock_src = os.path.join(REPO, "Cargo.lock")
    with Lock("cargo-" + name + ("-" + variant if variant else "")):
        if name == "world":
            # dispatch tables over the login opcode enums are re-derived from /repo's current sources
            sys.path.insert(0, os.path.join(VERIF, "tools"))
            import gen_harness_login
            gen_harness_login.generate()
            gen_harness_login.generate_async()
            gen_harness_login.generate_collective()
            gen_harness_login.generate_expect()
        if not os.path.exists(os.path.join(crate, "Cargo.lock")) and os.path.exists(lock_src):
            subprocess.run(["cp", lock_src, os.path.join(crate, "Cargo.lock")])
        cmd = ["cargo", "build", "--offline"]
        if no_default:
            cmd.append("--no-default-features")
        if features:
            cmd += ["--features", features]
        rc, out = sh(cmd, cwd=crate, timeout=7200, env=env)
    return rc, out, os.path.join(target, "debug", "vh_" + name)


# ---------------------------------------------------------------- line protocol

def run_lines(binary, lines, timeout=3600, restart=True, env=None, limit_as=None, stall=None, max_hangs=4):
    """Feed request lines to a line-protocol binary; one reply per request.
    If the process dies, the request it died on is answered `abort signal` and a fresh process continues.
    `stall` (seconds; only for binaries that flush every reply, i.e. the Rust harnesses): when no reply arrives for that long the process is
    killed, the request it was working on is answered `abort hang …` and a fresh process continues with the next one."""
    replies = []
    pos = 0
    n = len(lines)
    n_hangs = 0
    while pos < n:
        if n_hangs >= max_hangs:
            # every hang costs `stall` seconds: after a few, the rest of this share is left unevaluated (reported as such, never as held)
            replies.extend([f"skipped after {n_hangs} hangs"] * (n - pos))
            break
        chunk = lines[pos:]
        pre = None
        if limit_as:
            import resource
            def pre():
                resource.setrlimit(resource.RLIMIT_AS, (limit_as, limit_as))
        hung = False
        if stall is None:
            p = subprocess.run([binary], input="\n".join(chunk) + "\n", stdout=subprocess.PIPE, stderr=subprocess.PIPE,
                               text=True, timeout=timeout, env=env, preexec_fn=pre)
            got = p.stdout.split("\n")
            if got and got[-1] == "":
                got.pop()
            rcode, err = p.returncode, p.stderr
        else:
            import threading
            p = subprocess.Popen([binary], stdin=subprocess.PIPE, stdout=subprocess.PIPE, stderr=subprocess.PIPE, text=True, env=env, preexec_fn=pre)
            got, errbuf, last = [], [], [time.time()]

            def feed():
                try:
                    p.stdin.write("\n".join(chunk) + "\n")
                    p.stdin.close()
                except (BrokenPipeError, OSError, ValueError):
                    pass

            def read_out():
                for line in p.stdout:
                    got.append(line.rstrip("\n"))
                    last[0] = time.time()

            def read_err():
                errbuf.append(p.stderr.read())
            ths = [threading.Thread(target=f, daemon=True) for f in (feed, read_out, read_err)]
            for t in ths:
                t.start()
            t_start = time.time()
            while ths[1].is_alive():
                ths[1].join(0.2)
                if time.time() - last[0] > stall or time.time() - t_start > timeout:
                    hung = True
                    p.kill()
                    break
            p.wait()
            for t in ths:
                t.join(5)
            rcode, err = p.returncode, "".join(x or "" for x in errbuf)
        got = got[:len(chunk)]
        replies.extend(got)
        pos += len(got)
        if pos < n:
            if not restart:
                replies.extend(["abort noreply"] * (n - pos))
                break
            if hung:
                n_hangs += 1
                replies.append(f"abort hang no reply within {stall}s")
            else:
                why = "_".join((err or "").strip().split("\n")[-1].split())[:100]
                replies.append(f"abort signal rc={rcode} {why}")
            pos += 1
    return replies


def run_parallel(binary, lines, jobs=16, **kw):
    """Split independent request lines over several processes (order preserved)."""
    from concurrent.futures import ThreadPoolExecutor
    if len(lines) < 64 or jobs <= 1:
        return run_lines(binary, lines, **kw)
    if kw.get("stall") is not None:
        # interleaved shares: neighbouring requests (the faults of one frame) go to different processes, so that a frame whose faults hang
        # does not serialise all its stalls in one share
        parts = [lines[i::jobs] for i in range(jobs)]
        with ThreadPoolExecutor(max_workers=jobs) as ex:
            outs = list(ex.map(lambda p: run_lines(binary, p, **kw), parts))
        res = [None] * len(lines)
        for i, o in enumerate(outs):
            res[i::jobs] = o
        return res
    k = (len(lines) + jobs - 1) // jobs
    parts = [lines[i:i + k] for i in range(0, len(lines), k)]
    with ThreadPoolExecutor(max_workers=jobs) as ex:
        outs = list(ex.map(lambda p: run_lines(binary, p, **kw), parts))
    return [r for o in outs for r in o]


class SplitMix64:
    def __init__(self, seed):
        self.s = seed & 0xFFFFFFFFFFFFFFFF

    def next(self):
        self.s = (self.s + 0x9E3779B97F4A7C15) & 0xFFFFFFFFFFFFFFFF
        z = self.s
        z = ((z ^ (z >> 30)) * 0xBF58476D1CE4E5B9) & 0xFFFFFFFFFFFFFFFF
        z = ((z ^ (z >> 27)) * 0x94D049BB133111EB) & 0xFFFFFFFFFFFFFFFF
        return z ^ (z >> 31)

    def below(self, n):
        return self.next() % n if n > 0 else 0

    def choice(self, xs):
        return xs[self.below(len(xs))]

    def bytes(self, n):
        return bytes(self.below(256) for _ in range(n))


# ---------------------------------------------------------------- findings / evidence / violations

def load_known():
    p = os.path.join(VERIF, "known_findings.json")
    if not os.path.exists(p):
        return []
    return json.load(open(p)).get("findings", [])


class Report:
    """Collects violations for one property run, applies known-findings, prints protocol lines, writes evidence."""

    def __init__(self, pid, tier, seed, level):
        self.pid, self.tier, self.seed, self.level = pid, tier, seed, level
        self.t0 = time.time()
        self.violations = []      # dicts: key, what, replay(obj), no_input(bool)
        self.known_hits = []
        self.coverage = {}
        self.assumptions = []
        self.known = [k for k in load_known() if k.get("property") == pid]

    def violation(self, key, what, replay, no_input=False):
        """key: stable finding key (property/mechanism/site). replay: JSON-able object with the failing input or the broken obligation."""
        for k in self.known:
            if k.get("status") == "known" and k.get("key") == key:
                if key not in [h["key"] for h in self.known_hits]:
                    self.known_hits.append({"key": key, "what": k.get("what", what), "example": replay})
                return
        self.violations.append({"key": key, "what": what, "replay": replay, "no_input": no_input})

    def finish(self):
        wall = round(time.time() - self.t0, 2)
        for h in self.known_hits:
            print(f"KNOWN-FINDING: property={self.pid} {h['key']}: {h['what']}")
        paths = []
        seen = set()
        for v in self.violations:
            if v["key"] in seen:
                continue
            seen.add(v["key"])
            name = f"{self.pid}_{hashlib.sha1(v['key'].encode()).hexdigest()[:10]}.json"
            path = os.path.join(REPLAY, name)
            json.dump({"property": self.pid, "key": v["key"], "what": v["what"], "tier": self.tier, "seed": self.seed,
                       "no_failing_input_found": v["no_input"], "replay": v["replay"],
                       "all_with_key": [w["replay"] for w in self.violations if w["key"] == v["key"]][:20]},
                      open(path, "w"), indent=1)
            paths.append(path)
            print(f"violation detail: property={self.pid} key={v['key']}: {v['what']}")
            if v["no_input"]:
                print(f"VIOLATION property={self.pid} replay={path} no-failing-input-found")
            else:
                print(f"VIOLATION property={self.pid} replay={path}")
        cov = dict(self.coverage)
        cov.setdefault("known_findings_hit", [h["key"] for h in self.known_hits])
        ev = {"property_id": self.pid, "tier": self.tier, "seed": self.seed, "level": self.level, "coverage": cov,
              "assumptions": self.assumptions, "wall_s": wall, "violations": len(seen)}
        os.makedirs(EVID, exist_ok=True)
        json.dump(ev, open(os.path.join(EVID, self.pid + ".json"), "w"), indent=1)
        if not seen:
            print(f"OK property={self.pid} tier={self.tier} wall={wall}s")
        return 1 if seen else 0


def add_proof_failures(rep, po, search_hint=None):
    """Turn failed proof obligations into violations (no failing input unless a search finds one later)."""
    for f in po["failures"]:
        key = f"{rep.pid}/proof-obligation/{f['kind']}/{f.get('theorem', f.get('module', ''))}"
        rep.violation(key, f"proof obligation no longer checks: {json.dumps(f)[:300]}", {"obligation": f, "hint": search_hint}, no_input=True)
