use wow_world_base::shared::DateTime;
use wow_world_base::DateTimeError;

pub enum Outcome {
    Ok { y: u32, m: u32, d: u32, w: u32, h: u32, mi: u32, asint: u32 },
    Minute(u32),
    Hour(u32),
    EnumWeekday(u64),
    EnumMonth(u64),
    MonthDay(u32, u32),
    Date(u32, u32, u32, u32, u32),
    Other(String),
}

fn month_int(m: wow_world_base::shared::Month) -> u32 {
    m.iso8601() - 1
}

fn weekday_int(w: wow_world_base::shared::Weekday) -> u32 {
    use wow_world_base::shared::Weekday::*;
    match w {
        Sunday => 0,
        Monday => 1,
        Tuesday => 2,
        Wednesday => 3,
        Thursday => 4,
        Friday => 5,
        Saturday => 6,
    }
}

pub fn outcome(v: u32) -> Outcome {
    match DateTime::try_from(v) {
        Ok(t) => Outcome::Ok {
            y: t.years_after_2000() as u32,
            m: month_int(t.month()),
            d: t.month_day() as u32,
            w: weekday_int(t.weekday()),
            h: t.hours() as u32,
            mi: t.minutes() as u32,
            asint: t.as_int(),
        },
        Err(DateTimeError::InvalidMinute(n)) => Outcome::Minute(n as u32),
        Err(DateTimeError::InvalidHour(n)) => Outcome::Hour(n as u32),
        Err(DateTimeError::EnumError(e)) => {
            let s = format!("{e:?}");
            // EnumError { name: "Weekday", value: 7 }
            let value = e.value as u64;
            if s.contains("Weekday") {
                Outcome::EnumWeekday(value)
            } else if s.contains("Month") {
                Outcome::EnumMonth(value)
            } else {
                Outcome::Other(s)
            }
        }
        Err(DateTimeError::InvalidMonthDay { month, day }) => Outcome::MonthDay(month as u32, day as u32),
        Err(DateTimeError::InvalidDate { year_after_2000, month, month_day, weekday, predicted_weekday }) => {
            Outcome::Date(year_after_2000 as u32, month as u32, month_day as u32, weekday as u32, predicted_weekday as u32)
        }
    }
}

pub fn render(v: u32) -> String {
    match outcome(v) {
        Outcome::Ok { y, m, d, w, h, mi, asint } => format!("ok {y} {m} {d} {w} {h} {mi} {asint}"),
        Outcome::Minute(n) => format!("err minute {n}"),
        Outcome::Hour(n) => format!("err hour {n}"),
        Outcome::EnumWeekday(n) => format!("err enum Weekday {n}"),
        Outcome::EnumMonth(n) => format!("err enum Month {n}"),
        Outcome::MonthDay(m, d) => format!("err monthday {m} {d}"),
        Outcome::Date(y, m, d, w, p) => format!("err date {y} {m} {d} {w} {p}"),
        Outcome::Other(s) => format!("err other {s}"),
    }
}

/// Same code as `WowVerif.DateTime.outcomeCode`, but the ok-branch additionally requires that every
/// accessor returns the corresponding bit field (otherwise a distinct code 0 is folded in).
pub fn code(v: u32) -> u64 {
    match outcome(v) {
        Outcome::Ok { y, m, d, w, h, mi, asint } => {
            let fields_ok = mi == (v & 63) && h == ((v >> 6) & 31) && w == ((v >> 11) & 7)
                && d == ((v >> 14) & 63) && m == ((v >> 20) & 15) && y == ((v >> 24) & 255);
            if fields_ok { 1u64.wrapping_add((asint as u64).wrapping_mul(8)) } else { 0 }
        }
        Outcome::Minute(n) => 2u64.wrapping_add((n as u64).wrapping_mul(8)),
        Outcome::Hour(n) => 3u64.wrapping_add((n as u64).wrapping_mul(8)),
        Outcome::EnumWeekday(n) => 4u64.wrapping_add(n.wrapping_mul(8)),
        Outcome::EnumMonth(n) => 5u64.wrapping_add(n.wrapping_mul(8)),
        Outcome::MonthDay(m, d) => 6u64.wrapping_add(((m * 256 + d) as u64).wrapping_mul(8)),
        Outcome::Date(y, m, d, w, p) => {
            7u64.wrapping_add((((((y as u64 * 16 + m as u64) * 64 + d as u64) * 8 + w as u64) * 8) + p as u64).wrapping_mul(8))
        }
        Outcome::Other(_) => 0,
    }
}

fn fnv_step(h: u64, x: u64) -> u64 {
    (h ^ x).wrapping_mul(0x100000001b3)
}

pub fn sweep(lo: u64, hi: u64) -> String {
    let mut h = 0xcbf29ce484222325u64;
    let mut oks = 0u64;
    for v in lo..hi {
        let c = code(v as u32);
        if c % 8 == 1 {
            oks += 1;
        }
        h = fnv_step(h, c);
    }
    format!("digest {h} ok={oks}")
}

const CORNERS: [u32; 16] = [0, 1, 59, 60, 63, 23 * 64, 23 * 64 + 59, 24 * 64, 24 * 64 + 59, 31 * 64 + 63,
    12 * 64 + 34, 23 * 64 + 60, 24 * 64 + 60, 31 * 64, 5 * 64 + 61, 17 * 64 + 30];

pub fn field_sweep(lo: u64, hi: u64) -> String {
    let mut h = 0xcbf29ce484222325u64;
    let mut oks = 0u64;
    for f in lo..hi {
        for c in CORNERS {
            let v = (f as u32) * 2048 + c;
            let code = code(v);
            if code % 8 == 1 {
                oks += 1;
            }
            h = fnv_step(h, code);
        }
    }
    format!("digest {h} ok={oks}")
}
