//! Line-protocol harness over the real `wow_world_base` crate (same protocol as the Lean driver).
use std::io::{BufRead, Write};
use wow_world_base::{DateTimeError};
use wow_world_base::shared::DateTime;

mod dt;

fn handle(ws: &[&str]) -> String {
    match ws {
        ["dt", n] => match n.parse::<u32>() {
            Ok(v) => dt::render(v),
            Err(_) => "bad-op".into(),
        },
        ["dtsweep", a, b] => match (a.parse::<u64>(), b.parse::<u64>()) {
            (Ok(lo), Ok(hi)) => dt::sweep(lo, hi),
            _ => "bad-op".into(),
        },
        ["dtfields", a, b] => match (a.parse::<u64>(), b.parse::<u64>()) {
            (Ok(lo), Ok(hi)) => dt::field_sweep(lo, hi),
            _ => "bad-op".into(),
        },
        _ => "bad-op".into(),
    }
}

fn main() {
    let stdin = std::io::stdin();
    let stdout = std::io::stdout();
    let mut out = std::io::BufWriter::new(stdout.lock());
    std::panic::set_hook(Box::new(|_| {}));
    for line in stdin.lock().lines() {
        let line = line.unwrap();
        let ws: Vec<&str> = line.split_ascii_whitespace().collect();
        let r = std::panic::catch_unwind(|| handle(&ws)).unwrap_or_else(|_| "abort panic".to_string());
        writeln!(out, "{r}").unwrap();
    }
    out.flush().unwrap();
    let _ = (DateTimeError::InvalidMinute(0), DateTime::default());
}
