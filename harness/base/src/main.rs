//! Line-protocol harness over the real `wow_world_base` crate (same protocol as the Lean driver).
use std::io::{BufRead, Write};
use wow_world_base::{DateTimeError};
use wow_world_base::shared::DateTime;

mod dt;
mod geo;

macro_rules! enum_ops {
    ($t:ty, $src:expr, $n:expr, [$($s:ident),*]) => {{
        let n: i128 = $n;
        match $src {
            $( stringify!($s) => match <$s>::try_from(n) {
                Ok(v) => Some(match <$t as TryFrom<$s>>::try_from(v) {
                    Ok(t) => format!("ok {:?} {}", t, t.as_int() as i128),
                    Err(e) => format!("err {} {}", e.name, e.value),
                }),
                Err(_) => None,
            }, )*
            "variants" => Some(<$t>::variants().iter().map(|v| format!("{:?}:{}", v, v.as_int() as i128)).collect::<Vec<_>>().join(" ")),
            "from_int" => match n.try_into() {
                Ok(v) => Some(match <$t>::from_int(v) {
                    Ok(t) => format!("ok {:?} {}", t, t.as_int() as i128),
                    Err(e) => format!("err {} {}", e.name, e.value),
                }),
                Err(_) => None,
            },
            _ => None,
        }
    }};
}

macro_rules! flag_ops {
    ($t:ty, $b:ty, $raw:expr, $rhs:expr, [$(($name:literal, $is:ident, $new:ident, $set:ident, $clear:ident)),*], [$(($cname:literal, $c:ident)),*]) => {{
        let raw = $raw as $b;
        let rhs = $rhs as $b;
        let x = <$t>::new(raw);
        let r = <$t>::new(rhs);
        let mut a = x; a &= r;
        let mut o = x; o |= r;
        let mut z = x; z ^= r;
        let mut s = format!("new={} empty={} isempty={} all={} and={} or={} xor={} anda={} ora={} xora={}",
            x.as_int(), <$t>::empty().as_int(), x.is_empty(), <$t>::all().as_int(),
            (x & r).as_int(), (x | r).as_int(), (x ^ r).as_int(), a.as_int(), o.as_int(), z.as_int());
        $( {
            let mut y = x; let sret = y.$set().as_int(); let safter = y.as_int();
            let mut y2 = x; let cret = y2.$clear().as_int(); let cafter = y2.as_int();
            s += &format!(" {}:is={},new={},set={},{},clear={},{}", $name, x.$is(), <$t>::$new().as_int(), sret, safter, cret, cafter);
        } )*
        $( s += &format!(" const:{}={}", $cname, <$t>::$c); )*
        s
    }};
}

macro_rules! flag_conv_ops {
    ($t:ty, $src:expr, $n:expr, [$($s:ident),*]) => {{
        let n: i128 = $n;
        match $src {
            $( stringify!($s) => match <$s>::try_from(n) {
                Ok(v) => Some(match <$t as TryFrom<$s>>::try_from(v) {
                    Ok(t) => format!("some {}", t.as_int()),
                    Err(_) => "none".to_string(),
                }),
                Err(_) => None,
            }, )*
            _ => None,
        }
    }};
}

mod gen_defs;

fn handle(ws: &[&str]) -> String {
    match ws {
        ["dt", n] => match n.parse::<u32>() {
            Ok(v) => dt::render(v),
            Err(_) => "bad-op".into(),
        },
        ["dtsweep", a, b] => match (a.parse::<u64>(), b.parse::<u64>()) {
            (Ok(lo), Ok(hi)) => dt::sweep(lo, hi),
            _ => "bad-op".into(),
        },
        ["dtfields", a, b] => match (a.parse::<u64>(), b.parse::<u64>()) {
            (Ok(lo), Ok(hi)) => dt::field_sweep(lo, hi),
            _ => "bad-op".into(),
        },
        ["enum", key, src, n] => match n.parse::<i128>() {
            Ok(n) => gen_defs::enum_call(key, src, n).unwrap_or_else(|| "skip".into()),
            Err(_) => "bad-op".into(),
        },
        ["flag", key, raw, rhs] => match (raw.parse::<u64>(), rhs.parse::<u64>()) {
            (Ok(a), Ok(b)) => gen_defs::flag_call(key, a, b).unwrap_or_else(|| "skip".into()),
            _ => "bad-op".into(),
        },
        ["flagconv", key, src, n] => match n.parse::<i128>() {
            Ok(n) => gen_defs::flag_conv(key, src, n).unwrap_or_else(|| "skip".into()),
            Err(_) => "bad-op".into(),
        },
        _ => geo::handle(ws).unwrap_or_else(|| "bad-op".into()),
    }
}

fn main() {
    let stdin = std::io::stdin();
    let stdout = std::io::stdout();
    let mut out = std::io::BufWriter::new(stdout.lock());
    std::panic::set_hook(Box::new(|_| {}));
    for line in stdin.lock().lines() {
        let line = line.unwrap();
        let ws: Vec<&str> = line.split_ascii_whitespace().collect();
        let r = std::panic::catch_unwind(|| handle(&ws)).unwrap_or_else(|_| "abort panic".to_string());
        writeln!(out, "{r}").unwrap();
    }
    out.flush().unwrap();
    let _ = (DateTimeError::InvalidMinute(0), DateTime::default());
}
