//! C20: real geometry helpers and trigger verification.
use wow_world_base::geometry::{distance_2d, distance_between, is_within_distance, is_within_square};
use wow_world_base::shared::vector2d_vanilla_tbc_wrath::Vector2d;
use wow_world_base::shared::vector3d_vanilla_tbc_wrath::Vector3d;

fn f(s: &str) -> Option<f32> {
    s.parse::<f32>().ok()
}

pub fn handle(ws: &[&str]) -> Option<String> {
    match ws {
        ["geosq", px, py, pz, ox, oy, oz, l, w, h, yaw] => {
            let r = is_within_square(
                Vector3d { x: f(px)?, y: f(py)?, z: f(pz)? },
                Vector3d { x: f(ox)?, y: f(oy)?, z: f(oz)? },
                f(l)?, f(w)?, f(h)?, f(yaw)?,
            );
            Some(if r { "in".into() } else { "out".into() })
        }
        ["geocircle", cx, cy, cz, px, py, pz, r] => {
            let r = is_within_distance(Vector3d { x: f(cx)?, y: f(cy)?, z: f(cz)? }, Vector3d { x: f(px)?, y: f(py)?, z: f(pz)? }, f(r)?);
            Some(if r { "in".into() } else { "out".into() })
        }
        ["geodist", ax, ay, az, bx, by, bz] => {
            let d = distance_between(Vector3d { x: f(ax)?, y: f(ay)?, z: f(az)? }, Vector3d { x: f(bx)?, y: f(by)?, z: f(bz)? });
            Some(format!("{d}"))
        }
        ["geodist2", ax, ay, bx, by] => {
            let d = distance_2d(Vector2d { x: f(ax)?, y: f(ay)? }, Vector2d { x: f(bx)?, y: f(by)? });
            Some(format!("{d}"))
        }
        ["trig", exp, id, map, x, y, z] => {
            let id: u32 = id.parse().ok()?;
            let map: u32 = map.parse().ok()?;
            macro_rules! go {
                ($e:ident) => {{
                    let m = wow_world_base::$e::Map::try_from(map).ok()?;
                    let p = wow_world_base::$e::position::Position::new(m, f(x)?, f(y)?, f(z)?, 0.0);
                    match wow_world_base::$e::trigger::verify_trigger(p, id) {
                        wow_world_base::$e::trigger::TriggerResult::NotFound => "notfound",
                        wow_world_base::$e::trigger::TriggerResult::NotInsideTrigger(_) => "outside",
                        wow_world_base::$e::trigger::TriggerResult::Success(_) => "success",
                    }
                }};
            }
            Some(match *exp {
                "vanilla" => go!(vanilla),
                "tbc" => go!(tbc),
                "wrath" => go!(wrath),
                _ => return None,
            }.to_string())
        }
        _ => None,
    }
}
