//! C01/C03/C04: read a frame through the public opcode-enum readers, write the decoded value back.
use std::io::Cursor;

pub fn parse_kind_pub(dbg: &str) -> String {
    parse_kind(dbg)
}

fn parse_kind(dbg: &str) -> String {
    // Debug text of ParseError { .., kind: <Kind>(..) }
    if let Some(i) = dbg.find("Enum(EnumError { name: \"") {
        let rest = &dbg[i + 24..];
        let name = rest.split('"').next().unwrap_or("?");
        let value = rest.split("value: ").nth(1).map(|s| s.split(|c: char| !(c.is_ascii_digit() || c == '-')).next().unwrap_or("?")).unwrap_or("?");
        return format!("err enum {name} {value}");
    }
    for (pat, out) in [("InvalidSize", "err size"), ("BufferSizeTooSmall", "err buffer"), ("AllocationTooLargeError", "err alloc"), ("DateTime(", "err datetime"),
                       ("String(", "err string"), ("UnexpectedEof", "err eof"), ("Io(", "err io")] {
        if dbg.contains(pat) {
            return out.to_string();
        }
    }
    format!("err other {}", &dbg[..dbg.len().min(80)])
}

macro_rules! world_codec {
    ($exp:ident, $dir:expr, $bytes:expr) => {{
        let mut cur = Cursor::new($bytes);
        if $dir == "client" {
            match wow_world_messages::$exp::opcodes::ClientOpcodeMessage::read_unencrypted(&mut cur) {
                Ok(m) => {
                    let mut w = Vec::new();
                    let r = std::panic::catch_unwind(std::panic::AssertUnwindSafe(|| m.write_unencrypted_client(&mut w)));
                    match r {
                        Ok(Ok(())) => format!("ok {} consumed={} name={}", crate::hex(&w), cur.position(), m),
                        Ok(Err(e)) => format!("err write {e}"),
                        Err(_) => format!("abort write-panic consumed={} name={} {}", cur.position(), m, crate::last_panic()),
                    }
                }
                Err(wow_world_messages::errors::ExpectedOpcodeError::Opcode { opcode, .. }) => format!("err opcode {opcode}"),
                Err(e) => parse_kind(&format!("{e:?}")),
            }
        } else {
            match wow_world_messages::$exp::opcodes::ServerOpcodeMessage::read_unencrypted(&mut cur) {
                Ok(m) => {
                    let mut w = Vec::new();
                    let r = std::panic::catch_unwind(std::panic::AssertUnwindSafe(|| m.write_unencrypted_server(&mut w)));
                    match r {
                        Ok(Ok(())) => format!("ok {} consumed={} name={}", crate::hex(&w), cur.position(), m),
                        Ok(Err(e)) => format!("err write {e}"),
                        Err(_) => format!("abort write-panic consumed={} name={} {}", cur.position(), m, crate::last_panic()),
                    }
                }
                Err(wow_world_messages::errors::ExpectedOpcodeError::Opcode { opcode, .. }) => format!("err opcode {opcode}"),
                Err(e) => parse_kind(&format!("{e:?}")),
            }
        }
    }};
}

/// `codec <lib> <dir> <hex>`
pub fn codec(lib: &str, dir: &str, hex: &str) -> String {
    let Some(bytes) = crate::unhex(hex) else { return "bad-op".into() };
    match lib {
        #[cfg(feature = "vanilla")]
        "vanilla" => world_codec!(vanilla, dir, bytes.as_slice()),
        #[cfg(feature = "tbc")]
        "tbc" => world_codec!(tbc, dir, bytes.as_slice()),
        #[cfg(feature = "wrath")]
        "wrath" => world_codec!(wrath, dir, bytes.as_slice()),
        l if l.starts_with("login") => {
            let v: u32 = l[5..].parse().unwrap_or(0);
            match crate::gen_login::login_codec(v, dir, &bytes) {
                Some(Ok((w, pos, name))) => format!("ok {} consumed={} name={}", crate::hex(&w), pos, name),
                Some(Err(wow_login_messages::errors::ExpectedOpcodeError::Opcode(o))) => format!("err opcode {o}"),
                Some(Err(e)) => parse_kind(&format!("{e:?}")),
                None => "bad-op".into(),
            }
        }
        _ => "bad-op".into(),
    }
}

macro_rules! world_decode {
    ($exp:ident, $dir:expr, $bytes:expr) => {{
        let mut cur = Cursor::new($bytes);
        if $dir == "client" {
            match wow_world_messages::$exp::opcodes::ClientOpcodeMessage::read_unencrypted(&mut cur) {
                Ok(_) => "ok".to_string(),
                Err(wow_world_messages::errors::ExpectedOpcodeError::Opcode { opcode, .. }) => format!("err opcode {opcode}"),
                Err(e) => parse_kind(&format!("{e:?}")),
            }
        } else {
            match wow_world_messages::$exp::opcodes::ServerOpcodeMessage::read_unencrypted(&mut cur) {
                Ok(_) => "ok".to_string(),
                Err(wow_world_messages::errors::ExpectedOpcodeError::Opcode { opcode, .. }) => format!("err opcode {opcode}"),
                Err(e) => parse_kind(&format!("{e:?}")),
            }
        }
    }};
}

/// decode only (C03): `ok` | `err <kind>`; panics are caught by the caller
pub fn decode_only(lib: &str, dir: &str, bytes: &[u8]) -> String {
    match lib {
        #[cfg(feature = "vanilla")]
        "vanilla" => world_decode!(vanilla, dir, bytes),
        #[cfg(feature = "tbc")]
        "tbc" => world_decode!(tbc, dir, bytes),
        #[cfg(feature = "wrath")]
        "wrath" => world_decode!(wrath, dir, bytes),
        l if l.starts_with("login") => {
            let v: u32 = l[5..].parse().unwrap_or(0);
            match crate::gen_login::login_codec(v, dir, bytes) {
                Some(Ok(_)) => "ok".into(),
                Some(Err(wow_login_messages::errors::ExpectedOpcodeError::Opcode(o))) => format!("err opcode {o}"),
                Some(Err(e)) => parse_kind(&format!("{e:?}")),
                None => "bad-op".into(),
            }
        }
        _ => "bad-op".into(),
    }
}

macro_rules! world_stream {
    ($exp:ident, $opc:ident, $w:ident, $bytes:expr) => {{
        let bytes: &[u8] = $bytes;
        let mut cur = Cursor::new(bytes);
        let mut out = String::from("ok");
        let mut n = 0usize;
        while (cur.position() as usize) < bytes.len() && n < 4096 {
            n += 1;
            let start = cur.position() as usize;
            match wow_world_messages::$exp::opcodes::$opc::read_unencrypted(&mut cur) {
                Ok(m) => {
                    let mut w = Vec::new();
                    let good = matches!(std::panic::catch_unwind(std::panic::AssertUnwindSafe(|| m.$w(&mut w))), Ok(Ok(()))) && w.as_slice() == &bytes[start..cur.position() as usize];
                    out.push_str(&format!(" {}{}@{}", m, if good { "" } else { "!" }, cur.position()));
                }
                Err(wow_world_messages::errors::ExpectedOpcodeError::Opcode { opcode, .. }) => out.push_str(&format!(" unknown:{}@{}", opcode, cur.position())),
                Err(wow_world_messages::errors::ExpectedOpcodeError::Parse(_)) => out.push_str(&format!(" bad@{}", cur.position())),
                Err(e) => { out.push_str(&format!(" io:{}@{}", parse_kind(&format!("{e:?}")).replace(' ', "_"), cur.position())); break; }
            }
        }
        out.push_str(&format!(" end={}", cur.position()));
        out
    }};
}

/// `mstream <exp> <dir> <hex>`: read one stream of arbitrary messages through the opcode-enum reader until it ends; after an unknown opcode or
/// a body that does not parse reading goes on (C02: the stream must still be aligned).  -> `ok NAME@pos unknown:OP@pos bad@pos … end=N`
/// (`NAME!` when writing the decoded message back does not reproduce the bytes it was read from)
pub fn mstream(exp: &str, dir: &str, hex: &str) -> String {
    let Some(bytes) = crate::unhex(hex) else { return "bad-op".into() };
    match (exp, dir) {
        #[cfg(feature = "vanilla")]
        ("vanilla", "client") => world_stream!(vanilla, ClientOpcodeMessage, write_unencrypted_client, bytes.as_slice()),
        #[cfg(feature = "vanilla")]
        ("vanilla", "server") => world_stream!(vanilla, ServerOpcodeMessage, write_unencrypted_server, bytes.as_slice()),
        #[cfg(feature = "tbc")]
        ("tbc", "client") => world_stream!(tbc, ClientOpcodeMessage, write_unencrypted_client, bytes.as_slice()),
        #[cfg(feature = "tbc")]
        ("tbc", "server") => world_stream!(tbc, ServerOpcodeMessage, write_unencrypted_server, bytes.as_slice()),
        #[cfg(feature = "wrath")]
        ("wrath", "client") => world_stream!(wrath, ClientOpcodeMessage, write_unencrypted_client, bytes.as_slice()),
        #[cfg(feature = "wrath")]
        ("wrath", "server") => world_stream!(wrath, ServerOpcodeMessage, write_unencrypted_server, bytes.as_slice()),
        _ => "bad-op".into(),
    }
}
