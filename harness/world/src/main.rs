//! Line-protocol harness over the real `wow_world_messages` / `wow_login_messages` crates.
use std::io::{BufRead, Write};
use std::alloc::{GlobalAlloc, Layout, System};
use std::sync::atomic::{AtomicUsize, Ordering};

/// Counting allocator (C03): largest single request and total bytes requested since the last reset.
pub struct Counting;
pub static MAX_REQ: AtomicUsize = AtomicUsize::new(0);
pub static TOTAL_REQ: AtomicUsize = AtomicUsize::new(0);
unsafe impl GlobalAlloc for Counting {
    unsafe fn alloc(&self, l: Layout) -> *mut u8 {
        MAX_REQ.fetch_max(l.size(), Ordering::Relaxed);
        TOTAL_REQ.fetch_add(l.size(), Ordering::Relaxed);
        System.alloc(l)
    }
    unsafe fn dealloc(&self, p: *mut u8, l: Layout) {
        System.dealloc(p, l)
    }
    unsafe fn alloc_zeroed(&self, l: Layout) -> *mut u8 {
        MAX_REQ.fetch_max(l.size(), Ordering::Relaxed);
        TOTAL_REQ.fetch_add(l.size(), Ordering::Relaxed);
        System.alloc_zeroed(l)
    }
    unsafe fn realloc(&self, p: *mut u8, l: Layout, n: usize) -> *mut u8 {
        MAX_REQ.fetch_max(n, Ordering::Relaxed);
        TOTAL_REQ.fetch_add(n, Ordering::Relaxed);
        System.realloc(p, l, n)
    }
}
#[global_allocator]
static GLOBAL: Counting = Counting;

#[cfg(feature = "full")]
mod frame;
#[cfg(feature = "full")]
mod gen_um;
#[cfg(feature = "full")]
mod enc;
thread_local! { pub static LAST_PANIC: std::cell::RefCell<String> = std::cell::RefCell::new(String::new()); }
pub fn last_panic() -> String { LAST_PANIC.with(|p| p.borrow().clone()) }
mod codec;
mod gen_login;
#[cfg(feature = "full")]
mod chunk;
#[cfg(feature = "full")]
mod gen_login_async;
#[cfg(feature = "full")]
mod gen_collective;
#[cfg(feature = "full")]
mod gen_expect;

pub fn hex(b: &[u8]) -> String {
    let mut s = String::with_capacity(b.len() * 2);
    for x in b {
        s.push_str(&format!("{x:02x}"));
    }
    s
}

pub fn unhex(s: &str) -> Option<Vec<u8>> {
    if s == "-" {
        return Some(vec![]);
    }
    if s.len() % 2 != 0 {
        return None;
    }
    (0..s.len()).step_by(2).map(|i| u8::from_str_radix(&s[i..i + 2], 16).ok()).collect()
}

fn handle(ws: &[&str]) -> String {
    match ws {
        #[cfg(feature = "full")]
        ["wframe", exp, dir, len, fill] => frame::wframe(exp, dir, len.parse().unwrap_or(0), fill.parse().unwrap_or(0)),
        #[cfg(feature = "full")]
        ["rframe", exp, dir, api, hdr, len, fill, extra] => frame::rframe(exp, dir, api, hdr, len.parse().unwrap_or(0), fill.parse().unwrap_or(0), extra.parse().unwrap_or(0)),
        #[cfg(feature = "full")]
        ["seq", exp, dir, api, lens] => frame::seq(exp, dir, api, lens),
        #[cfg(feature = "full")]
        ["um", exp, kind, ops] => {
            let mut v = Vec::new();
            for o in ops.split(',') {
                let parts: Vec<&str> = o[1..].split(':').collect();
                let op = match (&o[..1], parts.as_slice()) {
                    ("s", [b, x]) => gen_um::UmOp::Set(b.parse().unwrap_or(0), x.parse().unwrap_or(0)),
                    ("g", [b, lo, hi]) => gen_um::UmOp::Guid(b.parse().unwrap_or(0), lo.parse().unwrap_or(0), hi.parse().unwrap_or(0)),
                    ("i", [sl, lo, hi]) => gen_um::UmOp::Idx(sl.parse().unwrap_or(0), lo.parse().unwrap_or(0), hi.parse().unwrap_or(0)),
                    ("r", _) => gen_um::UmOp::Reset,
                    ("m", _) => gen_um::UmOp::Mark,
                    _ => return "bad-op".into(),
                };
                v.push(op);
            }
            match gen_um::um_run(exp, kind, &v) {
                Some(Ok((w, rt))) => format!("ok {} rt={rt}", hex(&w)),
                Some(Err(e)) => format!("err {e}"),
                None => "bad-op".into(),
            }
        }
        #[cfg(feature = "full")]
        ["umx", exp, acc, index, seed] => gen_um::um_struct(exp, acc, index.parse().unwrap_or(0), seed.parse().unwrap_or(0)),
        #[cfg(feature = "full")]
        ["eseq", exp, dir, api, key, msgs] => enc::eseq(exp, dir, api, key, msgs),
        #[cfg(feature = "full")]
        ["ebig", "wrath", key, n] => enc::ebig(key, n.parse().unwrap_or(0)),
        #[cfg(feature = "full")]
        ["eseqf", exp, dir, key, frames] => enc::eseqf(exp, dir, key, frames),
        #[cfg(feature = "full")]
        ["cipherlaw", exp, key, data] => enc::cipherlaw(exp, key, data),
        #[cfg(feature = "full")]
        ["coll", v, dir, hex] => match unhex(hex) { Some(b) => gen_collective::coll(v.parse().unwrap_or(0), dir, &b).unwrap_or_else(|| "bad-op".into()), None => "bad-op".into() },
        #[cfg(feature = "full")]
        ["coll8", v, dir, hex] => match unhex(hex) { Some(b) => gen_collective::coll8(v.parse().unwrap_or(0), dir, &b).unwrap_or_else(|| "bad-op".into()), None => "bad-op".into() },
        #[cfg(feature = "full")]
        ["chunk", lib, dir, sched] => chunk::chunk(lib, dir, sched),
        ["codec", lib, dir, hex] => codec::codec(lib, dir, hex),
        ["mstream", exp, dir, hex] => codec::mstream(exp, dir, hex),
        ["dec", lib, dir, hex] => {
            let Some(bytes) = unhex(hex) else { return "bad-op".into() };
            MAX_REQ.store(0, Ordering::Relaxed);
            TOTAL_REQ.store(0, Ordering::Relaxed);
            let r = std::panic::catch_unwind(|| codec::decode_only(lib, dir, &bytes)).unwrap_or_else(|_| format!("abort read-panic {}", last_panic()));
            // the same bytes through the typed expect helper of the message type the header names (every world message: gen_expect.rs)
            #[cfg(feature = "full")]
            let r = if r.starts_with("abort") || lib.starts_with("login") { r } else {
                let szlen = if *lib == "wrath" && *dir == "server" && bytes.first().map_or(false, |b| b & 0x80 != 0) { 3 } else { 2 };
                let opcode = if *dir == "server" { bytes.get(szlen..szlen + 2).map(|o| u16::from_le_bytes([o[0], o[1]]) as u32) }
                             else { bytes.get(2..6).map(|o| u32::from_le_bytes([o[0], o[1], o[2], o[3]])) };
                match opcode {
                    Some(op) => match std::panic::catch_unwind(|| gen_expect::expect_any(lib, dir, op, &bytes)) {
                        Ok(_) => r,
                        Err(_) => format!("abort read-panic expect-helper {}", last_panic()),
                    },
                    None => r,
                }
            };
            format!("{r} maxalloc={} totalalloc={}", MAX_REQ.load(Ordering::Relaxed), TOTAL_REQ.load(Ordering::Relaxed))
        }
        _ => "bad-op".into(),
    }
}

fn main() {
    let stdin = std::io::stdin();
    let stdout = std::io::stdout();
    let mut out = std::io::BufWriter::new(stdout.lock());
    std::panic::set_hook(Box::new(|info| {
        let loc = info.location().map(|l| format!("{}:{}", l.file().rsplit('/').next().unwrap_or(""), l.line())).unwrap_or_default();
        let msg = if let Some(s) = info.payload().downcast_ref::<&str>() { s.to_string() } else if let Some(s) = info.payload().downcast_ref::<String>() { s.clone() } else { String::new() };
        let msg: String = msg.split_whitespace().collect::<Vec<_>>().join("_");
        LAST_PANIC.with(|p| *p.borrow_mut() = format!("{loc} {}", &msg[..msg.len().min(120)]));
    }));
    for line in stdin.lock().lines() {
        let line = line.unwrap();
        let ws: Vec<&str> = line.split_ascii_whitespace().collect();
        let r = std::panic::catch_unwind(|| handle(&ws)).unwrap_or_else(|_| format!("abort panic {}", last_panic()));
        writeln!(out, "{r}").unwrap();
        out.flush().unwrap();
    }
}
