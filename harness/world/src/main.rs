//! Line-protocol harness over the real `wow_world_messages` / `wow_login_messages` crates.
use std::io::{BufRead, Write};

mod frame;

pub fn hex(b: &[u8]) -> String {
    let mut s = String::with_capacity(b.len() * 2);
    for x in b {
        s.push_str(&format!("{x:02x}"));
    }
    s
}

pub fn unhex(s: &str) -> Option<Vec<u8>> {
    if s == "-" {
        return Some(vec![]);
    }
    if s.len() % 2 != 0 {
        return None;
    }
    (0..s.len()).step_by(2).map(|i| u8::from_str_radix(&s[i..i + 2], 16).ok()).collect()
}

fn handle(ws: &[&str]) -> String {
    match ws {
        ["wframe", exp, dir, len, fill] => frame::wframe(exp, dir, len.parse().unwrap_or(0), fill.parse().unwrap_or(0)),
        ["rframe", exp, dir, api, hdr, len, fill, extra] => frame::rframe(exp, dir, api, hdr, len.parse().unwrap_or(0), fill.parse().unwrap_or(0), extra.parse().unwrap_or(0)),
        ["seq", exp, dir, api, lens] => frame::seq(exp, dir, api, lens),
        _ => "bad-op".into(),
    }
}

fn main() {
    let stdin = std::io::stdin();
    let stdout = std::io::stdout();
    let mut out = std::io::BufWriter::new(stdout.lock());
    std::panic::set_hook(Box::new(|_| {}));
    for line in stdin.lock().lines() {
        let line = line.unwrap();
        let ws: Vec<&str> = line.split_ascii_whitespace().collect();
        let r = std::panic::catch_unwind(|| handle(&ws)).unwrap_or_else(|_| "abort panic".to_string());
        writeln!(out, "{r}").unwrap();
        out.flush().unwrap();
    }
}
