//! Line-protocol harness over the real `wow_world_messages` / `wow_login_messages` crates.
use std::io::{BufRead, Write};

mod frame;
thread_local! { pub static LAST_PANIC: std::cell::RefCell<String> = std::cell::RefCell::new(String::new()); }
pub fn last_panic() -> String { LAST_PANIC.with(|p| p.borrow().clone()) }
mod codec;
mod gen_login;

pub fn hex(b: &[u8]) -> String {
    let mut s = String::with_capacity(b.len() * 2);
    for x in b {
        s.push_str(&format!("{x:02x}"));
    }
    s
}

pub fn unhex(s: &str) -> Option<Vec<u8>> {
    if s == "-" {
        return Some(vec![]);
    }
    if s.len() % 2 != 0 {
        return None;
    }
    (0..s.len()).step_by(2).map(|i| u8::from_str_radix(&s[i..i + 2], 16).ok()).collect()
}

fn handle(ws: &[&str]) -> String {
    match ws {
        ["wframe", exp, dir, len, fill] => frame::wframe(exp, dir, len.parse().unwrap_or(0), fill.parse().unwrap_or(0)),
        ["rframe", exp, dir, api, hdr, len, fill, extra] => frame::rframe(exp, dir, api, hdr, len.parse().unwrap_or(0), fill.parse().unwrap_or(0), extra.parse().unwrap_or(0)),
        ["seq", exp, dir, api, lens] => frame::seq(exp, dir, api, lens),
        ["codec", lib, dir, hex] => codec::codec(lib, dir, hex),
        _ => "bad-op".into(),
    }
}

fn main() {
    let stdin = std::io::stdin();
    let stdout = std::io::stdout();
    let mut out = std::io::BufWriter::new(stdout.lock());
    std::panic::set_hook(Box::new(|info| {
        let loc = info.location().map(|l| format!("{}:{}", l.file().rsplit('/').next().unwrap_or(""), l.line())).unwrap_or_default();
        let msg = if let Some(s) = info.payload().downcast_ref::<&str>() { s.to_string() } else if let Some(s) = info.payload().downcast_ref::<String>() { s.clone() } else { String::new() };
        let msg: String = msg.split_whitespace().collect::<Vec<_>>().join("_");
        LAST_PANIC.with(|p| *p.borrow_mut() = format!("{loc} {}", &msg[..msg.len().min(120)]));
    }));
    for line in stdin.lock().lines() {
        let line = line.unwrap();
        let ws: Vec<&str> = line.split_ascii_whitespace().collect();
        let r = std::panic::catch_unwind(|| handle(&ws)).unwrap_or_else(|_| format!("abort panic {}", last_panic()));
        writeln!(out, "{r}").unwrap();
        out.flush().unwrap();
    }
}
