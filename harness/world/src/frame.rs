//! Framing (C02): real `*_WARDEN_DATA` messages (`u8[-]` body, all three expansions, both directions) of any length.
use std::io::Cursor;
use wow_world_messages::errors::ExpectedOpcodeError;

pub fn body(len: usize, fill: u8) -> Vec<u8> {
    (0..len).map(|i| fill.wrapping_add((i % 251) as u8)).collect()
}

macro_rules! write_msg {
    ($exp:ident, server, $b:expr) => {{
        let m = wow_world_messages::$exp::SMSG_WARDEN_DATA { encrypted_data: $b };
        let mut v = Vec::new();
        wow_world_messages::$exp::ServerMessage::write_unencrypted_server(&m, &mut v).map(|_| v)
    }};
    ($exp:ident, client, $b:expr) => {{
        let m = wow_world_messages::$exp::CMSG_WARDEN_DATA { encrypted_data: $b };
        let mut v = Vec::new();
        wow_world_messages::$exp::ClientMessage::write_unencrypted_client(&m, &mut v).map(|_| v)
    }};
}

pub fn write_frame(exp: &str, dir: &str, b: Vec<u8>) -> Result<Vec<u8>, String> {
    let r = match (exp, dir) {
        ("vanilla", "server") => write_msg!(vanilla, server, b),
        ("tbc", "server") => write_msg!(tbc, server, b),
        ("wrath", "server") => write_msg!(wrath, server, b),
        ("vanilla", "client") => write_msg!(vanilla, client, b),
        ("tbc", "client") => write_msg!(tbc, client, b),
        ("wrath", "client") => write_msg!(wrath, client, b),
        _ => return Err("bad-op".into()),
    };
    r.map_err(|e| format!("err io {e}"))
}

/// `wframe <exp> <dir> <len> <fill>` -> `ok hdr=<hex> total=<n> bodyok=<0|1>`
pub fn wframe(exp: &str, dir: &str, len: usize, fill: u8) -> String {
    let b = body(len, fill);
    match write_frame(exp, dir, b.clone()) {
        Ok(v) => {
            let hl = v.len().saturating_sub(len);
            let bodyok = v.len() >= len && v[hl..] == b[..];
            format!("ok hdr={} total={} bodyok={}", crate::hex(&v[..hl.min(v.len())]), v.len(), bodyok as u8)
        }
        Err(e) => e,
    }
}

fn err_kind(e: &ExpectedOpcodeError) -> String {
    match e {
        ExpectedOpcodeError::Opcode { opcode, size, .. } => format!("err opcode {opcode} {size}"),
        ExpectedOpcodeError::Parse(p) => {
            let s = format!("{p:?}");
            if s.contains("InvalidSize") { "err parse size".into() }
            else if s.contains("Io") || s.contains("UnexpectedEof") { "err parse io".into() }
            else { "err parse other".into() }
        }
        ExpectedOpcodeError::Io(_) => "err io".into(),
    }
}

macro_rules! read_enum {
    ($exp:ident, server, $cur:expr) => {{
        match wow_world_messages::$exp::opcodes::ServerOpcodeMessage::read_unencrypted(&mut $cur) {
            Ok(wow_world_messages::$exp::opcodes::ServerOpcodeMessage::SMSG_WARDEN_DATA(m)) => Ok((0x2e6u32, m.encrypted_data)),
            Ok(o) => Err(format!("err other-message {o}")),
            Err(e) => Err(err_kind(&e)),
        }
    }};
    ($exp:ident, client, $cur:expr) => {{
        match wow_world_messages::$exp::opcodes::ClientOpcodeMessage::read_unencrypted(&mut $cur) {
            Ok(wow_world_messages::$exp::opcodes::ClientOpcodeMessage::CMSG_WARDEN_DATA(m)) => Ok((0x2e7u32, m.encrypted_data)),
            Ok(o) => Err(format!("err other-message {o}")),
            Err(e) => Err(err_kind(&e)),
        }
    }};
}

macro_rules! read_expect {
    ($exp:ident, server, $cur:expr) => {{
        match wow_world_messages::$exp::expect_server_message::<wow_world_messages::$exp::SMSG_WARDEN_DATA, _>(&mut $cur) {
            Ok(m) => Ok((0x2e6u32, m.encrypted_data)),
            Err(e) => Err(err_kind(&e)),
        }
    }};
    ($exp:ident, client, $cur:expr) => {{
        match wow_world_messages::$exp::expect_client_message::<wow_world_messages::$exp::CMSG_WARDEN_DATA, _>(&mut $cur) {
            Ok(m) => Ok((0x2e7u32, m.encrypted_data)),
            Err(e) => Err(err_kind(&e)),
        }
    }};
}

/// the typed expect helper asked for ANOTHER message type than the one on the wire: it must answer with the opcode error having
/// consumed exactly the announced bytes
macro_rules! read_expect_other {
    ($exp:ident, server, $cur:expr) => {{
        match wow_world_messages::$exp::expect_server_message::<wow_world_messages::$exp::SMSG_PONG, _>(&mut $cur) {
            Ok(_) => Err("err unexpected-ok".to_string()),
            Err(e) => Err(err_kind(&e)),
        }
    }};
    ($exp:ident, client, $cur:expr) => {{
        match wow_world_messages::$exp::expect_client_message::<wow_world_messages::$exp::CMSG_PING, _>(&mut $cur) {
            Ok(_) => Err("err unexpected-ok".to_string()),
            Err(e) => Err(err_kind(&e)),
        }
    }};
}

pub fn read_frame(exp: &str, dir: &str, api: &str, cur: &mut Cursor<&[u8]>) -> Result<(u32, Vec<u8>), String> {
    match (exp, dir, api) {
        ("vanilla", "server", "expectother") => read_expect_other!(vanilla, server, *cur),
        ("tbc", "server", "expectother") => read_expect_other!(tbc, server, *cur),
        ("wrath", "server", "expectother") => read_expect_other!(wrath, server, *cur),
        ("vanilla", "client", "expectother") => read_expect_other!(vanilla, client, *cur),
        ("tbc", "client", "expectother") => read_expect_other!(tbc, client, *cur),
        ("wrath", "client", "expectother") => read_expect_other!(wrath, client, *cur),
        ("vanilla", "server", "enum") => read_enum!(vanilla, server, *cur),
        ("tbc", "server", "enum") => read_enum!(tbc, server, *cur),
        ("wrath", "server", "enum") => read_enum!(wrath, server, *cur),
        ("vanilla", "client", "enum") => read_enum!(vanilla, client, *cur),
        ("tbc", "client", "enum") => read_enum!(tbc, client, *cur),
        ("wrath", "client", "enum") => read_enum!(wrath, client, *cur),
        ("vanilla", "server", "expect") => read_expect!(vanilla, server, *cur),
        ("tbc", "server", "expect") => read_expect!(tbc, server, *cur),
        ("wrath", "server", "expect") => read_expect!(wrath, server, *cur),
        ("vanilla", "client", "expect") => read_expect!(vanilla, client, *cur),
        ("tbc", "client", "expect") => read_expect!(tbc, client, *cur),
        ("wrath", "client", "expect") => read_expect!(wrath, client, *cur),
        _ => Err("bad-op".into()),
    }
}

/// `rframe <exp> <dir> <api> <hdr-hex> <len> <fill> <extra>`: stream = hdr ++ body(len, fill) ++ extra trailing bytes.
/// -> `ok op=<opcode> bodylen=<n> bodyok=<0|1> consumed=<n>` | `err <kind> consumed=<n>`
pub fn rframe(exp: &str, dir: &str, api: &str, hdr: &str, len: usize, fill: u8, extra: usize) -> String {
    let Some(mut stream) = crate::unhex(hdr) else { return "bad-op".into() };
    let b = body(len, fill);
    stream.extend_from_slice(&b);
    stream.extend(std::iter::repeat(0xEE).take(extra));
    let mut cur = Cursor::new(stream.as_slice());
    let r = read_frame(exp, dir, api, &mut cur);
    let consumed = cur.position();
    match r {
        Ok((op, got)) => format!("ok op={op} bodylen={} bodyok={} consumed={consumed}", got.len(), (got == b) as u8),
        Err(e) => format!("{e} consumed={consumed}"),
    }
}

/// `seq <exp> <dir> <api> <len,len,...>`: write all messages to one buffer, read them back one after the other.
/// -> `ok <len>@<pos> ...` (position after each message) or the first failure
pub fn seq(exp: &str, dir: &str, api: &str, lens: &str) -> String {
    let lens: Vec<usize> = lens.split(',').filter_map(|x| x.parse().ok()).collect();
    let mut stream = Vec::new();
    for (i, l) in lens.iter().enumerate() {
        match write_frame(exp, dir, body(*l, i as u8)) {
            Ok(v) => stream.extend_from_slice(&v),
            Err(e) => return format!("write-failed {i} {e}"),
        }
    }
    let mut cur = Cursor::new(stream.as_slice());
    let mut out = String::from("ok");
    for (i, l) in lens.iter().enumerate() {
        if api == "expectother" && i % 2 == 1 {
            // every second message is asked for as another type: the opcode error must leave the stream at the next message
            match read_frame(exp, dir, "expectother", &mut cur) {
                Err(e) if e.starts_with("err opcode") => { out.push_str(&format!(" skip@{}", cur.position())); continue; }
                Err(e) => return format!("{out} then {e} at {}", cur.position()),
                Ok(_) => return format!("{out} then unexpected-ok at {}", cur.position()),
            }
        }
        match read_frame(exp, dir, if api == "expectother" { "expect" } else { api }, &mut cur) {
            Ok((_, got)) => {
                let good = got == body(*l, i as u8);
                out.push_str(&format!(" {}{}@{}", got.len(), if good { "" } else { "!" }, cur.position()));
            }
            Err(e) => return format!("{out} then {e} at {}", cur.position()),
        }
    }
    out.push_str(&format!(" end={}", stream.len()));
    out
}
