//! C06: the blocking, tokio and async-std readers/writers under a scripted transport.
//! `chunk <lib> <dir> <schedule>`; schedule = comma separated steps, `p` = the reader answers Pending once,
//! `<hex>` = the reader delivers these bytes (possibly over several polls if the caller's buffer is smaller).
//! After the last step the transport is at end-of-stream.  The blocking reference reads the concatenation from a Cursor.
use std::collections::VecDeque;
use std::future::Future;
use std::pin::Pin;
use std::sync::Arc;
use std::task::{Context, Poll, Wake, Waker};

#[derive(Clone, Debug)]
pub enum Step {
    Pending,
    Chunk(Vec<u8>),
}

pub fn parse_schedule(s: &str) -> Option<Vec<Step>> {
    if s == "-" {
        return Some(vec![]);
    }
    s.split(',').map(|t| if t == "p" { Some(Step::Pending) } else { crate::unhex(t).filter(|b| !b.is_empty()).map(Step::Chunk) }).collect()
}

pub fn flatten(s: &[Step]) -> Vec<u8> {
    s.iter().flat_map(|x| match x { Step::Chunk(b) => b.clone(), Step::Pending => vec![] }).collect()
}

pub struct ScriptReader {
    steps: VecDeque<Step>,
    off: usize,
    pub delivered: usize,
    pub polls: usize,
}

impl ScriptReader {
    pub fn new(s: &[Step]) -> Self {
        Self { steps: s.iter().cloned().collect(), off: 0, delivered: 0, polls: 0 }
    }
    /// common part: Err(()) = Pending, Ok(n) = n bytes copied into `dst` (0 = end of stream or empty dst)
    fn step(&mut self, dst: &mut [u8], cx: &mut Context<'_>) -> Result<usize, ()> {
        self.polls += 1;
        match self.steps.front() {
            None => Ok(0),
            Some(Step::Pending) => {
                self.steps.pop_front();
                cx.waker().wake_by_ref();
                Err(())
            }
            Some(Step::Chunk(b)) => {
                let k = (b.len() - self.off).min(dst.len());
                dst[..k].copy_from_slice(&b[self.off..self.off + k]);
                self.off += k;
                self.delivered += k;
                if self.off == b.len() {
                    self.steps.pop_front();
                    self.off = 0;
                }
                Ok(k)
            }
        }
    }
}

impl tokio::io::AsyncRead for ScriptReader {
    fn poll_read(mut self: Pin<&mut Self>, cx: &mut Context<'_>, buf: &mut tokio::io::ReadBuf<'_>) -> Poll<std::io::Result<()>> {
        let mut tmp = vec![0u8; buf.remaining()];
        match self.step(&mut tmp, cx) {
            Err(()) => Poll::Pending,
            Ok(k) => {
                buf.put_slice(&tmp[..k]);
                Poll::Ready(Ok(()))
            }
        }
    }
}

impl async_std::io::Read for ScriptReader {
    fn poll_read(mut self: Pin<&mut Self>, cx: &mut Context<'_>, buf: &mut [u8]) -> Poll<std::io::Result<usize>> {
        match self.step(buf, cx) {
            Err(()) => Poll::Pending,
            Ok(k) => Poll::Ready(Ok(k)),
        }
    }
}

/// Writer that accepts bytes according to the same kind of schedule (chunk length = how many bytes one poll_write takes);
/// after the schedule it accepts everything.
pub struct ScriptWriter {
    steps: VecDeque<Step>,
    off: usize,
    pub out: Vec<u8>,
}

impl ScriptWriter {
    pub fn new(s: &[Step]) -> Self {
        Self { steps: s.iter().cloned().collect(), off: 0, out: Vec::new() }
    }
    fn step(&mut self, src: &[u8], cx: &mut Context<'_>) -> Result<usize, ()> {
        match self.steps.front() {
            None => {
                self.out.extend_from_slice(src);
                Ok(src.len())
            }
            Some(Step::Pending) => {
                self.steps.pop_front();
                cx.waker().wake_by_ref();
                Err(())
            }
            Some(Step::Chunk(b)) => {
                let k = (b.len() - self.off).min(src.len());
                self.out.extend_from_slice(&src[..k]);
                self.off += k;
                if self.off == b.len() {
                    self.steps.pop_front();
                    self.off = 0;
                }
                Ok(k)
            }
        }
    }
}

impl tokio::io::AsyncWrite for ScriptWriter {
    fn poll_write(mut self: Pin<&mut Self>, cx: &mut Context<'_>, buf: &[u8]) -> Poll<std::io::Result<usize>> {
        match self.step(buf, cx) { Err(()) => Poll::Pending, Ok(k) => Poll::Ready(Ok(k)) }
    }
    fn poll_flush(self: Pin<&mut Self>, _: &mut Context<'_>) -> Poll<std::io::Result<()>> { Poll::Ready(Ok(())) }
    fn poll_shutdown(self: Pin<&mut Self>, _: &mut Context<'_>) -> Poll<std::io::Result<()>> { Poll::Ready(Ok(())) }
}

impl async_std::io::Write for ScriptWriter {
    fn poll_write(mut self: Pin<&mut Self>, cx: &mut Context<'_>, buf: &[u8]) -> Poll<std::io::Result<usize>> {
        match self.step(buf, cx) { Err(()) => Poll::Pending, Ok(k) => Poll::Ready(Ok(k)) }
    }
    fn poll_flush(self: Pin<&mut Self>, _: &mut Context<'_>) -> Poll<std::io::Result<()>> { Poll::Ready(Ok(())) }
    fn poll_close(self: Pin<&mut Self>, _: &mut Context<'_>) -> Poll<std::io::Result<()>> { Poll::Ready(Ok(())) }
}

struct Noop;
impl Wake for Noop {
    fn wake(self: Arc<Self>) {}
}

/// minimal single-threaded executor: polls until Ready; `None` when the future is still pending after `max` polls
pub fn block_on<F: Future>(f: F, max: usize) -> Option<F::Output> {
    let waker = Waker::from(Arc::new(Noop));
    let mut cx = Context::from_waker(&waker);
    let mut f = Box::pin(f);
    for _ in 0..max {
        if let Poll::Ready(x) = f.as_mut().poll(&mut cx) {
            return Some(x);
        }
    }
    None
}

pub fn fnv(b: &[u8]) -> u64 {
    let mut h = 0xcbf29ce484222325u64;
    for x in b {
        h ^= *x as u64;
        h = h.wrapping_mul(0x100000001b3);
    }
    h
}

pub fn kind_of(dbg: &str, opcode: Option<String>) -> String {
    if let Some(o) = opcode {
        return format!("err_opcode_{o}");
    }
    crate::codec::parse_kind_pub(dbg).replace(' ', "_")
}

/// consumed-byte count for every outcome except end-of-stream (where a Cursor's position is unspecified)
pub fn with_n(k: String, n: usize) -> String {
    if k == "err_eof" { k } else { format!("{k}:n={n}") }
}

macro_rules! world_chunk {
    ($exp:ident, $dir:expr, $steps:expr) => {{
        use wow_world_messages::errors::ExpectedOpcodeError as E;
        let steps: &[Step] = $steps;
        let whole = flatten(steps);
        let budget = 4 * (steps.len() + whole.len()) + 64;
        macro_rules! one {
            ($en:ident, $wsync:ident, $wtokio:ident, $wastd:ident) => {{
                let fmt_err = |e: &E| match e { E::Opcode { opcode, .. } => kind_of("", Some(format!("{opcode}"))), e => kind_of(&format!("{e:?}"), None) };
                // blocking reference on the whole buffer
                let mut cur = std::io::Cursor::new(whole.as_slice());
                let s = match wow_world_messages::$exp::opcodes::$en::read_unencrypted(&mut cur) {
                    Ok(m) => { let mut w = Vec::new(); match std::panic::catch_unwind(std::panic::AssertUnwindSafe(|| m.$wsync(&mut w))).unwrap_or_else(|_| Err(std::io::Error::new(std::io::ErrorKind::Other, "writer panicked"))) { Ok(()) => format!("ok:dbg={:016x}:w={:016x}:n={}", fnv(format!("{m:?}").as_bytes()), fnv(&w), cur.position()), Err(e) => format!("werr:{e}") } }
                    Err(e) => with_n(fmt_err(&e), cur.position() as usize),
                };
                let mut r = ScriptReader::new(steps);
                let t = match block_on(wow_world_messages::$exp::opcodes::$en::tokio_read_unencrypted(&mut r), budget) {
                    None => "hang".to_string(),
                    Some(Ok(m)) => { let mut w = ScriptWriter::new(steps); match std::panic::catch_unwind(std::panic::AssertUnwindSafe(|| block_on(m.$wtokio(&mut w), budget))).unwrap_or_else(|_| Some(Err(std::io::Error::new(std::io::ErrorKind::Other, "writer panicked")))) { Some(Ok(())) => format!("ok:dbg={:016x}:w={:016x}:n={}", fnv(format!("{m:?}").as_bytes()), fnv(&w.out), r.delivered), Some(Err(e)) => format!("werr:{e}"), None => "whang".into() } }
                    Some(Err(e)) => with_n(fmt_err(&e), r.delivered),
                };
                let mut r = ScriptReader::new(steps);
                let a = match block_on(wow_world_messages::$exp::opcodes::$en::astd_read_unencrypted(&mut r), budget) {
                    None => "hang".to_string(),
                    Some(Ok(m)) => { let mut w = ScriptWriter::new(steps); match std::panic::catch_unwind(std::panic::AssertUnwindSafe(|| block_on(m.$wastd(&mut w), budget))).unwrap_or_else(|_| Some(Err(std::io::Error::new(std::io::ErrorKind::Other, "writer panicked")))) { Some(Ok(())) => format!("ok:dbg={:016x}:w={:016x}:n={}", fnv(format!("{m:?}").as_bytes()), fnv(&w.out), r.delivered), Some(Err(e)) => format!("werr:{e}"), None => "whang".into() } }
                    Some(Err(e)) => with_n(fmt_err(&e), r.delivered),
                };
                (s, t, a)
            }};
        }
        if $dir == "client" {
            one!(ClientOpcodeMessage, write_unencrypted_client, tokio_write_unencrypted_client, astd_write_unencrypted_client)
        } else {
            one!(ServerOpcodeMessage, write_unencrypted_server, tokio_write_unencrypted_server, astd_write_unencrypted_server)
        }
    }};
}

pub fn verdict(s: String, t: String, a: String) -> String {
    if s == t && s == a {
        format!("agree {s}")
    } else {
        format!("differ sync=[{s}] tokio=[{t}] astd=[{a}]")
    }
}

/// `chunk <lib> <dir> <schedule>`
pub fn chunk(lib: &str, dir: &str, sched: &str) -> String {
    let Some(steps) = parse_schedule(sched) else { return "bad-op".into() };
    let (s, t, a) = match lib {
        "vanilla" => world_chunk!(vanilla, dir, &steps),
        "tbc" => world_chunk!(tbc, dir, &steps),
        "wrath" => world_chunk!(wrath, dir, &steps),
        l if l.starts_with("login") => {
            let v: u32 = l[5..].parse().unwrap_or(0);
            match crate::gen_login_async::login_chunk(v, dir, &steps) {
                Some(x) => x,
                None => return "bad-op".into(),
            }
        }
        _ => return "bad-op".into(),
    };
    verdict(s, t, a)
}
