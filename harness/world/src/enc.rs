//! C05: encrypted write -> decrypting read over whole message sequences; comparison with the plain stream.
use std::io::Cursor;
use wow_srp::normalized_string::NormalizedString;

use crate::frame::body;

fn key(hexkey: &str) -> Option<[u8; 40]> {
    let v = crate::unhex(hexkey)?;
    v.try_into().ok()
}

macro_rules! vt_pair {
    ($hdr:ident, $key:expr) => {{
        let username = NormalizedString::new("A").unwrap();
        let server_seed = wow_srp::$hdr::ProofSeed::new();
        let client_seed = wow_srp::$hdr::ProofSeed::new();
        let cs = client_seed.seed();
        let (proof, client) = client_seed.into_client_header_crypto(&username, $key, server_seed.seed());
        let server = server_seed.into_server_header_crypto(&username, $key, proof, cs).unwrap();
        (client, server)
    }};
}

/// messages: list of (kind, len): kind 'w' = *_WARDEN_DATA with `len` bytes, 'p' = small fixed message (SMSG_PONG / CMSG_PING)
fn parse_msgs(s: &str) -> Vec<(char, usize)> {
    s.split(',').filter_map(|x| { let k = x.chars().next()?; Some((k, x[1..].parse().ok()?)) }).collect()
}

macro_rules! errk {
    ($x:expr) => { format!("err {}", format!("{:?}", $x).split(|c: char| !c.is_alphanumeric()).next().unwrap_or("?")) };
}

macro_rules! finish_seq {
    ($msgs:expr, $cipher:expr, $plain:expr, $hdr_positions:expr, $read:expr) => {{
        let mut hdronly = $cipher.len() == $plain.len();
        if hdronly {
            for (i, (a, b)) in $cipher.iter().zip($plain.iter()).enumerate() {
                if a != b && !$hdr_positions.iter().any(|(s, e): &(usize, usize)| i >= *s && i < *e) {
                    hdronly = false;
                    break;
                }
            }
        }
        let mut cur = Cursor::new($cipher.as_slice());
        let mut out = format!("ok hdronly={}", hdronly as u8);
        let mut failed = None;
        for (i, (k, l)) in $msgs.iter().enumerate() {
            let r: Result<(usize, bool), String> = $read(&mut cur, i, *k, *l);
            match r {
                Ok((n, good)) => out.push_str(&format!(" {}{}@{}", n, if good { "" } else { "!" }, cur.position())),
                Err(x) => { failed = Some(format!("{out} then {x} at {}", cur.position())); break; }
            }
        }
        match failed {
            Some(f) => f,
            None => { out.push_str(&format!(" end={}", $cipher.len())); out }
        }
    }};
}

macro_rules! run_server {
    ($exp:ident, $api:expr, $msgs:expr, $enc:expr, $dec:expr) => {{
        use wow_world_messages::$exp as e;
        let mut cipher = Vec::new();
        let mut plain = Vec::new();
        let mut hdr_positions = Vec::new();
        let mut werr = None;
        for (i, (k, l)) in $msgs.iter().enumerate() {
            let before = cipher.len();
            let r = if *k == 'w' {
                let m = e::SMSG_WARDEN_DATA { encrypted_data: body(*l, i as u8) };
                e::ServerMessage::write_encrypted_server(&m, &mut cipher, $enc).and_then(|_| e::ServerMessage::write_unencrypted_server(&m, &mut plain))
            } else {
                let m = e::SMSG_PONG { sequence_id: *l as u32 };
                e::ServerMessage::write_encrypted_server(&m, &mut cipher, $enc).and_then(|_| e::ServerMessage::write_unencrypted_server(&m, &mut plain))
            };
            if let Err(x) = r { werr = Some(format!("write-failed {i} {x}")); break; }
            let blen = if *k == 'w' { *l } else { 4 };
            hdr_positions.push((before, before + (cipher.len() - before).saturating_sub(blen)));
        }
        match werr {
            Some(w) => w,
            None => finish_seq!($msgs, cipher, plain, hdr_positions, |cur: &mut Cursor<&[u8]>, i: usize, k: char, l: usize| -> Result<(usize, bool), String> {
                if $api == "expectother" && i % 2 == 1 {
                    // asked for as ANOTHER type: opcode error, exactly the announced bytes consumed, cipher still in step
                    let r = if k == 'w' { e::expect_server_message_encryption::<e::SMSG_PONG, _>(&mut *cur, $dec).map(|_| ()) }
                            else { e::expect_server_message_encryption::<e::SMSG_WARDEN_DATA, _>(&mut *cur, $dec).map(|_| ()) };
                    return match r {
                        Err(wow_world_messages::errors::ExpectedOpcodeError::Opcode { .. }) => Ok((if k == 'w' { l } else { 4 }, true)),
                        Err(x) => Err(errk!(x)),
                        Ok(()) => Err("err unexpected-ok".to_string()),
                    };
                }
                if $api == "enum" {
                    match e::opcodes::ServerOpcodeMessage::read_encrypted(&mut *cur, $dec) {
                        Ok(e::opcodes::ServerOpcodeMessage::SMSG_WARDEN_DATA(m)) => Ok((m.encrypted_data.len(), k == 'w' && m.encrypted_data == body(l, i as u8))),
                        Ok(e::opcodes::ServerOpcodeMessage::SMSG_PONG(m)) => Ok((4, k == 'p' && m.sequence_id == l as u32)),
                        Ok(o) => Err(format!("err other-message {o}")),
                        Err(x) => Err(errk!(x)),
                    }
                } else if k == 'w' {
                    match e::expect_server_message_encryption::<e::SMSG_WARDEN_DATA, _>(&mut *cur, $dec) {
                        Ok(m) => Ok((m.encrypted_data.len(), m.encrypted_data == body(l, i as u8))),
                        Err(x) => Err(errk!(x)),
                    }
                } else {
                    match e::expect_server_message_encryption::<e::SMSG_PONG, _>(&mut *cur, $dec) {
                        Ok(m) => Ok((4, m.sequence_id == l as u32)),
                        Err(x) => Err(errk!(x)),
                    }
                }
            }),
        }
    }};
}

macro_rules! run_client {
    ($exp:ident, $api:expr, $msgs:expr, $enc:expr, $dec:expr) => {{
        use wow_world_messages::$exp as e;
        let mut cipher = Vec::new();
        let mut plain = Vec::new();
        let mut hdr_positions = Vec::new();
        let mut werr = None;
        for (i, (_k, l)) in $msgs.iter().enumerate() {
            let before = cipher.len();
            let m = e::CMSG_WARDEN_DATA { encrypted_data: body(*l, i as u8) };
            let r = e::ClientMessage::write_encrypted_client(&m, &mut cipher, $enc).and_then(|_| e::ClientMessage::write_unencrypted_client(&m, &mut plain));
            if let Err(x) = r { werr = Some(format!("write-failed {i} {x}")); break; }
            hdr_positions.push((before, before + (cipher.len() - before).saturating_sub(*l)));
        }
        match werr {
            Some(w) => w,
            None => finish_seq!($msgs, cipher, plain, hdr_positions, |cur: &mut Cursor<&[u8]>, i: usize, _k: char, l: usize| -> Result<(usize, bool), String> {
                if $api == "expectother" && i % 2 == 1 {
                    return match e::expect_client_message_encryption::<e::CMSG_PING, _>(&mut *cur, $dec).map(|_| ()) {
                        Err(wow_world_messages::errors::ExpectedOpcodeError::Opcode { .. }) => Ok((l, true)),
                        Err(x) => Err(errk!(x)),
                        Ok(()) => Err("err unexpected-ok".to_string()),
                    };
                }
                if $api == "enum" {
                    match e::opcodes::ClientOpcodeMessage::read_encrypted(&mut *cur, $dec) {
                        Ok(e::opcodes::ClientOpcodeMessage::CMSG_WARDEN_DATA(m)) => Ok((m.encrypted_data.len(), m.encrypted_data == body(l, i as u8))),
                        Ok(o) => Err(format!("err other-message {o}")),
                        Err(x) => Err(errk!(x)),
                    }
                } else {
                    match e::expect_client_message_encryption::<e::CMSG_WARDEN_DATA, _>(&mut *cur, $dec) {
                        Ok(m) => Ok((m.encrypted_data.len(), m.encrypted_data == body(l, i as u8))),
                        Err(x) => Err(errk!(x)),
                    }
                }
            }),
        }
    }};
}

/// `eseq <exp> <dir> <api> <key40hex> <w<len>|p<n>,...>`
pub fn eseq(exp: &str, dir: &str, api: &str, hexkey: &str, msgs: &str) -> String {
    let Some(k) = key(hexkey) else { return "bad-op".into() };
    let msgs = parse_msgs(msgs);
    match (exp, dir) {
        ("vanilla", "server") => { let (client, server) = vt_pair!(vanilla_header, k); let (_ce, mut cd) = client.split(); let (mut se, _sd) = server.split(); run_server!(vanilla, api, msgs, &mut se, &mut cd) }
        ("vanilla", "client") => { let (client, server) = vt_pair!(vanilla_header, k); let (mut ce, _cd) = client.split(); let (_se, mut sd) = server.split(); run_client!(vanilla, api, msgs, &mut ce, &mut sd) }
        ("tbc", "server") => { let (client, server) = vt_pair!(tbc_header, k); let (_ce, mut cd) = client.split(); let (mut se, _sd) = server.split(); run_server!(tbc, api, msgs, &mut se, &mut cd) }
        ("tbc", "client") => { let (client, server) = vt_pair!(tbc_header, k); let (mut ce, _cd) = client.split(); let (_se, mut sd) = server.split(); run_client!(tbc, api, msgs, &mut ce, &mut sd) }
        ("wrath", "server") => { let (client, server) = vt_pair!(wrath_header, k); let (_ce, mut cd) = client.split(); let (mut se, _sd) = server.split(); run_server!(wrath, api, msgs, &mut se, &mut cd) }
        ("wrath", "client") => { let (client, server) = vt_pair!(wrath_header, k); let (mut ce, _cd) = client.split(); let (_se, mut sd) = server.split(); run_client!(wrath, api, msgs, &mut ce, &mut sd) }
        _ => "bad-op".into(),
    }
}

/// `eseqf <exp> <dir> <key40hex> <hexframe,hexframe,...>`: ANY messages.  Each plain frame is read with the plain opcode reader, the
/// value is written with the encrypted writer (which dispatches to the message's own, possibly overridden, writer) and with the plain
/// writer; the cipher stream is then read with the decrypting reader and every message re-written plain.
/// Reply: `ok hdronly=<0|1> plain=<len,len,..> <bodylen>[!]@<pos> ... end=<cipher len>` (`!` = decrypted message differs from the plain one).
macro_rules! run_frames {
    ($exp:ident, $opc:ident, $wenc:ident, $wplain:ident, $opsize:expr, $frames:expr, $enc:expr, $dec:expr) => {{
        use wow_world_messages::$exp as e;
        let mut cipher = Vec::new();
        let mut plain = Vec::new();
        let mut chunks: Vec<(usize, usize, usize)> = Vec::new();     // (start, header end, end) in the plain stream
        let mut werr = None;
        for (i, f) in $frames.iter().enumerate() {
            let m = match e::opcodes::$opc::read_unencrypted(&mut Cursor::new(f.as_slice())) {
                Ok(m) => m,
                Err(x) => { werr = Some(format!("unreadable {i} {}", errk!(x))); break; }
            };
            let start = plain.len();
            // the plain writer first: a message its own plain writer refuses (size assertion) is not this property's subject
            let mut pl = Vec::new();
            match std::panic::catch_unwind(std::panic::AssertUnwindSafe(|| m.$wplain(&mut pl))) {
                Ok(Ok(())) => {}
                Ok(Err(x)) => { werr = Some(format!("plain-write-failed {i} {x}")); break; }
                Err(_) => { werr = Some(format!("plain-write-panic {i}")); break; }
            }
            plain.extend_from_slice(&pl);
            match std::panic::catch_unwind(std::panic::AssertUnwindSafe(|| m.$wenc(&mut cipher, $enc))) {
                Ok(Ok(())) => {}
                Ok(Err(x)) => { werr = Some(format!("write-failed {i} {x}")); break; }
                Err(_) => { werr = Some(format!("encrypted-write-panic {i}")); break; }
            }
            let ch = &plain[start..];
            // the plain header announces the size of opcode + body
            let (szlen, size) = if ch.len() >= 3 && stringify!($exp) == "wrath" && $opsize == 2 && ch[0] & 0x80 != 0 {
                (3, (((ch[0] & 0x7F) as usize) << 16) | ((ch[1] as usize) << 8) | ch[2] as usize)
            } else if ch.len() >= 2 { (2, ((ch[0] as usize) << 8) | ch[1] as usize) } else { (0, 0) };
            let hdr = szlen + $opsize;
            if size + szlen != ch.len() { werr = Some(format!("plain-size-field {i} announces {size} chunk {}", ch.len())); break; }
            chunks.push((start, start + hdr, plain.len()));
        }
        match werr {
            Some(w) => w,
            None => {
                let mut hdronly = cipher.len() == plain.len();
                if hdronly {
                    for (i, (a, b)) in cipher.iter().zip(plain.iter()).enumerate() {
                        if a != b && !chunks.iter().any(|(s, h, _)| i >= *s && i < *h) { hdronly = false; break; }
                    }
                }
                let mut out = format!("ok hdronly={} plain={}", hdronly as u8, chunks.iter().map(|(s, _, e)| (e - s).to_string()).collect::<Vec<_>>().join(","));
                let mut cur = Cursor::new(cipher.as_slice());
                let mut failed = None;
                for (i, (s, h, en)) in chunks.iter().enumerate() {
                    match e::opcodes::$opc::read_encrypted(&mut cur, $dec) {
                        Ok(m2) => {
                            let mut w2 = Vec::new();
                            let good = m2.$wplain(&mut w2).is_ok() && w2.as_slice() == &plain[*s..*en];
                            out.push_str(&format!(" {}{}@{}", en - h, if good { "" } else { "!" }, cur.position()));
                        }
                        Err(x) => { failed = Some(format!("{out} then {} at {} (message {i})", errk!(x), cur.position())); break; }
                    }
                }
                match failed { Some(f) => f, None => { out.push_str(&format!(" end={}", cipher.len())); out } }
            }
        }
    }};
}

pub fn eseqf(exp: &str, dir: &str, hexkey: &str, frames: &str) -> String {
    let Some(k) = key(hexkey) else { return "bad-op".into() };
    let mut fs = Vec::new();
    for h in frames.split(',') { match crate::unhex(h) { Some(b) => fs.push(b), None => return "bad-op".into() } }
    match (exp, dir) {
        ("vanilla", "server") => { let (client, server) = vt_pair!(vanilla_header, k); let (_ce, mut cd) = client.split(); let (mut se, _sd) = server.split(); run_frames!(vanilla, ServerOpcodeMessage, write_encrypted_server, write_unencrypted_server, 2, fs, &mut se, &mut cd) }
        ("vanilla", "client") => { let (client, server) = vt_pair!(vanilla_header, k); let (mut ce, _cd) = client.split(); let (_se, mut sd) = server.split(); run_frames!(vanilla, ClientOpcodeMessage, write_encrypted_client, write_unencrypted_client, 4, fs, &mut ce, &mut sd) }
        ("tbc", "server") => { let (client, server) = vt_pair!(tbc_header, k); let (_ce, mut cd) = client.split(); let (mut se, _sd) = server.split(); run_frames!(tbc, ServerOpcodeMessage, write_encrypted_server, write_unencrypted_server, 2, fs, &mut se, &mut cd) }
        ("tbc", "client") => { let (client, server) = vt_pair!(tbc_header, k); let (mut ce, _cd) = client.split(); let (_se, mut sd) = server.split(); run_frames!(tbc, ClientOpcodeMessage, write_encrypted_client, write_unencrypted_client, 4, fs, &mut ce, &mut sd) }
        ("wrath", "server") => { let (client, server) = vt_pair!(wrath_header, k); let (_ce, mut cd) = client.split(); let (mut se, _sd) = server.split(); run_frames!(wrath, ServerOpcodeMessage, write_encrypted_server, write_unencrypted_server, 2, fs, &mut se, &mut cd) }
        ("wrath", "client") => { let (client, server) = vt_pair!(wrath_header, k); let (mut ce, _cd) = client.split(); let (_se, mut sd) = server.split(); run_frames!(wrath, ClientOpcodeMessage, write_encrypted_client, write_unencrypted_client, 4, fs, &mut ce, &mut sd) }
        _ => "bad-op".into(),
    }
}

/// `cipherlaw <exp> <key40hex> <hexbytes>`: the assumption behind C05 — decrypting (peer half) what was encrypted returns
/// the bytes, for both directions, byte by byte and in chunks.
pub fn cipherlaw(exp: &str, hexkey: &str, hexdata: &str) -> String {
    let Some(k) = key(hexkey) else { return "bad-op".into() };
    let Some(data) = crate::unhex(hexdata) else { return "bad-op".into() };
    macro_rules! law {
        ($hdr:ident) => {{
            let (client, server) = vt_pair!($hdr, k);
            let (mut ce, mut cd) = client.split();
            let (mut se, mut sd) = server.split();
            let mut a = data.clone();
            // server -> client, one byte at a time on the encrypting side, chunks of 3 on the decrypting side
            for b in a.iter_mut() { let mut one = [*b]; se.encrypt(&mut one); *b = one[0]; }
            for ch in a.chunks_mut(3) { cd.decrypt(ch); }
            let mut c = data.clone();
            for ch in c.chunks_mut(5) { ce.encrypt(ch); }
            for b in c.iter_mut() { let mut one = [*b]; sd.decrypt(&mut one); *b = one[0]; }
            format!("s2c={} c2s={}", (a == data) as u8, (c == data) as u8)
        }};
    }
    match exp {
        "vanilla" => law!(vanilla_header),
        "tbc" => law!(tbc_header),
        "wrath" => law!(wrath_header),
        _ => "bad-op".into(),
    }
}


/// `ebig wrath <key40hex> <n>`: a Wrath server message whose body exceeds what a 16-bit size field can describe (SMSG_SEND_UNLEARN_SPELLS with
/// `n` spells, body 4 + 4n) between two small ones, written encrypted and read back with the typed `expect_server_message_encryption` helper.
/// Reply like `eseq`: `ok hdronly=<0|1> <bodylen>[!]@<pos> ... end=<len>`.
#[cfg(feature = "wrath")]
pub fn ebig(hexkey: &str, n: usize) -> String {
    use wow_world_messages::wrath as e;
    let Some(k) = key(hexkey) else { return "bad-op".into() };
    let (client, server) = vt_pair!(wrath_header, k);
    let (_ce, mut cd) = client.split();
    let (mut se, _sd) = server.split();
    let big = e::SMSG_SEND_UNLEARN_SPELLS { spells: (0..n as u32).collect() };
    let p1 = e::SMSG_PONG { sequence_id: 1 };
    let p2 = e::SMSG_PONG { sequence_id: 0xDEADBEEF };
    let mut cipher = Vec::new();
    let mut plain = Vec::new();
    let mut hdr_positions: Vec<(usize, usize)> = Vec::new();
    macro_rules! put {
        ($m:expr, $blen:expr) => {{
            let before = cipher.len();
            if let Err(x) = e::ServerMessage::write_encrypted_server(&$m, &mut cipher, &mut se).and_then(|_| e::ServerMessage::write_unencrypted_server(&$m, &mut plain)) {
                return format!("write-failed {x}");
            }
            hdr_positions.push((before, before + (cipher.len() - before).saturating_sub($blen)));
        }};
    }
    put!(p1, 4);
    put!(big, 4 + 4 * n);
    put!(p2, 4);
    let mut hdronly = cipher.len() == plain.len();
    if hdronly {
        for (i, (a, b)) in cipher.iter().zip(plain.iter()).enumerate() {
            if a != b && !hdr_positions.iter().any(|(s, t)| i >= *s && i < *t) { hdronly = false; break; }
        }
    }
    let mut cur = Cursor::new(cipher.as_slice());
    let mut out = format!("ok hdronly={}", hdronly as u8);
    match e::expect_server_message_encryption::<e::SMSG_PONG, _>(&mut cur, &mut cd) {
        Ok(m) => out.push_str(&format!(" 4{}@{}", if m.sequence_id == 1 { "" } else { "!" }, cur.position())),
        Err(x) => return format!("{out} then {} at {}", errk!(x), cur.position()),
    }
    match e::expect_server_message_encryption::<e::SMSG_SEND_UNLEARN_SPELLS, _>(&mut cur, &mut cd) {
        Ok(m) => out.push_str(&format!(" {}{}@{}", 4 + 4 * m.spells.len(), if m == big { "" } else { "!" }, cur.position())),
        Err(x) => return format!("{out} then {} at {}", errk!(x), cur.position()),
    }
    match e::expect_server_message_encryption::<e::SMSG_PONG, _>(&mut cur, &mut cd) {
        Ok(m) => out.push_str(&format!(" 4{}@{}", if m.sequence_id == 0xDEADBEEF { "" } else { "!" }, cur.position())),
        Err(x) => return format!("{out} then {} at {}", errk!(x), cur.position()),
    }
    out.push_str(&format!(" end={}", cipher.len()));
    out
}
