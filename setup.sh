#!/bin/sh
# Run once after a fresh restore, offline: builds the Lean project and primes the cargo caches.
set -e
cd "$(dirname "$0")"
export CARGO_NET_OFFLINE=true
mkdir -p .cache evidence/replay
(cd lean && lake build 2>&1 | tail -5)
for h in harness/*/; do
  n=$(basename "$h")
  [ -f "$h/Cargo.lock" ] || cp /repo/Cargo.lock "$h/Cargo.lock"
  (cd "$h" && CARGO_TARGET_DIR=/verif/.cache/target-$n cargo build --offline 2>&1 | tail -3)
done
# prime the generator build cache (the scratch copy is removed again)
python3 - <<'PY'
import sys
sys.path.insert(0, "/verif/lib")
from genrun import *
with GenScratch() as g:
    rc, out, t = g.build()
    print("generator build", rc, t)
PY
echo setup done
