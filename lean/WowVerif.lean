import WowVerif.Model.DateTime
import WowVerif.Thm.C15
