import WowVerif.Driver
open WowVerif.Driver

partial def loop (hin : IO.FS.Stream) (hout : IO.FS.Stream) (st : DState) : IO Unit := do
  let line ← hin.getLine
  if line.isEmpty then return ()
  let ws := (line.trimAscii.toString.splitOn " ").filter (· ≠ "")
  match ws with
  | ["load", path] =>
    let txt ← IO.FS.readFile path
    let st' := (txt.splitOn "\n").foldl loadLine st
    hout.putStrLn s!"loaded {st'.corpus.size + st'.wsprogs.size}"
    hout.flush
    loop hin hout st'
  | _ =>
    match semHandle st ws with
    | some r => hout.putStrLn r
    | none => hout.putStrLn (handle ws)
    hout.flush
    loop hin hout st

def main : IO Unit := do
  let hin ← IO.getStdin
  let hout ← IO.getStdout
  loop hin hout {}
  hout.flush
