/-
Model of generated flag types (wow_message_parser/src/rust_printer/flags.rs and the flag structs synthesised by
print_new_types.rs).  A method body of the generated Rust is translated (tools/rust_flags.py) into a `BitExpr` over the
receiver's `inner`, the operand `rhs`/argument `arg` and integer constants; `itemOk` decides whether the body is
equivalent — for every raw value — to what the property demands of that method.  The decision procedure is bitwise
(two bit-level evaluations per bit position), and is proved sound in `Thm/C12.lean`.
-/
namespace WowVerif.Flag

inductive BitExpr where
  | inner | rhs | arg
  | const (n : Nat)
  | and (a b : BitExpr)
  | or (a b : BitExpr)
  | xor (a b : BitExpr)
  | not (a : BitExpr)
  | rev (a : BitExpr)        -- `reverse_bits()`: not a bitwise operation
  | unknown                  -- text the translator could not read
  deriving Repr, DecidableEq, Inhabited

structure Env (w : Nat) where
  inner : BitVec w
  rhs : BitVec w
  arg : BitVec w

/-- bit reversal of a `w`-bit word (`uN::reverse_bits`) -/
def revBits (w : Nat) (x : BitVec w) : BitVec w :=
  BitVec.ofNat w ((List.range w).foldl (fun acc i => if x.getLsbD i then acc + 2 ^ (w - 1 - i) else acc) 0)

/-- value semantics; `none` when the expression contains text the translator could not read -/
def BitExpr.eval? {w : Nat} (env : Env w) : BitExpr → Option (BitVec w)
  | .inner => some env.inner
  | .rhs => some env.rhs
  | .arg => some env.arg
  | .const n => some (BitVec.ofNat w n)
  | .and a b => do let x ← a.eval? env; let y ← b.eval? env; pure (x &&& y)
  | .or a b => do let x ← a.eval? env; let y ← b.eval? env; pure (x ||| y)
  | .xor a b => do let x ← a.eval? env; let y ← b.eval? env; pure (x ^^^ y)
  | .not a => do let x ← a.eval? env; pure (~~~x)
  | .rev a => do let x ← a.eval? env; pure (revBits w x)
  | .unknown => none

/-- only bitwise operators and readable text -/
def BitExpr.isBitwise : BitExpr → Bool
  | .and a b | .or a b | .xor a b => a.isBitwise && b.isBitwise
  | .not a => a.isBitwise
  | .rev _ | .unknown => false
  | _ => true

/-- total value semantics of bitwise expressions (used by the theorems; agrees with `eval?` on them) -/
def BitExpr.eval {w : Nat} (env : Env w) : BitExpr → BitVec w
  | .inner => env.inner
  | .rhs => env.rhs
  | .arg => env.arg
  | .const n => BitVec.ofNat w n
  | .and a b => a.eval env &&& b.eval env
  | .or a b => a.eval env ||| b.eval env
  | .xor a b => a.eval env ^^^ b.eval env
  | .not a => ~~~(a.eval env)
  | .rev a => revBits w (a.eval env)
  | .unknown => 0

/-- one-bit semantics at position `i` -/
def BitExpr.bit (i : Nat) (bi br ba : Bool) : BitExpr → Bool
  | .inner => bi
  | .rhs => br
  | .arg => ba
  | .const n => n.testBit i
  | .and a b => a.bit i bi br ba && b.bit i bi br ba
  | .or a b => a.bit i bi br ba || b.bit i bi br ba
  | .xor a b => a.bit i bi br ba ^^ b.bit i bi br ba
  | .not a => !(a.bit i bi br ba)
  | .rev _ => false
  | .unknown => false

def bools : List Bool := [false, true]

/-- decision procedure: two bitwise expressions agree on every `w`-bit environment -/
def bwEquiv (w : Nat) (a b : BitExpr) : Bool :=
  a.isBitwise && b.isBitwise &&
  (List.range w).all fun i => bools.all fun bi => bools.all fun br => bools.all fun ba =>
    a.bit i bi br ba == b.bit i bi br ba

/-- boolean method bodies (`is_x`, `get_x`, `is_empty`) -/
inductive BoolBody where
  | ne0 (e : BitExpr)            -- `e != 0`
  | eq0 (e : BitExpr)            -- `e == 0`
  | orB (a b : BoolBody)         -- `a || b`
  | unknown
  deriving Repr, DecidableEq, Inhabited

def BoolBody.eval {w : Nat} (env : Env w) : BoolBody → Bool
  | .ne0 e => e.eval env != 0
  | .eq0 e => e.eval env == 0
  | .orB a b => a.eval env || b.eval env
  | .unknown => false

inductive Body where
  | val (e : BitExpr)       -- the method's resulting `inner`
  | test (b : BoolBody)     -- the method's boolean result
  deriving Repr, DecidableEq, Inhabited

/-- what the method is supposed to be -/
inductive Role where
  | isQ        -- is_x / get_x        : bits of x intersect the value
  | setQ       -- set_x               : adds exactly x's bits
  | clearQ     -- clear_x             : removes exactly x's bits
  | newQ       -- new_x               : exactly x's bits
  | empty | isEmpty | all | new | asInt
  | opAnd | opOr | opXor               -- BitAnd/BitOr/BitXor and their *Assign forms
  deriving Repr, DecidableEq, Inhabited

/-- The reference body for each role. `v` = the enumerator's wowm value, `allV` = OR of all wowm values,
`zav` = the flag is tagged zero_is_always_valid. -/
def specVal (v allV : Nat) : Role → Option BitExpr
  | .setQ => some (.or .inner (.const v))
  | .clearQ => some (.and .inner (.not (.const v)))
  | .newQ => some (.const v)
  | .empty => some (.const 0)
  | .all => some (.const allV)
  | .new => some .arg
  | .asInt => some .inner
  | .opAnd => some (.and .inner .rhs)
  | .opOr => some (.or .inner .rhs)
  | .opXor => some (.xor .inner .rhs)
  | .isQ | .isEmpty => none

def itemOk (w : Nat) (role : Role) (v allV : Nat) (zav : Bool) (body : Body) : Bool :=
  match role, body with
  | .isQ, .test (.ne0 e) => !zav && bwEquiv w e (.and .inner (.const v))
  | .isQ, .test (.orB (.ne0 e) (.eq0 z)) => zav && bwEquiv w e (.and .inner (.const v)) && bwEquiv w z .inner
  | .isEmpty, .test (.eq0 z) => bwEquiv w z .inner
  | r, .val e => match specVal v allV r with
      | some s => bwEquiv w e s
      | none => false
  | _, _ => false

/-! ### search support: concrete evaluation incl. non-bitwise bodies -/
def Body.run? {w : Nat} (env : Env w) : Body → Option (Sum (BitVec w) Bool)
  | .val e => (e.eval? env).map Sum.inl
  | .test b => some (Sum.inr (b.eval env))

end WowVerif.Flag
