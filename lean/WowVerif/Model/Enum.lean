/-
Model of generated enum types (wow_message_parser/src/rust_printer/enums.rs): match arms of `from_int` / `as_int`,
the `variants()` array, and the nine `TryFrom<src>` bodies (four shapes the printer emits).
`enumOk` compares the extracted Rust tables with the wowm definition; `Thm/C11.lean` proves what `true` means for
every integer of every source type.
-/
namespace WowVerif.Enum

structure IntTy where
  bits : Nat
  signed : Bool
  deriving Repr, DecidableEq, Inhabited

def IntTy.inRange (t : IntTy) (n : Int) : Bool :=
  if t.signed then decide (-(2 ^ (t.bits - 1) : Int) ≤ n) && decide (n < (2 ^ (t.bits - 1) : Int))
  else decide (0 ≤ n) && decide (n < (2 ^ t.bits : Int))

/-- the bit pattern of `n` (two's complement, `t.bits` wide) read as a value of `t`
(`T::from_le_bytes(value.to_le_bytes())` for a same-width `T`) -/
def reinterp (t : IntTy) (n : Int) : Int :=
  let m := n % (2 ^ t.bits : Int)
  if t.signed && decide (m ≥ (2 ^ (t.bits - 1) : Int)) then m - (2 ^ t.bits : Int) else m

/-- shapes of `TryFrom<src>` bodies -/
inductive Conv where
  | direct            -- `Self::from_int(value)`
  | into              -- `Self::from_int(value.into())`
  | reinterpret       -- `let v = U::from_le_bytes(value.to_le_bytes()); Self::from_int(v)`
  | checked           -- `TryInto::<base>::try_into(value).map_err(|_| EnumError::new(NAME, value.into()))?.try_into()`
  | unknown
  deriving Repr, DecidableEq, Inhabited

/-- names (type name, variant names) are interned by the translator: equal strings ↔ equal numbers -/
abbrev Name := Nat

structure RustEnum where
  base : IntTy
  nameConst : Name
  variants : List Name                 -- `variants()` array, in order
  declared : List Name                 -- variants of the `enum` declaration, in order
  asInt : List (Name × Int)            -- `Self::V => n`
  fromInt : List (Int × Name)          -- `n => Ok(Self::V)`
  wildcardReportsValue : Bool            -- `v => Err(EnumError::new(NAME, v as i128))`
  tryFrom : List (IntTy × Conv)
  deriving Repr, Inhabited

structure WowmEnum where
  name : Name
  base : IntTy
  enumerators : List (Name × Int)      -- (Rust variant name of the enumerator, value) in declaration order
  deriving Repr, Inhabited

/-! ## semantics of the Rust side -/

/-- `from_int`: first matching arm, else the wildcard -/
def RustEnum.fromIntF (r : RustEnum) (n : Int) : Except Int Name :=
  match r.fromInt.lookup n with
  | some v => .ok v
  | none => .error n

def RustEnum.asIntF (r : RustEnum) (v : Name) : Option Int := r.asInt.lookup v

/-- `TryFrom<src>::try_from(n)` for a body of shape `c`; `none` = the body does not type-check for this pair of types -/
def RustEnum.tryFromF (r : RustEnum) (src : IntTy) (c : Conv) (n : Int) : Option (Except Int Name) :=
  match c with
  | .direct => if src = r.base then some (r.fromIntF n) else none
  | .into => if src.signed = r.base.signed ∧ src.bits < r.base.bits then some (r.fromIntF n) else none
  | .reinterpret => if src.bits = r.base.bits ∧ src.signed ≠ r.base.signed then some (r.fromIntF (reinterp r.base n)) else none
  | .checked => some (if r.base.inRange n then r.fromIntF n else .error n)
  | .unknown => none

/-! ## specification -/

def WowmEnum.lookup (d : WowmEnum) (n : Int) : Except Int Name :=
  match d.enumerators.find? (fun p => p.2 == n) with
  | some p => .ok p.1
  | none => .error n

/-- by numeric value from every source type; a same-width integer of the other signedness is reinterpreted bit for bit -/
def WowmEnum.specTryFrom (d : WowmEnum) (src : IntTy) (n : Int) : Except Int Name :=
  if src.bits = d.base.bits ∧ src.signed ≠ d.base.signed then d.lookup (reinterp d.base n)
  else if d.base.inRange n then d.lookup n else .error n

/-! ## the checker -/

def distinct {α} [DecidableEq α] : List α → Bool
  | [] => true
  | x :: xs => !(xs.contains x) && distinct xs

def convOk (base src : IntTy) (c : Conv) : Bool :=
  match c with
  | .direct => src == base
  | .into => src.signed == base.signed && decide (src.bits < base.bits)
  | .reinterpret => src.bits == base.bits && src.signed != base.signed
  | .checked => !(src.bits == base.bits && src.signed != base.signed)
  | .unknown => false

def sourceTypes : List IntTy :=
  [⟨8, false⟩, ⟨16, false⟩, ⟨32, false⟩, ⟨64, false⟩, ⟨8, true⟩, ⟨16, true⟩, ⟨32, true⟩, ⟨64, true⟩]

def enumOk (r : RustEnum) (d : WowmEnum) : Bool :=
  r.base == d.base &&
  r.nameConst == d.name &&
  r.wildcardReportsValue &&
  r.variants == d.enumerators.map (·.1) &&
  r.declared == d.enumerators.map (·.1) &&
  distinct (d.enumerators.map (·.1)) &&
  distinct (d.enumerators.map (·.2)) &&
  d.enumerators.all (fun p => d.base.inRange p.2) &&
  -- as_int: exactly one arm per enumerator, with its value
  r.asInt == d.enumerators &&
  -- from_int: exactly the declared values, each naming its enumerator
  r.fromInt == d.enumerators.map (fun p => (p.2, p.1)) &&
  r.tryFrom.all (fun p => convOk r.base p.1 p.2) &&
  distinct (r.tryFrom.map (·.1))

end WowVerif.Enum
