/-
C14 — protocol-version views of login messages.
A message value is a record of named fields (the fields of the taken branches); the collective (latest) type has the
fields of the older version plus possibly more.  `lift` (Rust: `from_version_N`) keeps every field and fills the fields that
only the collective variant has with defaults; `lower` (Rust: `to_version_N`) keeps the fields the older version declares.
`readProtocol` / `writeProtocol` are the protocol-parameterised entry points: version N's own codec composed with the view
(`read_protocol = from_version_N ∘ VersionN::read`, `write_protocol = VersionN::write ∘ to_version_N`).
-/
import WowVerif.Model.Bytes
namespace WowVerif.View

abbrev Name := Nat
/-- a schema: the value fields a version declares: name, a code for the kind of value (integer, string, definer, struct,
array of …, enumerator with its value) and, for integers, the width of the Rust type (a newer version may widen a field) -/
abbrev Schema := List (Name × Nat × Nat)
abbrev Rec (V : Type) := List (Name × V)

def names {V} (r : Rec V) : List Name := r.map (·.1)
def Schema.names (s : Schema) : List Name := s.map (·.1)

/-- `from_version_N`: copy the fields, default the ones only the collective variant has (`extra`) -/
def lift {V} (dflt : Name → V) (extra : List Name) (r : Rec V) : Rec V :=
  r ++ (extra.filter (fun f => !(names r).contains f)).map (fun f => (f, dflt f))

/-- `to_version_N`: keep the fields the older version declares -/
def lower {V} (a : Schema) (r : Rec V) : Rec V := r.filter (fun kv => a.names.contains kv.1)

/-- static embedding check evaluated on the corpus: every field of the older version exists in the collective version with
the same kind of value and at least the same width -/
def embedsOk (a b : Schema) : Bool := a.all (fun f => b.any (fun g => g.1 == f.1 && g.2.1 == f.2.1 && f.2.2 ≤ g.2.2))

/-- fields only the collective version has -/
def extraOf (a b : Schema) : List Name := (b.names.filter (fun f => !a.names.contains f))

structure Codec (A : Type) where
  enc : A → Bytes
  dec : Bytes → Option A

def readProtocol {A B} (c : Codec A) (lft : A → B) (bs : Bytes) : Option B := (c.dec bs).map lft
def writeProtocol {A B} (c : Codec A) (lwr : B → A) (b : B) : Bytes := c.enc (lwr b)

end WowVerif.View
