/-
Model of wow_world_base/src/extended/top_level/geometry.rs and the `contains` / `verify_trigger` macros of
extended/shared/mod.rs.  The formulas are written ONCE, generically over a structure of arithmetic operations;
the driver instantiates them with `Float` (executable, correspondence with the f32 code away from boundaries) and
`Thm/C20.lean` instantiates the same definitions with `ℝ` (proof).
-/
namespace WowVerif.Geometry

/-- the operations the Rust code uses -/
structure Ops (α : Type) where
  add : α → α → α
  sub : α → α → α
  mul : α → α → α
  div : α → α → α
  abs : α → α
  sqrt : α → α
  sin : α → α
  cos : α → α
  pi : α
  two : α
  lt : α → α → Bool      -- `a < b`

variable {α : Type} (o : Ops α)

structure V3 (α : Type) where
  x : α
  y : α
  z : α

/-- `distance_between` -/
def distanceBetween (a b : V3 α) : α :=
  let dx := o.sub a.x b.x
  let dy := o.sub a.y b.y
  let dz := o.sub a.z b.z
  o.sqrt (o.add (o.add (o.mul dx dx) (o.mul dy dy)) (o.mul dz dz))

/-- `is_within_distance` -/
def isWithinDistance (a b : V3 α) (d : α) : Bool := o.lt (distanceBetween o a b) d

/-- `distance_2d` -/
def distance2d (ax ay bx by_ : α) : α :=
  let dx := o.sub ax bx
  let dy := o.sub ay by_
  o.sqrt (o.add (o.mul dx dx) (o.mul dy dy))

/-- the player's coordinates in the box frame as the code computes them (dx, dy, dz of `is_within_square`) -/
def boxCoords (player square : V3 α) (yaw : α) : α × α × α :=
  let rotation := o.sub (o.mul o.two o.pi) yaw
  let sin := o.sin rotation
  let cos := o.cos rotation
  let distX := o.sub player.x square.x
  let distY := o.sub player.y square.y
  let rotX := o.sub (o.add square.x (o.mul distX cos)) (o.mul distY sin)
  let rotY := o.add (o.add square.y (o.mul distY cos)) (o.mul distX sin)
  (o.sub rotX square.x, o.sub rotY square.y, o.sub player.z square.z)

/-- `is_within_square` (DELTA = 2.0) -/
def isWithinSquare (player square : V3 α) (length width height yaw : α) : Bool :=
  let (dx, dy, dz) := boxCoords o player square yaw
  !(o.lt (o.add (o.div length o.two) o.two) (o.abs dx)
    || o.lt (o.add (o.div width o.two) o.two) (o.abs dy)
    || o.lt (o.add (o.div height o.two) o.two) (o.abs dz))

inductive Shape (α : Type) where
  | circle (map : Nat) (pos : V3 α) (radius : α)
  | square (map : Nat) (pos : V3 α) (length width height yaw : α)

/-- `AreaTrigger::contains` -/
def contains (s : Shape α) (pmap : Nat) (p : V3 α) : Bool :=
  match s with
  | .circle m pos r => m == pmap && isWithinDistance o pos p r
  | .square m pos l w h yaw => m == pmap && isWithinSquare o p pos l w h yaw

inductive TriggerResult where | notFound | notInside | success
  deriving Repr, DecidableEq

/-- `verify_trigger`: first table entry with the id -/
def verifyTrigger (tbl : List (Nat × Shape α)) (pmap : Nat) (p : V3 α) (id : Nat) : TriggerResult :=
  match tbl.find? (fun e => e.1 == id) with
  | none => .notFound
  | some e => if contains o e.2 pmap p then .success else .notInside

/-! ## executable instance -/
def floatOps : Ops Float where
  add := (· + ·)
  sub := (· - ·)
  mul := (· * ·)
  div := (· / ·)
  abs := Float.abs
  sqrt := Float.sqrt
  sin := Float.sin
  cos := Float.cos
  pi := 3.14159265358979323846
  two := 2.0
  lt := fun a b => a < b

/-- distance of the decisive comparison from its boundary (for abstaining near faces, where f32 and f64 may differ) -/
def squareMargin (player square : V3 Float) (length width height yaw : Float) : Float :=
  let (dx, dy, dz) := boxCoords floatOps player square yaw
  let m1 := Float.abs (Float.abs dx - (length / 2.0 + 2.0))
  let m2 := Float.abs (Float.abs dy - (width / 2.0 + 2.0))
  let m3 := Float.abs (Float.abs dz - (height / 2.0 + 2.0))
  min m1 (min m2 m3)

end WowVerif.Geometry
