/-
Model of `wow_world_base::DateTime` (wow_world_base/src/manual/shared/datetime_vanilla_tbc_wrath.rs).

Code model (`tryFrom`, `predictedWeekday`, `maximumDays`, …) mirrors the Rust text function by
function.  `u32`/`u8` values are `Nat`s below the type's bound; `>> k & m` is `/ 2^k % (m+1)`,
`a << i | b << j | …` over disjoint bit fields is `a * 2^i + b * 2^j + …` (validated by the
correspondence check, which is exhaustive over all 2^32 inputs in the thorough tier).

The reference calendar (`isLeap`, `daysInMonth`, `dayNumber`, `weekdayOf`) is written independently
of the code: day counts are sums of year/month lengths, anchored at Saturday 2000-01-01.
No imports: this file is linked into the native driver.
-/
namespace WowVerif.DateTime

/-! ## Field extraction (`const fn minutes(v)` … `years_after_2000(v)`) -/
def vMinutes  (v : Nat) : Nat := v % 64
def vHours    (v : Nat) : Nat := (v / 64) % 32
def vWeekday  (v : Nat) : Nat := (v / 2048) % 8
def vMonthDay (v : Nat) : Nat := (v / 16384) % 64
def vMonth    (v : Nat) : Nat := (v / 1048576) % 16
def vYears    (v : Nat) : Nat := (v / 16777216) % 256

/-! ## Code model -/

/-- `const fn leap_year(years_after_2000: u32) -> bool` -/
def leapYear (y : Nat) : Bool :=
  let year := y + 2000
  if year % 4 == 0 && year % 100 != 0 then true else year % 400 == 0

/-- `Month::maximum_days(&self, years_after_2000)`; months are `as_int` values 0..11. -/
def maximumDays (m y : Nat) : Nat :=
  match m with
  | 0 => 31
  | 1 => if leapYear y then 29 else 28
  | 2 => 31
  | 3 => 30
  | 4 => 31
  | 5 => 30
  | 6 => 31
  | 7 => 31
  | 8 => 30
  | 9 => 31
  | 10 => 30
  | _ => 31

/-- `Month::days_from_previous_months`: the code spells out the sum of `maximum_days` of all earlier months. -/
def daysFromPreviousMonths (m y : Nat) : Nat :=
  match m with
  | 0 => 0
  | k + 1 => daysFromPreviousMonths k y + maximumDays k y

/-- `fn predicted_weekday(month_day, month, years_after_2000) -> Weekday`, result as `Weekday::as_int`
(Sunday = 0 … Saturday = 6).  `years_after_2000 / 4 - years_after_2000 / 100` is `u8` arithmetic that
cannot underflow (`y/100 ≤ y/4`); truncated subtraction on `Nat` agrees. -/
def predictedWeekday (d m y : Nat) : Nat :=
  let l0 := y / 4 - y / 100
  let l1 := if y > 0 then l0 + 1 else l0
  let l2 := if leapYear y && l1 > 0 then l1 - 1 else l1
  let daysFromYears := y * 365 + l2
  let n := daysFromYears + daysFromPreviousMonths m y + d
  let day := (5 + n) % 7
  -- match day { 0 => Monday(1), 1 => Tuesday(2), …, 5 => Saturday(6), 6 => Sunday(0) }
  (day + 1) % 7

inductive Err where
  | minute (n : Nat)
  | hour (n : Nat)
  | enumWeekday (n : Nat)
  | enumMonth (n : Nat)
  | monthDay (m d : Nat)
  | date (y m d w p : Nat)
  deriving Repr, DecidableEq

/-- `DateTime { inner: u32 }` -/
structure DT where
  inner : Nat
  deriving Repr, DecidableEq

/-- `DateTime::new`: bit-or of disjoint shifted fields. -/
def DT.new (y m d w h mi : Nat) : DT :=
  ⟨y * 16777216 + m * 1048576 + d * 16384 + w * 2048 + h * 64 + mi⟩

def DT.asInt (t : DT) : Nat := t.inner
def DT.minutes (t : DT) : Nat := vMinutes t.inner
def DT.hours (t : DT) : Nat := vHours t.inner
def DT.weekday (t : DT) : Nat := vWeekday t.inner
def DT.monthDay (t : DT) : Nat := vMonthDay t.inner
def DT.month (t : DT) : Nat := vMonth t.inner
def DT.years (t : DT) : Nat := vYears t.inner

/-- `impl TryFrom<u32> for DateTime` — same order of tests, same error payloads. -/
def tryFrom (v : Nat) : Except Err DT :=
  let mi := vMinutes v
  if mi > 59 then .error (.minute mi) else
  let h := vHours v
  if h > 23 then .error (.hour h) else
  let w := vWeekday v
  if w > 6 then .error (.enumWeekday w) else
  let m := vMonth v
  if m > 11 then .error (.enumMonth m) else
  let y := vYears v
  let d := vMonthDay v
  if d ≥ maximumDays m y then .error (.monthDay m d) else
  let p := predictedWeekday d m y
  if w ≠ p then .error (.date y m d w p) else
  .ok (DT.new y m d w h mi)

/-! ## Reference calendar (specification) -/

/-- Gregorian leap rule on the full year number. -/
def isLeap (year : Nat) : Bool := year % 4 == 0 && (year % 100 != 0 || year % 400 == 0)

def daysInMonth (year m : Nat) : Nat :=
  if m == 1 then (if isLeap year then 29 else 28)
  else if m == 3 || m == 5 || m == 8 || m == 10 then 30 else 31

def daysInYear (year : Nat) : Nat := if isLeap year then 366 else 365

/-- days from 2000-01-01 to (2000+y)-01-01 -/
def daysBeforeYear : Nat → Nat
  | 0 => 0
  | k + 1 => daysBeforeYear k + daysInYear (2000 + k)

/-- days from `year`-01-01 to the first of zero-based month `m` -/
def daysBeforeMonth (year : Nat) : Nat → Nat
  | 0 => 0
  | k + 1 => daysBeforeMonth year k + daysInMonth year k

/-- zero-based day number of (2000+y)-(m+1)-(d+1) counted from 2000-01-01 -/
def dayNumber (y m d : Nat) : Nat := daysBeforeYear y + daysBeforeMonth (2000 + y) m + d

/-- weekday with Sunday = 0; 2000-01-01 was a Saturday (= 6). -/
def weekdayOf (y m d : Nat) : Nat := (6 + dayNumber y m d) % 7

/-- The property's right-hand side: the bit fields encode a real calendar instant. -/
def validSpec (v : Nat) : Prop :=
  vMinutes v < 60 ∧ vHours v < 24 ∧ vMonth v < 12 ∧
  vMonthDay v < daysInMonth (2000 + vYears v) (vMonth v) ∧
  vWeekday v = weekdayOf (vYears v) (vMonth v) (vMonthDay v)

instance (v : Nat) : Decidable (validSpec v) := by unfold validSpec; infer_instance

/-! ## Line-protocol rendering -/
def render (v : Nat) : String :=
  match tryFrom v with
  | .ok t => s!"ok {t.years} {t.month} {t.monthDay} {t.weekday} {t.hours} {t.minutes} {t.asInt}"
  | .error (.minute n) => s!"err minute {n}"
  | .error (.hour n) => s!"err hour {n}"
  | .error (.enumWeekday n) => s!"err enum Weekday {n}"
  | .error (.enumMonth n) => s!"err enum Month {n}"
  | .error (.monthDay m d) => s!"err monthday {m} {d}"
  | .error (.date y m d w p) => s!"err date {y} {m} {d} {w} {p}"

/-- small outcome code folded into sweep digests -/
def outcomeCode (v : Nat) : UInt64 :=
  match tryFrom v with
  | .ok t => (1 : UInt64) + (UInt64.ofNat t.asInt) * 8
  | .error (.minute n) => 2 + UInt64.ofNat n * 8
  | .error (.hour n) => 3 + UInt64.ofNat n * 8
  | .error (.enumWeekday n) => 4 + UInt64.ofNat n * 8
  | .error (.enumMonth n) => 5 + UInt64.ofNat n * 8
  | .error (.monthDay m d) => 6 + UInt64.ofNat (m * 256 + d) * 8
  | .error (.date y m d w p) => 7 + UInt64.ofNat ((((y * 16 + m) * 64 + d) * 8 + w) * 8 + p) * 8

end WowVerif.DateTime
