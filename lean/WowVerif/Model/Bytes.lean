/-
Byte-level primitives shared by the codec models: little/big-endian integers of any width.
-/
namespace WowVerif

abbrev Bytes := List UInt8

/-- little-endian encoding of `n` in `k` bytes (the low `k` bytes; callers require `n < 256^k`) -/
def encLE : Nat → Nat → Bytes
  | 0, _ => []
  | k + 1, n => UInt8.ofNat n :: encLE k (n / 256)

/-- little-endian value of a byte list -/
def decLE : Bytes → Nat
  | [] => 0
  | b :: bs => b.toNat + 256 * decLE bs

def encBE (k n : Nat) : Bytes := (encLE k n).reverse
def decBE (bs : Bytes) : Nat := decLE bs.reverse

end WowVerif
