/-
The declared size of a message as a FUNCTION of its value (C07 "consistent declared size", C02: the header's size field, C01: `self.size`
fields): the generated Rust `size()` is a sum with one term per member of the definition — a literal for a member of constant size,
`x.len() + k` for the string types, `packed_guid_size`, `x.len() * k` for arrays of constant-size elements, a fold over the elements
otherwise, `x.size()` for nested structs and built-in types.  `SzT` is the syntax of such terms, `szEval` their value on a model value,
`szMs` the term list the definition prescribes.  tools/rust_size.py translates every generated `size()` into `SzTs`; the driver compares it
with `szMs` of the definition (`sizeMatches`); `Thm/C07b.lean` proves that the prescribed term list evaluates to the length of the encoding.
-/
import WowVerif.Model.SemSize
namespace WowVerif.Sem

mutual
inductive SzT where
  | const (n : Nat)
  | lenPlus (k : Nat)
  | pg
  | prim (name : String)
  | lenTimes (k : Nat)
  | call (ts : SzTs)
  | fold (t : SzT)
  | opt (ts : SzTs)                  -- `if let Some(x) = &self.x { … } else { 0 }`: an optional tail
  | other
inductive SzTs where
  | nil
  | cons (t : SzT) (ts : SzTs)
end

deriving instance DecidableEq for SzT, SzTs
deriving instance Repr for SzT, SzTs

def sumMap (f : Val → Option Nat) : List Val → Option Nat
  | [] => some 0
  | v :: vs => match f v, sumMap f vs with
      | some a, some b => some (a + b)
      | _, _ => Option.none

mutual
def szEval : SzT → Val → Option Nat
  | .const n, _ => some n
  | .lenPlus k, .bytes s => some (s.length + k)
  | .pg, .nat n => some (1 + (packBytes (encLE 8 n)).2.length)
  | .prim name, v => (encPrim name v).map (·.length)
  | .lenTimes k, .list vs => some (vs.length * k)
  | .call ts, .tuple vs => szSum ts vs
  | .fold t, .list vs => sumMap (szEval t) vs
  | .opt _, .none => some 0
  | .opt ts, .tuple vs => szSum ts vs
  | _, _ => Option.none
def szSum : SzTs → List Val → Option Nat
  | .nil, [] => some 0
  | .cons t ts, v :: vs => match szEval t v, szSum ts vs with
      | some a, some b => some (a + b)
      | _, _ => Option.none
  | _, _ => Option.none
end

mutual
def supported : SzT → Bool
  | .other => false
  | .call ts => supportedS ts
  | .fold t => supported t
  | .opt ts => supportedS ts
  | _ => true
def supportedS : SzTs → Bool
  | .nil => true
  | .cons t ts => supported t && supportedS ts
end

def szLeaf : Leaf → SzT
  | .cstring => .lenPlus 1
  | .string => .lenPlus 1
  | .sizedCString => .lenPlus 5
  | .packedGuid => .pg
  | .prim n => .prim n
  | .int k _ => .const k
  | .bool k => .const k
  | .enumT k _ _ => .const k
  | .lvl k => .const k
  | .dateTime => .const 4

mutual
/-- the size term the definition prescribes for a member of type `t` -/
def szTy : Ty → SzT
  | .leaf l => szLeaf l
  | .struct ms => match fixedMs ms with
      | some n => .const n
      | Option.none => .call (szMs ms)
  | .arrFixed n t => match fixedTy t with
      | some k => .const (n * k)
      | Option.none => .fold (szTy t)
  | .arrVar _ t => match fixedTy t with
      | some k => .lenTimes k
      | Option.none => .fold (szTy t)
def szM : Member → SzT
  | .field _ _ t => szTy t
  | .endless _ t => match fixedTy t with
      | some k => .lenTimes k
      | Option.none => .fold (szTy t)
  | .ifs _ _ => .other
  | .optional ms => .opt (szMs ms)
def szMs : Members → SzTs
  | .nil => .nil
  | .cons m ms => .cons (szM m) (szMs ms)
end

/-- the comparison the driver evaluates for a translated `size()` -/
def sizeMatches (spec : Members) (rust : SzTs) : Bool := decide (szMs spec = rust)

end WowVerif.Sem
