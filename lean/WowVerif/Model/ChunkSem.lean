/-
The specification decoder of a closed container as a `read_exact` SCRIPT (Model/Chunk.lean `Dec`): every leaf asks for exactly the bytes
it needs — an integer its width, a C string one byte at a time up to the terminator, a packed guid its mask and then one byte per set
bit, a length-prefixed string its prefix and then the announced bytes — and hands the decoded value to a continuation.  This is the
shape of the blocking / tokio / async-std login readers (which read from the stream field by field; world bodies are read whole and then
decoded from memory).  Members that need to know where the input ends (endless arrays, optional tails) and the built-in types are not
scriptable; `scriptable` decides that.  `Thm/C06b.lean` proves that running the script on a buffer is the specification decoder, so
`chunk_invariant` applies to every such definition.
-/
import WowVerif.Model.Chunk
import WowVerif.Model.Sem
namespace WowVerif.Chunk
open WowVerif.Sem

def errOf : Sem.Err → RErr
  | .eof => .unexpectedEof
  | _ => .other 1

def intD {α} (n : Nat) (e : Endian) (k : Nat → Dec α) : Dec α :=
  .need n fun bs => k (match e with | .le => decLE bs | .be => decBE bs)

/-- read up to the first zero byte, one byte at a time; `fuel` bounds the length of the input -/
def cstrD {α} : Nat → Bytes → (Bytes → Dec α) → Dec α
  | 0, _, _ => .fail .unexpectedEof
  | f + 1, acc, k => .need 1 fun b =>
      match b with
      | [x] => if x == 0 then k acc.reverse else cstrD f (x :: acc) k
      | _ => .fail (.other 1)

def unpackD {α} : List Bool → (Bytes → Dec α) → Dec α
  | [], k => k []
  | false :: m, k => unpackD m (fun r => k (0 :: r))
  | true :: m, k => .need 1 fun b =>
      match b with
      | [x] => unpackD m (fun r => k (x :: r))
      | _ => .fail (.other 1)

def leafD {α} (fuel : Nat) (l : Leaf) (k : Val → Dec α) : Dec α :=
  match l with
  | .int n e => intD n e fun v => k (.nat v)
  | .bool n => intD n .le fun v => k (.nat (if v = 0 then 0 else 1))
  | .enumT n e vals => intD n e fun v => if vals.contains v then k (.nat v) else .fail (.other 1)
  | .lvl n => intD n .le fun v => if v < 256 then k (.nat v) else .fail (.other 1)
  | .dateTime => intD 4 .le fun v => if dateTimeValid v then k (.nat v) else .fail (.other 1)
  | .cstring => cstrD fuel [] fun s => k (.bytes s)
  | .sizedCString => intD 4 .le fun n =>
      if n = 0 then .fail (.other 1) else
      .need n fun r =>
        let s := r.take (n - 1)
        if s.contains 0 then .fail (.other 1)
        else if (r.drop (n - 1)).head? = some 0 then k (.bytes s) else .fail (.other 1)
  | .string => intD 1 .le fun n => .need n fun r => k (.bytes r)
  | .packedGuid => .need 1 fun m =>
      match m with
      | [x] => unpackD (natToBits 8 x.toNat) fun g => k (.nat (decLE g))
      | _ => .fail (.other 1)
  | .prim _ => .fail (.other 1)

def iterD {α} (f : (Val → Dec α) → Dec α) : Nat → (List Val → Dec α) → Dec α
  | 0, k => k []
  | n + 1, k => f fun v => iterD f n fun vs => k (v :: vs)

mutual
def tyD {α} (fuel : Nat) : Ty → Env → (Val → Dec α) → Dec α
  | .leaf l, _, k => leafD fuel l k
  | .struct ms, _, k => membersD fuel ms [] fun vs _ => k (.tuple vs)
  | .arrFixed n t, env, k => iterD (tyD fuel t env) n fun vs => k (.list vs)
  | .arrVar var t, env, k => match env.get var with
      | Option.none => .fail (.other 1)
      | some n => iterD (tyD fuel t env) n fun vs => k (.list vs)
def memberD {α} (fuel : Nat) : Member → Env → (Val → Env → Dec α) → Dec α
  | .field id _ t, env, k => tyD fuel t env fun v => k v (env.bind id v)
  | .ifs var bs, env, k => match env.get var with
      | Option.none => .fail (.other 1)
      | some x => branchesD fuel bs x env fun vs env' => k (.tuple vs) env'
  | .endless _ _, _, _ => .fail (.other 1)
  | .optional _, _, _ => .fail (.other 1)
def branchesD {α} (fuel : Nat) : Branches → Nat → Env → (List Val → Env → Dec α) → Dec α
  | .els ms, _, env, k => membersD fuel ms env k
  | .cons c ms bs, x, env, k => if c.holds x then membersD fuel ms env k else branchesD fuel bs x env k
def membersD {α} (fuel : Nat) : Members → Env → (List Val → Env → Dec α) → Dec α
  | .nil, env, k => k [] env
  | .cons m ms, env, k => memberD fuel m env fun v env1 => membersD fuel ms env1 fun vs env2 => k (v :: vs) env2
end

/- a definition that can be read field by field from a stream: no endless array, no optional tail, no built-in type -/
mutual
def scriptTy : Ty → Bool
  | .leaf (.prim _) => false
  | .leaf _ => true
  | .struct ms => scriptMs ms
  | .arrFixed _ t => scriptTy t
  | .arrVar _ t => scriptTy t
def scriptM : Member → Bool
  | .field _ _ t => scriptTy t
  | .ifs _ bs => scriptB bs
  | .endless _ _ => false
  | .optional _ => false
def scriptB : Branches → Bool
  | .els ms => scriptMs ms
  | .cons _ ms bs => scriptMs ms && scriptB bs
def scriptMs : Members → Bool
  | .nil => true
  | .cons m ms => scriptM m && scriptMs ms
end

/-- the whole definition: decode from the front of a stream, the rest stays in the stream -/
def decodeD (fuel : Nat) (c : Members) : Dec (List Val) := membersD fuel c [] fun vs _ => .done vs

end WowVerif.Chunk
