/-
End-to-end model of one direction of a world connection: a message table (opcode ↦ closed container), the framing of
Model/Frame.lean around the body codec of Model/Sem.lean.  `readMsg` is what `ServerOpcodeMessage::read_unencrypted` /
`ClientOpcodeMessage::read_unencrypted` do: read the header, take the announced body, look the opcode up, decode the body with that
message's decoder (every byte must be used).  Whatever the outcome, the announced bytes are consumed (the remainder is returned in every
case that got past the header), so a stream stays aligned after an unknown opcode or a body that does not parse.
-/
import WowVerif.Model.Frame
import WowVerif.Model.Sem
namespace WowVerif.Session
open WowVerif.Frame WowVerif.Sem

abbrev Table := List (Nat × Members)

def Table.find (t : Table) (op : Nat) : Option Members := t.lookup op

inductive Outcome where
  | msg (op : Nat) (vs : List Val)
  | unknownOpcode (op : Nat)
  | badBody (op : Nat) (e : Sem.Err)
  deriving Inhabited

/-- read one message; `.error` only when the header / announced body cannot be taken from the stream -/
def readMsg (api : Api) (e : Exp) (d : Dir) (t : Table) (bs : Frame.Bytes) : Except RErr (Outcome × Frame.Bytes) :=
  match readFrame api e d bs with
  | .error x => .error x
  | .ok ((op, body), rest) =>
    match t.find op with
    | none => .ok (.unknownOpcode op, rest)
    | some c =>
      match Sem.decode c body with
      | .ok vs => .ok (.msg op vs, rest)
      | .error x => .ok (.badBody op x, rest)

def writeMsg (e : Exp) (d : Dir) (t : Table) (op : Nat) (vs : List Val) : Option Frame.Bytes :=
  match t.find op with
  | none => none
  | some c =>
    match Sem.encode c vs with
    | none => none
    | some body =>
      match writeFrame e d op body with
      | .ok f => some f
      | .error _ => none

def writeMsgs (e : Exp) (d : Dir) (t : Table) : List (Nat × List Val) → Option Frame.Bytes
  | [] => some []
  | (op, vs) :: ms =>
    match writeMsg e d t op vs, writeMsgs e d t ms with
    | some f, some s => some (f ++ s)
    | _, _ => none

def readMsgs (api : Api) (e : Exp) (d : Dir) (t : Table) : Nat → Frame.Bytes → Except RErr (List Outcome × Frame.Bytes)
  | 0, bs => .ok ([], bs)
  | n + 1, bs =>
    match readMsg api e d t bs with
    | .error x => .error x
    | .ok (o, rest) =>
      match readMsgs api e d t n rest with
      | .error x => .error x
      | .ok (os, rest') => .ok (o :: os, rest')

end WowVerif.Session
