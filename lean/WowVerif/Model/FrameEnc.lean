/-
Header encryption (C05): the writers encrypt exactly the header bytes of a frame with the session's stream cipher, the
readers decrypt the header incrementally (Wrath server headers: four bytes, then one more if the decrypted first byte
carries the 0x80 marker).  The cipher (wow_srp) is a parameter: two byte-wise state machines and a coupling relation under
which decrypting an encrypted byte returns the byte and keeps the states coupled (validated against wow_srp by sampling).
-/
import WowVerif.Model.Frame
namespace WowVerif.Frame

structure Cipher where
  E : Type
  D : Type
  enc : E → UInt8 → E × UInt8
  dec : D → UInt8 → D × UInt8
  R : E → D → Prop
  /-- decrypting what was encrypted returns the byte, and the two states stay coupled -/
  step : ∀ e d b, R e d → (dec d (enc e b).2).2 = b ∧ R (enc e b).1 (dec d (enc e b).2).1

def encBytes (C : Cipher) (e : C.E) : Bytes → C.E × Bytes
  | [] => (e, [])
  | b :: bs => let (e1, c) := C.enc e b; let (e2, cs) := encBytes C e1 bs; (e2, c :: cs)

def decBytes (C : Cipher) (d : C.D) : Bytes → C.D × Bytes
  | [] => (d, [])
  | c :: cs => let (d1, b) := C.dec d c; let (d2, bs) := decBytes C d1 cs; (d2, b :: bs)

/-- `write_encrypted_{server,client}`: the plain frame with its header part encrypted -/
def writeFrameEnc (C : Cipher) (e : C.E) (x : Exp) (dir : Dir) (op : Nat) (body : Bytes) : Except Abort (C.E × Bytes) :=
  match writeFrame x dir op body with
  | .error a => .error a
  | .ok v =>
    let hl := v.length - body.length
    let (e', ch) := encBytes C e (v.take hl)
    .ok (e', ch ++ v.drop hl)

/-- `read_encrypted` / `expect_*_message_encryption`: decrypt the header incrementally, then read the body in clear -/
def readFrameEnc (C : Cipher) (d : C.D) (api : Api) (x : Exp) (dir : Dir) (bs : Bytes) : Except RErr (((Nat × Bytes) × Bytes) × C.D) :=
  let n := match dir with | .client => 6 | .server => 4
  match take? n bs with
  | .error r => .error r
  | .ok (c1, rest1) =>
    let (d1, h1) := decBytes C d c1
    if x = .wrath ∧ dir = .server ∧ (h1.getD 0 0).toNat ≥ 128 then
      match take? 1 rest1 with
      | .error r => .error r
      | .ok (c2, rest2) =>
        let (d2, h2) := decBytes C d1 c2
        match readFrame api x dir (h1 ++ h2 ++ rest2) with
        | .ok r => .ok (r, d2)
        | .error r => .error r
    else
      match readFrame api x dir (h1 ++ rest1) with
      | .ok r => .ok (r, d1)
      | .error r => .error r

end WowVerif.Frame
