/-
Reading closed containers from the token format written by tools/corpus.py, and generating canonical values
(structure-directed, from one PRNG state).  Driver-side code: not part of any theorem.
-/
import WowVerif.Model.Sem
namespace WowVerif.Sem

/-! ## token parser (fuel = number of tokens) -/

def parseNatList (k : Nat) (ts : List String) : Option (List Nat × List String) :=
  if ts.length < k then none else ((ts.take k).mapM (fun (s : String) => s.toNat?)).map fun l => (l, ts.drop k)

def parseEndian : String → Option Endian
  | "le" => some .le | "be" => some .be | _ => none

mutual
partial def parseTy : List String → Option (Ty × List String)
  | "int" :: k :: e :: r => do pure (.leaf (.int (← k.toNat?) (← parseEndian e)), r)
  | "bool" :: k :: r => do pure (.leaf (.bool (← k.toNat?)), r)
  | "lvl" :: k :: r => do pure (.leaf (.lvl (← k.toNat?)), r)
  | "enum" :: k :: e :: n :: r => do
      let (vals, r) ← parseNatList (← n.toNat?) r
      pure (.leaf (.enumT (← k.toNat?) (← parseEndian e) vals), r)
  | "datetime" :: r => some (.leaf .dateTime, r)
  | "cstring" :: r => some (.leaf .cstring, r)
  | "sizedcstring" :: r => some (.leaf .sizedCString, r)
  | "string" :: r => some (.leaf .string, r)
  | "packedguid" :: r => some (.leaf .packedGuid, r)
  | "prim" :: n :: r => some (.leaf (.prim n), r)
  | "struct" :: r => do let (ms, r) ← parseMembers r; pure (.struct ms, r)
  | "arrf" :: n :: r => do let (t, r) ← parseTy r; pure (.arrFixed (← n.toNat?) t, r)
  | "arrv" :: v :: r => do let (t, r) ← parseTy r; pure (.arrVar (← v.toNat?) t, r)
  | _ => none

partial def parseCond : List String → Option (Cond × List String)
  | "eq" :: k :: r => do let (vs, r) ← parseNatList (← k.toNat?) r; pure (.eq vs, r)
  | "ne" :: v :: r => do pure (.ne (← v.toNat?), r)
  | "and" :: k :: r => do let (vs, r) ← parseNatList (← k.toNat?) r; pure (.band vs, r)
  | _ => none

partial def parseBranches : Nat → List String → Option (Branches × List String)
  | 0, r => do let (ms, r) ← parseMembers r; pure (.els ms, r)
  | n + 1, r => do
      let (c, r) ← parseCond r
      let (ms, r) ← parseMembers r
      let (bs, r) ← parseBranches n r
      pure (.cons c ms bs, r)

/-- members up to the closing `end` -/
partial def parseMembers : List String → Option (Members × List String)
  | "end" :: r => some (.nil, r)
  | "f" :: id :: "p" :: r => do
      let (t, r) ← parseTy r
      let (ms, r) ← parseMembers r
      match t, ms with
      | .leaf (.prim "ENDLESS"), _ => none
      | _, _ => pure (.cons (.field (← id.toNat?) .plain t) ms, r)
  | "f" :: id :: "s" :: r => do
      let (t, r) ← parseTy r
      let (ms, r) ← parseMembers r
      pure (.cons (.field (← id.toNat?) .selfSize t) ms, r)
  | "f" :: id :: "c" :: v :: r => do
      let (t, r) ← parseTy r
      let (ms, r) ← parseMembers r
      pure (.cons (.field (← id.toNat?) (.const (← v.toNat?)) t) ms, r)
  | "fe" :: id :: r => do            -- endless array member
      let (t, r) ← parseTy r
      let (ms, r) ← parseMembers r
      pure (.cons (.endless (← id.toNat?) t) ms, r)
  | "if" :: v :: n :: r => do
      let (bs, r) ← parseBranches (← n.toNat?) r
      let (ms, r) ← parseMembers r
      pure (.cons (.ifs (← v.toNat?) bs) ms, r)
  | "opt" :: r => do
      let (inner, r) ← parseMembers r
      let (ms, r) ← parseMembers r
      pure (.cons (.optional inner) ms, r)
  | _ => none
end

/-! ## PRNG (SplitMix64) -/
structure Rng where
  s : UInt64
  enumSeen : Nat := 0            -- enum leaves generated so far
  corruptAt : Nat := 1000000000  -- index of the enum leaf to corrupt (none by default)
  corruptMode : Nat := 0
  bad : Option (Nat × Nat) := none   -- (undeclared value written, wire bytes)
  sample : Nat := 0              -- index of this sample: steering variables cycle through the compared values
  steerSeen : Nat := 0

def Rng.next (r : Rng) : UInt64 × Rng :=
  let s := r.s + 0x9E3779B97F4A7C15
  let z := s
  let z := (z ^^^ (z >>> 30)) * 0xBF58476D1CE4E5B9
  let z := (z ^^^ (z >>> 27)) * 0x94D049BB133111EB
  (z ^^^ (z >>> 31), { r with s := s })

def Rng.below (r : Rng) (n : Nat) : Nat × Rng :=
  let (x, r) := r.next
  (if n = 0 then 0 else x.toNat % n, r)

/-! ## which variables steer the structure -/
mutual
partial def lenVarsTy : Ty → List Nat
  | .arrVar v t => v :: lenVarsTy t
  | .arrFixed _ t => lenVarsTy t
  | _ => []
partial def lenVars : Members → List Nat
  | .nil => []
  | .cons (.field _ _ t) ms => lenVarsTy t ++ lenVars ms
  | .cons (.ifs _ bs) ms => lenVarsB bs ++ lenVars ms
  | .cons (.endless _ _) ms => lenVars ms
  | .cons (.optional i) ms => lenVars i ++ lenVars ms
partial def lenVarsB : Branches → List Nat
  | .els ms => lenVars ms
  | .cons _ ms bs => lenVars ms ++ lenVarsB bs
end

mutual
partial def condVals : Members → List (Nat × List Nat)
  | .nil => []
  | .cons (.ifs v bs) ms => condValsB v bs ++ condVals ms
  | .cons (.optional i) ms => condVals i ++ condVals ms
  | .cons _ ms => condVals ms
partial def condValsB (v : Nat) : Branches → List (Nat × List Nat)
  | .els ms => condVals ms
  | .cons c ms bs =>
      let vals := match c with | .eq vs => vs | .ne x => [x] | .band ms => ms
      (v, vals) :: (condVals ms ++ condValsB v bs)
end

/-! ## generator of canonical values -/

def weekdayFor (y m d : Nat) : Nat :=
  let leapY (k : Nat) := (2000 + k) % 4 == 0 && ((2000 + k) % 100 != 0 || (2000 + k) % 400 == 0)
  let dby := (List.range y).foldl (fun a k => a + (if leapY k then 366 else 365)) 0
  let dim (k : Nat) := if k == 1 then (if leapY y then 29 else 28) else if k == 3 || k == 5 || k == 8 || k == 10 then 30 else 31
  let dbm := (List.range m).foldl (fun a k => a + dim k) 0
  (6 + dby + dbm + d) % 7

structure GenCtx where
  lens : List Nat                  -- variables that size arrays (kept small)
  conds : List (Nat × List Nat)    -- values that conditions compare a variable with
  maxLen : Nat := 4

/-- a valid DateTime value -/
def genDateTime (r : Rng) : Nat × Rng :=
  let (y, r) := r.below 256
  let (m, r) := r.below 12
  let leap := (2000 + y) % 4 == 0 && ((2000 + y) % 100 != 0 || (2000 + y) % 400 == 0)
  let dim := if m == 1 then (if leap then 29 else 28) else if m == 3 || m == 5 || m == 8 || m == 10 then 30 else 31
  let (d, r) := r.below dim
  let (h, r) := r.below 24
  let (mi, r) := r.below 60
  let w := weekdayFor y m d
  (y * 16777216 + m * 1048576 + d * 16384 + w * 2048 + h * 64 + mi, r)

def genB (l : BLeaf) (r : Rng) : Nat × Rng :=
  match l with
  | .u8 => r.below 256
  | .u16 => let (c, r) := r.below 3; if c == 0 then (65535, r) else r.below 65536
  | .u32 => let (c, r) := r.below 4; if c == 0 then (r.below 4294967296) else if c == 1 then (r.below 256) else if c == 2 then (4294967295, r) else (r.below 65536)
  | .pg =>
      let (x, r) := r.below (256 ^ 8)
      let (m, r) := r.below 256
      let bytes := (encLE 8 x).zipIdx.map fun (b, i) => if (m / 2 ^ i) % 2 == 1 then 0 else b
      (decLE bytes, r)
  | .bool32 => r.below 2
  | .dt => genDateTime r

def genBs : List BLeaf → Rng → List Val × Rng
  | [], r => ([], r)
  | l :: ls, r => let (n, r) := genB l r; let (vs, r) := genBs ls r; (.nat n :: vs, r)

/-- sentinel-terminated elements: an id below the sentinel followed by the element's fields -/
def genSent (ls : List BLeaf) : Nat → Rng → List Val × Rng
  | 0, r => ([], r)
  | k + 1, r =>
      let (c, r) := r.below 3
      let (id, r) := if c == 0 then (4294967294, r) else r.below 4294967295
      let (fs, r) := genBs ls r
      let (vs, r) := genSent ls k r
      (.tuple (.nat id :: fs) :: vs, r)

def genTuples (ls : List BLeaf) : Nat → Rng → List Val × Rng
  | 0, r => ([], r)
  | k + 1, r => let (fs, r) := genBs ls r; let (vs, r) := genTuples ls k r; (.tuple fs :: vs, r)

/-- an update mask on the wire: 1 .. maxLen+1 blocks with a few set bits each, the TYPE field (index 2) present and naming an object kind -/
def genUpdateMask (ctx : GenCtx) (r : Rng) : Val × Rng :=
  let (nb, r) := r.below (ctx.maxLen + 1)
  let rec blocks : Nat → Rng → List Nat × Rng
    | 0, r => ([], r)
    | k + 1, r =>
      let (mode, r) := r.below 4
      let (a, r) := r.below 32
      let (b, r) := r.below 32
      let (c, r) := r.below 4294967296
      let m := if mode == 0 then 0 else if mode == 1 then 2 ^ a else if mode == 2 then 2 ^ a ||| 2 ^ b else c &&& 0x80010081
      let (ms, r) := blocks k r
      (m :: ms, r)
  let (first, r) := r.below 8
  let m0 := 4 ||| (first % 4) ||| (if first ≥ 4 then 2 ^ 31 else 0)      -- TYPE present; GUID words and the top bit sometimes
  let (rest, r) := blocks nb r
  let masks := m0 :: rest
  let total := (masks.map popc32).sum
  let rec vals : Nat → Rng → List Val × Rng
    | 0, r => ([], r)
    | k + 1, r => let (x, r) := r.below 4294967296; let (vs, r) := vals k r; (.nat x :: vs, r)
  let (vs, r) := vals total r
  let (ti, r) := r.below 7
  let ty := [3, 7, 9, 25, 33, 65, 129].getD ti 3
  let idx := (m0 % 2) + (m0 / 2) % 2
  let vs := vs.zipIdx.map fun (v, i) => if i == idx then Val.nat ty else v
  (.tuple [.list (masks.map Val.nat), .list vs], r)

/-- mask slots: empty, full, a single slot (first / last / random) or a random selection -/
def genSlots (elem : Rng → Val × Rng) (n : Nat) (r : Rng) : Val × Rng :=
  let (mode, r) := r.below 6
  let (pick, r) := r.below n
  let rec go : Nat → Nat → Rng → List Val × Rng
    | 0, _, r => ([], r)
    | k + 1, i, r =>
      let (c, r) := r.below 3
      let present := match mode with
        | 0 => false
        | 1 => true
        | 2 => i == pick
        | 3 => i == 0 || i + 1 == n
        | _ => c == 0
      let (e, r) := if present then (let (v, r) := elem r; (Val.list [v], r)) else (Val.list [], r)
      let (vs, r) := go k (i + 1) r
      (e :: vs, r)
  let (vs, r) := go n 0 r
  (.list vs, r)

def genGear (r : Rng) : Val × Rng :=
  let (item, r) := genB .u32 r
  let (em, r) := genSlots (fun r => let (fs, r) := genBs [.u16] r; (.tuple fs, r)) 16 r
  let (fs, r) := genBs gearTail r
  (.tuple (.nat item :: em :: fs), r)

/-- one character of generated text: mostly ASCII letters, now and then a 2- or 3-byte UTF-8 sequence (é, Ж, €) — byte length ≠ character count -/
def genChar (x : Nat) : Bytes :=
  if x < 26 then [UInt8.ofNat (97 + x)]
  else if x == 26 then [0xC3, 0xA9]
  else if x == 27 then [0xD0, 0x96]
  else [0xE2, 0x82, 0xAC]

def genName (r : Rng) : Bytes × Rng :=
  let (n, r) := r.below 12
  let rec go : Nat → Rng → Bytes × Rng
    | 0, r => ([], r)
    | k + 1, r => let (c, r) := r.below 29; let (bs, r) := go k r; (genChar c ++ bs, r)
  go n r

def genPrim (ctx : GenCtx) (name : String) (r : Rng) : Option (Val × Rng) :=
  match primKind name with
  | .achDone => let (k, r) := r.below (ctx.maxLen + 1); let (vs, r) := genSent achDoneFields k r; some (.list vs, r)
  | .achProg => let (k, r) := r.below (ctx.maxLen + 1); let (vs, r) := genSent achProgFields k r; some (.list vs, r)
  | .splines =>
      let (k, r) := r.below (ctx.maxLen + 2)
      match k with
      | 0 => some (.list [], r)
      | k + 1 =>
        let (p, r) := genBs [.u32, .u32, .u32] r
        let (ps, r) := genTuples [.u32] k r
        -- packed points are generated as whole units: the library's reader drops the quarter-unit bits of every component (known finding
        -- C01/spline/packed-point-quarter-units-lost, demonstrated separately by checks/c01.py)
        let ps := ps.map fun v => match v with
          | .tuple [.nat n] => .tuple [.nat (n &&& 0xFF3FE7FC)]
          | v => v
        some (.list (.tuple p :: ps), r)
  | .updateMask => some (genUpdateMask ctx r)
  | .mask w ls => some (genSlots (fun r => let (fs, r) := genBs ls r; (.tuple fs, r)) (8 * w) r)
  | .gear => some (genSlots genGear 32 r)
  | .namedGuid =>
      let (c, r) := r.below 3
      if c == 0 then some (.tuple [.nat 0], r) else
      let (g, r) := r.below (256 ^ 8 - 1)
      let (s, r) := genName r
      some (.tuple [.nat (g + 1), .bytes s], r)
  | .virp =>
      let (c, r) := r.below 3
      if c == 0 then some (.tuple [.nat 0], r) else
      let (id, r) := r.below 4294967295
      let (sf, r) := genB .u32 r
      some (.tuple [.nat (id + 1), .nat sf], r)
  | .other => none

def genLeaf (ctx : GenCtx) (id : Nat) (l : Leaf) (r : Rng) : Option (Val × Rng) :=
  let interesting := (ctx.conds.filter (·.1 == id)).flatMap (·.2)
  match l with
  | .int k _ =>
      let bound := 256 ^ k
      if ctx.lens.contains id && ctx.maxLen ≥ 1000 then
        -- exact mode: `maxLen = 1000 + L` asks for arrays of exactly L elements (as far as the count field can say so)
        some (.nat (min (bound - 1) (ctx.maxLen - 1000)), r)
      else if ctx.lens.contains id then
        let (c, r) := r.below 8
        let (n, r) := if c == 0 then r.below (min bound 40) else r.below (min bound (ctx.maxLen + 1))
        some (.nat n, r)
      else if !interesting.isEmpty then
        -- flag-like steering variable: none, one mask, union of some masks, everything
        let masks := interesting.eraseDups
        let nopt := masks.length + 2
        let directed := r.sample < 2 * nopt
        let k := (r.sample + r.steerSeen) % nopt
        let r := { r with steerSeen := r.steerSeen + 1 }
        let (c, r) := if directed then ((if k == 0 then 0 else if k == nopt - 1 then 3 else 1), r) else r.below 6
        let (i, r) := if directed then (k - 1, r) else r.below interesting.length
        let interesting := if directed then masks else interesting
        let (j, r) := r.below interesting.length
        let all := interesting.foldl (· ||| ·) 0
        let v := match c with
          | 0 => 0
          | 1 => interesting.getD i 0
          | 2 => interesting.getD i 0 ||| interesting.getD j 0
          | 3 => all
          | 4 => bound - 1
          | _ => interesting.getD i 0 + 0
        let (x, r) := r.below bound
        some (.nat (if c == 5 then x else v % bound), r)
      else
        let (c, r) := r.below 10
        let (x, r) := r.below bound
        some (.nat (if c == 0 then 0 else if c == 1 then bound - 1 else if c == 2 then x % 256 else x), r)
  | .bool _ => let (x, r) := r.below 2; some (.nat x, r)
  | .enumT k _ vals =>
      if vals.isEmpty then none else
      let steer := (interesting.filter vals.contains).eraseDups
      let others := vals.filter (fun v => !steer.contains v)
      -- directed: sample k takes the k-th compared value (then one value that no condition mentions), later samples are random
      let opts := steer ++ others.take 1
      -- sweep mode (500000 ≤ sample < 1000000): every enum field takes its ((sample - 500000) mod n)-th enumerator, so that a run of
      -- n samples visits every declared enumerator of every enum
      let pool := if 500000 ≤ r.sample && r.sample < 1000000 then [vals.getD ((r.sample - 500000) % vals.length) 0]
        else if interesting.isEmpty then vals
        else if r.sample < 2 * opts.length then [opts.getD ((r.sample + r.steerSeen) % opts.length) 0]
        else steer ++ vals
      let r := if interesting.isEmpty then r else { r with steerSeen := r.steerSeen + 1 }
      let (i, r) := r.below pool.length
      let idx := r.enumSeen
      let r := { r with enumSeen := idx + 1 }
      if idx == r.corruptAt then
        -- an undeclared number at the full wire width: aliases of a declared value modulo 2^8 / 2^16, neighbours, the maximum
        let bound := 256 ^ k
        let d := pool.getD i 0
        let cands : List Nat := match r.corruptMode % 4 with
          | 0 => [d + 256, d + 65536, d + 256 * 255]
          | 1 => [d + 65536, d + 16777216, d + 256]
          | 2 => [bound - 1, bound - 2, bound / 2]
          | _ => (List.range 300).map (· + 1)
        let cands := cands ++ (List.range 300).map (fun j => (d + j + 1) % bound)
        match cands.find? (fun c => c < bound && !vals.contains c) with
        | some c => some (.nat c, { r with bad := some (c, k) })
        | none => some (.nat (pool.getD i 0), r)          -- every number of this width is declared
      else some (.nat (pool.getD i 0), r)
  | .lvl _ => let (x, r) := r.below 256; some (.nat x, r)
  | .dateTime =>
      let (y, r) := r.below 256
      let (m, r) := r.below 12
      let leap := (2000 + y) % 4 == 0 && ((2000 + y) % 100 != 0 || (2000 + y) % 400 == 0)
      let dim := if m == 1 then (if leap then 29 else 28) else if m == 3 || m == 5 || m == 8 || m == 10 then 30 else 31
      let (d, r) := r.below dim
      let (h, r) := r.below 24
      let (mi, r) := r.below 60
      let w := weekdayFor y m d
      some (.nat (y * 16777216 + m * 1048576 + d * 16384 + w * 2048 + h * 64 + mi), r)
  | .cstring | .sizedCString | .string =>
      let (n, r) := r.below (min 9 (ctx.maxLen * 2 + 1))
      let (bs, r) := (List.range n).foldl (fun (acc : Bytes × Rng) _ =>
        let (x, r) := acc.2.below 29; (genChar x ++ acc.1, r)) ([], r)
      some (.bytes bs, r)
  | .packedGuid =>
      let (x, r) := r.below (256 ^ 8)
      let (m, r) := r.below 256
      -- clear the bytes selected by m so that every mask shape occurs
      let bytes := (encLE 8 x).zipIdx.map fun (b, i) => if (m / 2 ^ i) % 2 == 1 then 0 else b
      some (.nat (decLE bytes), r)
  | .prim n => genPrim ctx n r

mutual
partial def genTy (ctx : GenCtx) (id : Nat) (t : Ty) (env : Env) (r : Rng) : Option (Val × Rng) :=
  match t with
  | .leaf l => genLeaf ctx id l r
  | .struct ms =>
      let ctx' : GenCtx := { lens := lenVars ms, conds := condVals ms, maxLen := if ctx.maxLen ≥ 1000 then 2 else ctx.maxLen }
      (genMembers ctx' ms [] r).map fun (vs, _, r) => (.tuple vs, r)
  | .arrFixed n t => (genList ctx id t env n r).map fun (vs, r) => (.list vs, r)
  | .arrVar v t => match env.get v with
      | none => none
      | some n => (genList ctx id t env n r).map fun (vs, r) => (.list vs, r)

partial def genList (ctx : GenCtx) (id : Nat) (t : Ty) (env : Env) : Nat → Rng → Option (List Val × Rng)
  | 0, r => some ([], r)
  | n + 1, r => do
      let (v, r) ← genTy ctx id t env r
      let (vs, r) ← genList ctx id t env n r
      pure (v :: vs, r)

partial def genMembers (ctx : GenCtx) : Members → Env → Rng → Option (List Val × Env × Rng)
  | .nil, env, r => some ([], env, r)
  | .cons (.field id .selfSize t) ms, env, r => do
      let (vs, env', r) ← genMembers ctx ms env r
      let (b, _) ← encMembers ms env vs
      pure (.nat b.length :: vs, env', r)
  | .cons (.field id (.const c) _) ms, env, r => do
      let (vs, env', r) ← genMembers ctx ms (env.bind id (.nat c)) r
      pure (.nat c :: vs, env', r)
  | .cons (.field id .plain t) ms, env, r => do
      let (v, r) ← genTy ctx id t env r
      let (vs, env', r) ← genMembers ctx ms (env.bind id v) r
      pure (v :: vs, env', r)
  | .cons (.ifs var bs) ms, env, r => do
      let x ← env.get var
      let (bv, env1, r) ← genBranches ctx bs x env r
      let (vs, env', r) ← genMembers ctx ms env1 r
      pure (.tuple bv :: vs, env', r)
  | .cons (.endless id t) ms, env, r => do
      let (n, r) := r.below (ctx.maxLen + 1)
      let (l, r) ← genList ctx id t env n r
      let (vs, env', r) ← genMembers ctx ms env r
      pure (.list l :: vs, env', r)
  | .cons (.optional inner) ms, env, r => do
      let (c, r) := r.below 3
      if c == 0 then
        let (vs, env', r) ← genMembers ctx ms env r
        pure (.none :: vs, env', r)
      else
        let (iv, env1, r) ← genMembers ctx inner env r
        let (vs, env', r) ← genMembers ctx ms env1 r
        -- an optional that encodes to nothing is indistinguishable from an absent one
        match encMembers inner env iv with
        | some ([], _) => pure (.none :: vs, env', r)
        | _ => pure (.tuple iv :: vs, env', r)

partial def genBranches (ctx : GenCtx) : Branches → Nat → Env → Rng → Option (List Val × Env × Rng)
  | .els ms, _, env, r => genMembers ctx ms env r
  | .cons c ms bs, x, env, r => if c.holds x then genMembers ctx ms env r else genBranches ctx bs x env r
end

def genContainer (c : Members) (seed : Nat) (maxLen : Nat := 4) (sample : Nat := 1000000) : Option (List Val) :=
  let ctx : GenCtx := { lens := lenVars c, conds := condVals c, maxLen := maxLen }
  (genMembers ctx c [] { s := UInt64.ofNat seed, sample := sample }).map (·.1)

/-- a value in which the `at_`-th enum field (generation order) carries an undeclared number -/
def genCorrupt (c : Members) (seed at_ mode : Nat) : Option (List Val × Option (Nat × Nat)) :=
  let ctx : GenCtx := { lens := lenVars c, conds := condVals c, maxLen := 3 }
  (genMembers ctx c [] { s := UInt64.ofNat seed, corruptAt := at_, corruptMode := mode }).map fun (vs, _, r) => (vs, r.bad)

-- the same container with enum membership not enforced (used only to WRITE corrupted encodings)
mutual
partial def loosenTy : Ty → Ty
  | .leaf (.enumT k e _) => .leaf (.int k e)
  | .leaf l => .leaf l
  | .struct ms => .struct (loosenMs ms)
  | .arrFixed n t => .arrFixed n (loosenTy t)
  | .arrVar v t => .arrVar v (loosenTy t)
partial def loosenMs : Members → Members
  | .nil => .nil
  | .cons (.field id role t) ms => .cons (.field id role (loosenTy t)) (loosenMs ms)
  | .cons (.ifs v bs) ms => .cons (.ifs v (loosenB bs)) (loosenMs ms)
  | .cons (.endless id t) ms => .cons (.endless id (loosenTy t)) (loosenMs ms)
  | .cons (.optional i) ms => .cons (.optional (loosenMs i)) (loosenMs ms)
partial def loosenB : Branches → Branches
  | .els ms => .els (loosenMs ms)
  | .cons c ms bs => .cons c (loosenMs ms) (loosenB bs)
end

/-- the first unsupported built-in a container mentions -/
partial def firstPrim : Members → Option String
  | .nil => none
  | .cons m ms =>
    let rec tyPrim : Ty → Option String
      | .leaf (.prim n) => if primKind n == .other then some n else none     -- the other built-in kinds have a codec inside the semantics
      | .leaf _ => none
      | .struct ms => firstPrim ms
      | .arrFixed _ t => tyPrim t
      | .arrVar _ t => tyPrim t
    let rec brPrim : Branches → Option String
      | .els ms => firstPrim ms
      | .cons _ ms bs => (firstPrim ms).orElse fun _ => brPrim bs
    let here := match m with
      | .field _ _ t => tyPrim t
      | .ifs _ bs => brPrim bs
      | .endless _ t => tyPrim t
      | .optional i => firstPrim i
    here.orElse fun _ => firstPrim ms

end WowVerif.Sem
