/-
The typed `expect_*_message` helpers (helper/*/expected.rs): read the header, read exactly the announced body, THEN compare the
opcode with the expected message's.  A message of another type is therefore consumed whole and reported as an opcode error.
-/
import WowVerif.Model.Frame
namespace WowVerif.Frame

inductive Expected where
  | got (body : Bytes)                 -- the expected message: its body goes to the typed body reader
  | other (opcode size : Nat)          -- `ExpectedOpcodeError::Opcode { opcode, size }` (size = opcode + body bytes)
  deriving Repr, DecidableEq

/-- one call of a typed expect helper for the message with opcode `want` -/
def expectFrame (want : Nat) (e : Exp) (d : Dir) (bs : Bytes) : Except RErr (Expected × Bytes) :=
  match readFrame .expect e d bs with
  | .error x => .error x
  | .ok ((op, body), rest) =>
    if op = want then .ok (.got body, rest) else .ok (.other op (body.length + opcodeLen d), rest)

/-- a session that asks for the opcodes `wants`, one call per message -/
def expectN (e : Exp) (d : Dir) : List Nat → Bytes → Except RErr (List Expected × Bytes)
  | [], bs => .ok ([], bs)
  | w :: ws, bs =>
    match expectFrame w e d bs with
    | .error x => .error x
    | .ok (r, rest) =>
      match expectN e d ws rest with
      | .error x => .error x
      | .ok (rs, rest') => .ok (r :: rs, rest')

/-- what each call must answer -/
def expectedOf (d : Dir) (want : Nat) (m : Nat × Bytes) : Expected :=
  if m.1 = want then .got m.2 else .other m.1 (m.2.length + opcodeLen d)

end WowVerif.Frame
