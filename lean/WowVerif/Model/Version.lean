/-
Model of the version algebra of wow_message_parser/src/parser/types/version.rs: `WorldVersion::covers` / `overlaps`
transcribed case by case, and the denotation of a version as a set of client builds.
-/
namespace WowVerif.Version

inductive WorldVersion where
  | major (m : Nat)
  | minor (m i : Nat)
  | patch (m i p : Nat)
  | exact (m i p e : Nat)
  | all
  deriving Repr, DecidableEq, Inhabited

/-- `self.covers(other)` -/
def covers (self other : WorldVersion) : Bool :=
  match other with
  | .major om => match self with
      | .major m => m == om
      | .minor _ _ => false
      | .patch _ _ _ => false
      | .exact _ _ _ _ => false
      | .all => true
  | .minor om oi => match self with
      | .major m => m == om
      | .minor m i => m == om && i == oi
      | .patch _ _ _ => false
      | .exact _ _ _ _ => false
      | .all => true
  | .patch om oi op => match self with
      | .major m => m == om
      | .minor m i => m == om && i == oi
      | .patch m i p => m == om && i == oi && p == op
      | .exact _ _ _ _ => false
      | .all => true
  | .exact om oi op oe => match self with
      | .major m => m == om
      | .minor m i => m == om && i == oi
      | .patch m i p => m == om && i == oi && p == op
      | .exact m i p e => m == om && i == oi && p == op && e == oe
      | .all => true
  | .all => match self with
      | .all => true
      | _ => false

/-- `self.overlaps(other)` -/
def overlaps (self other : WorldVersion) : Bool :=
  match self with
  | .major m => match other with
      | .major om | .minor om _ | .patch om _ _ | .exact om _ _ _ => m == om
      | .all => true
  | .minor m i => match other with
      | .major om => om == m
      | .minor om oi => om == m && oi == i
      | .patch om oi _ => om == m && oi == i
      | .exact om oi _ _ => om == m && oi == i
      | .all => true
  | .patch m i p => match other with
      | .major om => om == m
      | .minor om oi => om == m && oi == i
      | .patch om oi op => om == m && oi == i && op == p
      | .exact om oi op _ => om == m && oi == i && op == p
      | .all => true
  | .exact m i p e => match other with
      | .major om => om == m
      | .minor om oi => om == m && oi == i
      | .patch om oi op => om == m && oi == i && op == p
      | .exact om oi op oe => om == m && oi == i && op == p && oe == e
      | .all => true
  | .all => true

/-- a version denotes all client builds (major, minor, patch, build) it is a prefix of -/
def comps : WorldVersion → List Nat
  | .major m => [m]
  | .minor m i => [m, i]
  | .patch m i p => [m, i, p]
  | .exact m i p e => [m, i, p, e]
  | .all => []

def denotes (v : WorldVersion) (build : List Nat) : Prop := comps v <+: build

end WowVerif.Version
