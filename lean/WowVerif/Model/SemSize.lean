/-
Sizes of containers under the specification semantics: `fixedSize` (constant-sized containers), and interval bounds
`bounds` (minimum / maximum body length over the whole conditional structure) — C04 (fixed-size rejection), C09.
-/
import WowVerif.Model.Sem
namespace WowVerif.Sem

/-- published per-type limits (wow_message_parser/src/parser/types/sizes.rs; re-read and compared by the check) -/
structure Limits where
  cstringMax : Nat := 256          -- including the terminator
  sizedCStringMax : Nat := 8004    -- 4 + 8000
  stringMax : Nat := 256           -- 1 + 255
  endlessMax : Nat := 65535        -- bytes taken by an endless array (whole body limit)
  deriving Repr, Inhabited

def leafFixed : Leaf → Option Nat
  | .int k _ => some k
  | .bool k => some k
  | .enumT k _ _ => some k
  | .lvl k => some k
  | .dateTime => some 4
  | _ => none

def optAdd : Option Nat → Option Nat → Option Nat
  | some a, some b => some (a + b)
  | _, _ => none

mutual
/-- `some n` iff every encoding of the type has exactly `n` bytes (syntactic criterion) -/
def fixedTy : Ty → Option Nat
  | .leaf l => leafFixed l
  | .struct ms => fixedMs ms
  | .arrFixed n t => (fixedTy t).map (n * ·)
  | .arrVar _ _ => none
def fixedM : Member → Option Nat
  | .field _ _ t => fixedTy t
  | .ifs _ bs => fixedB bs
  | .endless _ _ => none
  | .optional _ => none
/-- all arms (including the else arm) have the same fixed size -/
def fixedB : Branches → Option Nat
  | .els ms => fixedMs ms
  | .cons _ ms bs => match fixedMs ms, fixedB bs with
      | some a, some b => if a = b then some a else none
      | _, _ => none
def fixedMs : Members → Option Nat
  | .nil => some 0
  | .cons m ms => optAdd (fixedM m) (fixedMs ms)
end

/-! ## bounds (C09): interval arithmetic over the whole conditional structure -/

/-- `hi = none` means unbounded by the definition (endless arrays, counted arrays with a wide count) -/
structure Bounds where
  lo : Nat
  hi : Option Nat
  deriving Repr, DecidableEq, Inhabited

def optAddHi : Option Nat → Option Nat → Option Nat
  | some a, some b => some (a + b)
  | _, _ => none
def optMaxHi : Option Nat → Option Nat → Option Nat
  | some a, some b => some (max a b)
  | _, _ => none
def optMulHi (n : Option Nat) (h : Option Nat) : Option Nat :=
  match n, h with
  | some 0, _ => some 0
  | _, some 0 => some 0
  | some a, some b => some (a * b)
  | _, _ => none

def Bounds.add (a b : Bounds) : Bounds := ⟨a.lo + b.lo, optAddHi a.hi b.hi⟩
def Bounds.join (a b : Bounds) : Bounds := ⟨min a.lo b.lo, optMaxHi a.hi b.hi⟩
def Bounds.zero : Bounds := ⟨0, some 0⟩

/-- extremal lengths of the built-in types handled outside the generic semantics, from their hand-written codecs
(`wow_world_messages/src/manual/**`, `util/functions/shared.rs`): a mask of `m` bytes followed by one payload per set slot;
a spline list is a u32 count, a full first point and packed further points; `hi = none` where the maximum is not modelled -/
def bleafMax : List BLeaf → Nat
  | [] => 0
  | .u8 :: ls => 1 + bleafMax ls
  | .u16 :: ls => 2 + bleafMax ls
  | .pg :: ls => 9 + bleafMax ls
  | _ :: ls => 4 + bleafMax ls

def primBounds (n : String) : Bounds :=
  match primKind n with
  | .achDone => ⟨4, none⟩
  | .achProg => ⟨4, none⟩
  | .splines => ⟨4, none⟩
  | .updateMask => ⟨9, none⟩
  | .mask w ls => ⟨w, some (w + 8 * w * bleafMax ls)⟩
  | .gear => ⟨4, none⟩
  | .namedGuid => ⟨8, some (8 + 256)⟩
  | .virp => ⟨4, some 8⟩
  | .other => ⟨0, none⟩

def leafBounds (L : Limits) : Leaf → Bounds
  | .int k _ => ⟨k, some k⟩
  | .bool k => ⟨k, some k⟩
  | .enumT k _ _ => ⟨k, some k⟩
  | .lvl k => ⟨k, some k⟩
  | .dateTime => ⟨4, some 4⟩
  | .cstring => ⟨1, some L.cstringMax⟩
  | .sizedCString => ⟨5, some L.sizedCStringMax⟩
  | .string => ⟨1, some L.stringMax⟩
  | .packedGuid => ⟨1, some 9⟩
  | .prim n => primBounds n

/-- static environment: largest value a scalar field can carry (`256^k - 1`) -/
abbrev SEnv := List (Nat × Nat)

def leafMax : Leaf → Option Nat
  | .int k _ => some (256 ^ k - 1)
  | .lvl _ => some 255
  | .bool _ => some 1
  | .enumT _ _ vals => some (vals.foldl max 0)
  | .dateTime => some 4294967295
  | .packedGuid => some (256 ^ 8 - 1)
  | _ => none

mutual
/-- ids of the fields a member list binds (at its own level and inside conditional arms / optionals) -/
def idsM : Member → List Nat
  | .field id _ _ => [id]
  | .ifs _ bs => idsB bs
  | .endless _ _ => []
  | .optional ms => idsMs ms
def idsB : Branches → List Nat
  | .els ms => idsMs ms
  | .cons _ ms bs => idsMs ms ++ idsB bs
def idsMs : Members → List Nat
  | .nil => []
  | .cons m ms => idsM m ++ idsMs ms
end

/-- forget what is known about ids that a conditional arm may have re-bound -/
def SEnv.forget (se : SEnv) (ids : List Nat) : SEnv := se.filter fun p => !ids.contains p.1

mutual
def boundsTy (L : Limits) : Ty → SEnv → Bounds
  | .leaf l, _ => leafBounds L l
  | .struct ms, _ => boundsMs L ms []
  | .arrFixed n t, se => let b := boundsTy L t se; ⟨n * b.lo, optMulHi (some n) b.hi⟩
  | .arrVar v t, se => let b := boundsTy L t se; ⟨0, optMulHi (se.lookup v) b.hi⟩

def boundsM (L : Limits) : Member → SEnv → Bounds × SEnv
  | .field id _ t, se =>
      let se' := match t with
        | .leaf l => (match leafMax l with | some m => (id, m) :: se | none => se)
        | _ => se
      (boundsTy L t se, se')
  | .ifs _ bs, se => (boundsB L bs se, se.forget (idsB bs))
  | .endless _ _, se => (⟨0, some L.endlessMax⟩, se)      -- the published limit of an endless array (u16::MAX bytes)
  | .optional ms, se => (⟨0, (boundsMs L ms se).hi⟩, se.forget (idsMs ms))

def boundsB (L : Limits) : Branches → SEnv → Bounds
  | .els ms, se => boundsMs L ms se
  | .cons _ ms bs, se => (boundsMs L ms se).join (boundsB L bs se)

def boundsMs (L : Limits) : Members → SEnv → Bounds
  | .nil, _ => Bounds.zero
  | .cons m ms, se => let (b, se') := boundsM L m se; b.add (boundsMs L ms se')
end

def bounds (L : Limits) (c : Members) : Bounds := boundsMs L c []

/-! ## the read expression the printer emits for an enum member -/
inductive ReadExpr where
  | direct (wire : Nat)                   -- `read_uW(..)?.try_into()?`           (TryFrom<uW> for the enum)
  | castThenTry (wire base : Nat)         -- `(read_uW(..)? as uB).try_into()?`   (narrowing `as` cast first)
  | unknown
  deriving Repr, DecidableEq, Inhabited

/-- outcome of reading the wire number `n` (given `n < 256^wire`): the enumerator value or the reported number -/
def evalRead (vals : List Nat) : ReadExpr → Nat → Except Nat Nat
  | .direct _, n => if vals.contains n then .ok n else .error n
  | .castThenTry _ base, n => let m := n % 256 ^ base; if vals.contains m then .ok m else .error m
  | .unknown, n => .ok n

def enumReadOk (wire : Nat) : ReadExpr → Bool
  | .direct w => w == wire
  | .castThenTry w b => w == wire && decide (wire ≤ b)
  | .unknown => false


end WowVerif.Sem
