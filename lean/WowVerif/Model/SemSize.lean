/-
Sizes of containers under the specification semantics: `fixedSize` (constant-sized containers), and interval bounds
`bounds` (minimum / maximum body length over the whole conditional structure) — C04 (fixed-size rejection), C09.
-/
import WowVerif.Model.Sem
namespace WowVerif.Sem

/-- published per-type limits (wow_message_parser/src/parser/types/sizes.rs; re-read and compared by the check) -/
structure Limits where
  cstringMax : Nat := 256          -- including the terminator
  sizedCStringMax : Nat := 8004    -- 4 + 8000
  stringMax : Nat := 256           -- 1 + 255
  endlessMax : Nat := 65535        -- bytes taken by an endless array (whole body limit)
  deriving Repr, Inhabited

def leafFixed : Leaf → Option Nat
  | .int k _ => some k
  | .bool k => some k
  | .enumT k _ _ => some k
  | .lvl k => some k
  | .dateTime => some 4
  | _ => none

def optAdd : Option Nat → Option Nat → Option Nat
  | some a, some b => some (a + b)
  | _, _ => none

mutual
/-- `some n` iff every encoding of the type has exactly `n` bytes (syntactic criterion) -/
def fixedTy : Ty → Option Nat
  | .leaf l => leafFixed l
  | .struct ms => fixedMs ms
  | .arrFixed n t => (fixedTy t).map (n * ·)
  | .arrVar _ _ => none
def fixedM : Member → Option Nat
  | .field _ _ t => fixedTy t
  | .ifs _ bs => fixedB bs
  | .endless _ _ => none
  | .optional _ => none
/-- all arms (including the else arm) have the same fixed size -/
def fixedB : Branches → Option Nat
  | .els ms => fixedMs ms
  | .cons _ ms bs => match fixedMs ms, fixedB bs with
      | some a, some b => if a = b then some a else none
      | _, _ => none
def fixedMs : Members → Option Nat
  | .nil => some 0
  | .cons m ms => optAdd (fixedM m) (fixedMs ms)
end

/-! ## bounds (C09) -/
structure Bounds where
  lo : Nat
  hi : Nat
  deriving Repr, DecidableEq, Inhabited

def Bounds.add (a b : Bounds) : Bounds := ⟨a.lo + b.lo, a.hi + b.hi⟩
def Bounds.join (a b : Bounds) : Bounds := ⟨min a.lo b.lo, max a.hi b.hi⟩
def Bounds.scale (n : Nat) (a : Bounds) : Bounds := ⟨n * a.lo, n * a.hi⟩

def leafBounds (L : Limits) : Leaf → Bounds
  | .int k _ => ⟨k, k⟩
  | .bool k => ⟨k, k⟩
  | .enumT k _ _ => ⟨k, k⟩
  | .lvl k => ⟨k, k⟩
  | .dateTime => ⟨4, 4⟩
  | .cstring => ⟨1, L.cstringMax⟩
  | .sizedCString => ⟨5, L.sizedCStringMax⟩
  | .string => ⟨1, L.stringMax⟩
  | .packedGuid => ⟨1, 9⟩
  | .prim _ => ⟨0, 0⟩

/-! ## the read expression the printer emits for an enum member -/
inductive ReadExpr where
  | direct (wire : Nat)                   -- `read_uW(..)?.try_into()?`           (TryFrom<uW> for the enum)
  | castThenTry (wire base : Nat)         -- `(read_uW(..)? as uB).try_into()?`   (narrowing `as` cast first)
  | unknown
  deriving Repr, DecidableEq, Inhabited

/-- outcome of reading the wire number `n` (given `n < 256^wire`): the enumerator value or the reported number -/
def evalRead (vals : List Nat) : ReadExpr → Nat → Except Nat Nat
  | .direct _, n => if vals.contains n then .ok n else .error n
  | .castThenTry _ base, n => let m := n % 256 ^ base; if vals.contains m then .ok m else .error m
  | .unknown, n => .ok n

def enumReadOk (wire : Nat) : ReadExpr → Bool
  | .direct w => w == wire
  | .castThenTry w b => w == wire && decide (wire ≤ b)
  | .unknown => false


end WowVerif.Sem
