/-
Decoders as scripts over `read_exact` (C06): a decoder either finishes, fails, or asks for exactly `n` more bytes and
continues with them.  The blocking readers run a script on a whole buffer; the tokio / async-std readers run the SAME
script (their generated text differs only in `tokio_` / `astd_` prefixes and `.await`) over a transport that delivers the
bytes in arbitrary chunks with `Pending` in between — `read_exact` accumulates until it has `n` bytes or the stream ends.
-/
import WowVerif.Model.Bytes
namespace WowVerif.Chunk

inductive RErr where
  | unexpectedEof
  | other (code : Nat)
  deriving Repr, DecidableEq

inductive Dec (α : Type) where
  | done (a : α)
  | fail (e : RErr)
  | need (n : Nat) (k : Bytes → Dec α)

/-- blocking variant: the whole input is available -/
def runWhole {α} : Dec α → Bytes → Except RErr (α × Bytes)
  | .done a, bs => .ok (a, bs)
  | .fail e, _ => .error e
  | .need n k, bs => if n ≤ bs.length then runWhole (k (bs.take n)) (bs.drop n) else .error .unexpectedEof

/-- a delivery schedule: chunks of bytes with `none` = the transport returned `Pending` -/
abbrev Schedule := List (Option Bytes)

def flatten : Schedule → Bytes
  | [] => []
  | none :: r => flatten r
  | some c :: r => c ++ flatten r

/-- `read_exact(n)` over a schedule with `buf` already received: poll until `n` bytes are there or the stream ends -/
def fill (buf : Bytes) : Schedule → Nat → Option (Bytes × Bytes × Schedule)
  | cs, n =>
    if n ≤ buf.length then some (buf.take n, buf.drop n, cs)
    else match cs with
      | [] => none
      | none :: r => fill buf r n
      | some c :: r => fill (buf ++ c) r n

/-- async variant -/
def runChunked {α} : Dec α → Bytes → Schedule → Except RErr (α × Bytes)
  | .done a, buf, cs => .ok (a, buf ++ flatten cs)
  | .fail e, _, _ => .error e
  | .need n k, buf, cs =>
    match fill buf cs n with
    | none => .error .unexpectedEof
    | some (t, buf', cs') => runChunked (k t) buf' cs'

end WowVerif.Chunk
