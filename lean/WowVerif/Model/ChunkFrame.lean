/-
The world header/body readers (`read_unencrypted` of the opcode enums, three copies each) as `read_exact` scripts.
Shape of the code: client messages — `read_u16_be`, `read_u32_le`, `read_exact(size - 4)`; server messages of Vanilla/TBC —
`read_u16_be`, `read_u16_le`, `read_exact(size - 2)`; Wrath server messages — `read_exact(4)`, one more byte when the LARGE
bit is set, `read_exact(size - 2)`.
-/
import WowVerif.Model.Chunk
import WowVerif.Model.Frame
namespace WowVerif.Chunk
open WowVerif.Frame (Exp Dir)

def b (h : Bytes) (i : Nat) : Nat := (h.getD i 0).toNat

def frameDec (e : Exp) (d : Dir) : Dec (Nat × Bytes) :=
  match d with
  | .client =>
    .need 2 fun s => .need 4 fun o =>
      .need (b s 0 * 256 + b s 1 - 4) fun body =>
        .done (b o 0 + b o 1 * 256 + b o 2 * 65536 + b o 3 * 16777216, body)
  | .server =>
    if e = .wrath then
      .need 4 fun h =>
        if b h 0 ≥ 128 then
          .need 1 fun l => .need ((b h 0 % 128) * 65536 + b h 1 * 256 + b h 2 - 2) fun body => .done (b h 3 + b l 0 * 256, body)
        else
          .need (b h 0 * 256 + b h 1 - 2) fun body => .done (b h 2 + b h 3 * 256, body)
    else
      .need 2 fun s => .need 2 fun o => .need (b s 0 * 256 + b s 1 - 2) fun body => .done (b o 0 + b o 1 * 256, body)

def mapErr {α} : Except WowVerif.Frame.RErr α → Except RErr α
  | .ok a => .ok a
  | .error _ => .error .unexpectedEof

end WowVerif.Chunk
