/-
The published per-type limits as a decidable predicate on (program, value): strings, sized strings and endless arrays of the value
stay within `Limits`; no built-in type occurs.  Hypothesis of `bounds_hi_sound` (Thm/C09c); evaluated by the driver on generated values.
-/
import WowVerif.Model.SemSize
namespace WowVerif.Sem

/-! ## the limits as a decidable predicate on (program, value) -/

def leafOk (L : Limits) : Leaf → Val → Bool
  | .cstring, .bytes s => decide (s.length + 1 ≤ L.cstringMax)
  | .sizedCString, .bytes s => decide (s.length + 5 ≤ L.sizedCStringMax)
  | .string, .bytes s => decide (s.length + 1 ≤ L.stringMax)
  | .prim _, _ => false
  | _, _ => true

mutual
def okTy (L : Limits) : Ty → Env → Val → Bool
  | .leaf l, _, v => leafOk L l v
  | .struct ms, _, .tuple vs => okMs L ms [] vs
  | .arrFixed _ t, env, .list vs => vs.all (okTy L t env)
  | .arrVar _ t, env, .list vs => vs.all (okTy L t env)
  | _, _, _ => false
def okM (L : Limits) : Member → Env → Val → Bool
  | .field _ _ t, env, v => okTy L t env v
  | .ifs var bs, env, .tuple vs => match env.get var with
      | some x => okB L bs x env vs
      | Option.none => false
  | .endless _ t, env, .list vs => match iterEnc1 (encTy t env) vs with
      | some b => decide (b.length ≤ L.endlessMax)       -- an endless array takes at most the published number of bytes
      | Option.none => false
  | .optional _, _, .none => true
  | .optional ms, env, .tuple vs => okMs L ms env vs
  | _, _, _ => false
def okB (L : Limits) : Branches → Nat → Env → List Val → Bool
  | .els ms, _, env, vs => okMs L ms env vs
  | .cons c ms bs, x, env, vs => if c.holds x then okMs L ms env vs else okB L bs x env vs
def okMs (L : Limits) : Members → Env → List Val → Bool
  | .nil, _, _ => true
  | .cons m ms, env, v :: vs => okM L m env v && (match encMember m env v with
      | some (_, e1) => okMs L ms e1 vs
      | Option.none => false)
  | .cons _ _, _, [] => false
end

/-- strings, sized strings and endless arrays of the value stay within the published limits; no built-in type occurs -/
def WithinLimits (L : Limits) (c : Members) (vs : List Val) : Bool := okMs L c [] vs

end WowVerif.Sem
