/-
Specification semantics of wowm containers ("what the definition says"): closed syntax (structs inlined, definers as
value tables), values, `encode`, `decode`, `size`.  Written independently of wow_message_parser from the language
specification; tools/corpus.py translates the wowm sources into this syntax on every run.

Design for proof (see Thm/C01.lean): syntax is a mutual inductive, values are a nested inductive, all codec functions are
structural recursions on the syntax; arrays go through the non-mutual helpers `iterEnc` / `iterDec`.
-/
import WowVerif.Model.Bytes
namespace WowVerif.Sem

inductive Endian where | le | be
  deriving Repr, DecidableEq, Inhabited

inductive Cond where
  | eq (vals : List Nat)        -- `x == A || x == B`
  | ne (v : Nat)                -- `x != A`
  | band (masks : List Nat)     -- `x & A` (any of the masks intersects)
  deriving Repr, DecidableEq, Inhabited

def Cond.holds (c : Cond) (x : Nat) : Bool :=
  match c with
  | .eq vs => vs.contains x
  | .ne v => x != v
  | .band ms => ms.any (fun m => x &&& m != 0)

inductive Role where
  | plain
  | const (v : Nat)      -- `u32 x = 5;`  — always sent as this value
  | selfSize             -- `u16 size = self.size;` — number of bytes of the enclosing object that follow this field
  deriving Repr, DecidableEq, Inhabited

/-- leaf types (no recursion) -/
inductive Leaf where
  | int (bytes : Nat) (e : Endian)                       -- u8..u64, u48, iN, f32, Guid, Gold, Spell, … : bit-transparent
  | bool (bytes : Nat)                                   -- Bool, Bool32: 0 / 1
  | enumT (bytes : Nat) (e : Endian) (values : List Nat) -- enum (possibly upcast): only declared values
  | lvl (bytes : Nat)                                    -- Level16 / Level32: a u8 level sent wider
  | dateTime
  | cstring | sizedCString | string
  | packedGuid
  | prim (name : String)                                 -- built-ins handled outside the generic semantics
  deriving Repr, DecidableEq, Inhabited

mutual
inductive Ty where
  | leaf (l : Leaf)
  | struct (ms : Members)
  | arrFixed (n : Nat) (t : Ty)
  | arrVar (var : Nat) (t : Ty)
inductive Member where
  | field (id : Nat) (role : Role) (t : Ty)
  | ifs (var : Nat) (bs : Branches)            -- first matching arm wins; the chain ends in the else members
  | endless (id : Nat) (t : Ty)         -- `T[-] xs;`     (tail position only)
  | optional (ms : Members)             -- `optional x {…}` (tail position only)
inductive Members where
  | nil
  | cons (m : Member) (ms : Members)
inductive Branches where
  | els (ms : Members)                          -- `else { … }` (empty member list when there is no else)
  | cons (c : Cond) (ms : Members) (bs : Branches)
end

/-- values; one `Val` per member -/
inductive Val where
  | nat (n : Nat)
  | bytes (bs : Bytes)                -- string payloads
  | tuple (vs : List Val)             -- struct / taken if-branch / present optional
  | list (vs : List Val)              -- arrays
  | none                              -- absent optional
  deriving Repr, Inhabited

abbrev Env := List (Nat × Nat)
def Env.get (env : Env) (id : Nat) : Option Nat := env.lookup id
def Env.bind (env : Env) (id : Nat) (v : Val) : Env :=
  match v with
  | .nat n => (id, n) :: env
  | _ => env

inductive Err where
  | eof
  | enumValue (n : Nat)
  | boolValue (n : Nat)
  | dateTime (n : Nat)
  | level (n : Nat)
  | string
  | noProgress
  | unsupported (what : String)
  | unboundVar (id : Nat)
  | trailing (n : Nat)              -- bytes left over after the last member (world messages: size mismatch)
  deriving Repr, DecidableEq, Inhabited

/-! ## leaves -/

def encInt (k : Nat) (e : Endian) (n : Nat) : Option Bytes :=
  if n < 256 ^ k then some (match e with | .le => encLE k n | .be => encBE k n) else Option.none

def decInt (k : Nat) (e : Endian) (bs : Bytes) : Except Err (Nat × Bytes) :=
  if k ≤ bs.length then .ok ((match e with | .le => decLE (bs.take k) | .be => decBE (bs.take k)), bs.drop k)
  else .error .eof

/-- DateTime validity is C15's business; the codec needs a decidable predicate -/
def dateTimeValid (v : Nat) : Bool :=
  let mi := v % 64
  let h := (v / 64) % 32
  let w := (v / 2048) % 8
  let d := (v / 16384) % 64
  let m := (v / 1048576) % 16
  let y := (v / 16777216) % 256
  let leap := (y + 2000) % 4 == 0 && ((y + 2000) % 100 != 0 || (y + 2000) % 400 == 0)
  let dim := if m == 1 then (if leap then 29 else 28) else if m == 3 || m == 5 || m == 8 || m == 10 then 30 else 31
  let rec daysBeforeYear : Nat → Nat
    | 0 => 0
    | k + 1 => daysBeforeYear k + (if (2000 + k) % 4 == 0 && ((2000 + k) % 100 != 0 || (2000 + k) % 400 == 0) then 366 else 365)
  let rec daysBeforeMonth (leap : Bool) : Nat → Nat
    | 0 => 0
    | k + 1 => daysBeforeMonth leap k + (if k == 1 then (if leap then 29 else 28) else if k == 3 || k == 5 || k == 8 || k == 10 then 30 else 31)
  mi < 60 && h < 24 && m < 12 && d < dim && w == (6 + daysBeforeYear y + daysBeforeMonth leap m + d) % 7

/-- packed guid: mask byte, then the non-zero bytes of the little-endian u64 -/
def packBytes : Bytes → List Bool × Bytes
  | [] => ([], [])
  | b :: bs => let (m, p) := packBytes bs; if b == 0 then (false :: m, p) else (true :: m, b :: p)

def unpackBytes : List Bool → Bytes → Except Err (Bytes × Bytes)
  | [], bs => .ok ([], bs)
  | false :: m, bs => match unpackBytes m bs with
      | .ok (r, rest) => .ok (0 :: r, rest)
      | .error e => .error e
  | true :: m, b :: bs => match unpackBytes m bs with
      | .ok (r, rest) => .ok (b :: r, rest)
      | .error e => .error e
  | true :: _, [] => .error .eof

def bitsToNat : List Bool → Nat
  | [] => 0
  | b :: bs => (if b then 1 else 0) + 2 * bitsToNat bs

def natToBits : Nat → Nat → List Bool
  | 0, _ => []
  | k + 1, n => (n % 2 == 1) :: natToBits k (n / 2)

/-! ## arrays (non-mutual helpers) -/

def iterEnc (f : Val → Option Bytes) : List Val → Option Bytes
  | [] => some []
  | v :: vs => match f v, iterEnc f vs with
      | some b, some bs => some (b ++ bs)
      | _, _ => Option.none

def iterDec (f : Bytes → Except Err (Val × Bytes)) : Nat → Bytes → Except Err (List Val × Bytes)
  | 0, bs => .ok ([], bs)
  | n + 1, bs => match f bs with
      | .error x => .error x
      | .ok (v, r) => match iterDec f n r with
          | .error x => .error x
          | .ok (vs, r') => .ok (v :: vs, r')

/-- decode elements until the input is exhausted; every element must consume at least one byte -/
def iterDecAll (f : Bytes → Except Err (Val × Bytes)) : Nat → Bytes → Except Err (List Val)
  | _, [] => .ok []
  | 0, _ :: _ => .error .noProgress
  | fuel + 1, bs => match f bs with
      | .error x => .error x
      | .ok (v, r) =>
        if r.length < bs.length then
          match iterDecAll f fuel r with
          | .error x => .error x
          | .ok vs => .ok (v :: vs)
        else .error .noProgress

/-- like `iterEnc`, but every element must encode to at least one byte (endless arrays) -/
def iterEnc1 (f : Val → Option Bytes) : List Val → Option Bytes
  | [] => some []
  | v :: vs => match f v, iterEnc1 f vs with
      | some (x :: b), some bs => some ((x :: b) ++ bs)
      | _, _ => Option.none

/-! ## built-in types with a codec inside the semantics

Hand-written in `wow_world_messages/src/util/functions/{shared,wrath}.rs`: the two achievement arrays of Wrath (elements that start with a
u32 id, terminated by the id 0xFFFFFFFF) and `MonsterMoveSplines` (u32 count, a full first point, packed further points).  They are
sequences of four basic fields; everything is built from the integer / packed-guid primitives above, so the leaf codecs below can
dispatch to them.  The other built-in names stay outside (`.other`). -/
/-- basic fields of the built-in element layouts -/
inductive BLeaf where
  | u8
  | u16
  | u32        -- bit-transparent 32-bit value (ids, times, f32 / packed point bit patterns)
  | pg         -- packed guid
  | bool32     -- 0 / 1 sent as u32; any non-zero value reads as 1
  | dt         -- DateTime
  deriving Repr, DecidableEq, Inhabited

inductive PrimKind where
  | achDone | achProg | splines | updateMask
  | mask (w : Nat) (elem : List BLeaf)     -- `w`-byte bit pattern, one fixed-layout element per set bit (AuraMask, EnchantMask, CacheMask)
  | gear                                   -- InspectTalentGearMask: 4-byte pattern, one InspectTalentGear per set bit
  | namedGuid | virp
  | other
  deriving Repr, DecidableEq, Inhabited

def primKind (name : String) : PrimKind :=
  if name = "AchievementDoneArray" then .achDone
  else if name = "AchievementInProgressArray" then .achProg
  else if name = "MonsterMoveSplines" then .splines
  else if name.startsWith "UpdateMask" then .updateMask
  else if name = "AuraMask_1_12" then .mask 4 [.u16]
  else if name = "AuraMask_2_4_3" then .mask 8 [.u16, .u8]
  else if name = "AuraMask_3_3_5" then .mask 8 [.u32, .u8]
  else if name = "EnchantMask" then .mask 2 [.u16]
  else if name = "CacheMask" then .mask 4 [.u32]
  else if name = "InspectTalentGearMask" then .gear
  else if name = "NamedGuid" then .namedGuid
  else if name = "VariableItemRandomProperty" then .virp
  else .other

def sentinelId : Nat := 4294967295

def encB : BLeaf → Nat → Option Bytes
  | .u8, n => encInt 1 .le n
  | .u16, n => encInt 2 .le n
  | .u32, n => encInt 4 .le n
  | .pg, n => if n < 256 ^ 8 then let (m, p) := packBytes (encLE 8 n); some (UInt8.ofNat (bitsToNat m) :: p) else Option.none
  | .bool32, n => if n ≤ 1 then encInt 4 .le n else Option.none
  | .dt, n => if n < 4294967296 ∧ dateTimeValid n then encInt 4 .le n else Option.none

def decB : BLeaf → Bytes → Except Err (Nat × Bytes)
  | .u8, bs => decInt 1 .le bs
  | .u16, bs => decInt 2 .le bs
  | .u32, bs => decInt 4 .le bs
  | .pg, bs => match bs with
      | [] => .error .eof
      | m :: r => match unpackBytes (natToBits 8 m.toNat) r with
          | .ok (g, rest) => .ok (decLE g, rest)
          | .error x => .error x
  | .bool32, bs => match decInt 4 .le bs with
      | .ok (n, r) => .ok ((if n = 0 then 0 else 1), r)
      | .error x => .error x
  | .dt, bs => match decInt 4 .le bs with
      | .ok (n, r) => if dateTimeValid n then .ok (n, r) else .error (.dateTime n)
      | .error x => .error x

/-- a fixed sequence of basic fields; the value is one `.nat` per field -/
def encBs : List BLeaf → List Val → Option Bytes
  | [], [] => some []
  | l :: ls, .nat n :: vs => match encB l n, encBs ls vs with
      | some b, some bs => some (b ++ bs)
      | _, _ => Option.none
  | _, _ => Option.none

def decBs : List BLeaf → Bytes → Except Err (List Val × Bytes)
  | [], bs => .ok ([], bs)
  | l :: ls, bs => match decB l bs with
      | .error x => .error x
      | .ok (n, r) => match decBs ls r with
          | .error x => .error x
          | .ok (vs, r') => .ok (.nat n :: vs, r')

/-- elements `id :: fields`, terminated by the sentinel id -/
def encSent (ls : List BLeaf) : List Val → Option Bytes
  | [] => encInt 4 .le sentinelId
  | .tuple (.nat id :: fs) :: vs =>
      if id < sentinelId then
        match encBs ls fs, encSent ls vs with
        | some b, some bs => some (encLE 4 id ++ b ++ bs)
        | _, _ => Option.none
      else Option.none
  | _ => Option.none

def decSent (ls : List BLeaf) : Nat → Bytes → Except Err (List Val × Bytes)
  | 0, _ => .error .noProgress
  | fuel + 1, bs => match decInt 4 .le bs with
      | .error x => .error x
      | .ok (id, r) =>
        if id = sentinelId then .ok ([], r) else
        match decBs ls r with
        | .error x => .error x
        | .ok (fs, r2) => match decSent ls fuel r2 with
            | .error x => .error x
            | .ok (vs, r3) => .ok (.tuple (.nat id :: fs) :: vs, r3)

def tupleOf (ls : List BLeaf) (v : Val) : Option Bytes :=
  match v with
  | .tuple fs => encBs ls fs
  | _ => Option.none

def decTuple (ls : List BLeaf) (bs : Bytes) : Except Err (Val × Bytes) :=
  match decBs ls bs with
  | .ok (fs, r) => .ok (.tuple fs, r)
  | .error x => .error x

/-- spline list: u32 count; the first point in full (three f32 bit patterns), the others packed into one u32 each -/
def encSplines : List Val → Option Bytes
  | [] => encInt 4 .le 0
  | p :: ps =>
      match encInt 4 .le (ps.length + 1), tupleOf [.u32, .u32, .u32] p, iterEnc (tupleOf [.u32]) ps with
      | some c, some b, some bs => some (c ++ b ++ bs)
      | _, _, _ => Option.none

def decSplines (bs : Bytes) : Except Err (List Val × Bytes) :=
  match decInt 4 .le bs with
  | .error x => .error x
  | .ok (n, r) =>
    match n with
    | 0 => .ok ([], r)
    | k + 1 => match decTuple [.u32, .u32, .u32] r with
        | .error x => .error x
        | .ok (p, r2) => match iterDec (decTuple [.u32]) k r2 with
            | .error x => .error x
            | .ok (ps, r3) => .ok (p :: ps, r3)

/-! update mask (wire form; the typed accessors are C13's subject): u8 number of 32-bit mask blocks, the blocks, then one u32 per set bit
in ascending bit order.  The library's reader needs the object TYPE field (index 2) to be present and to name an object kind. -/
def encU32V : Val → Option Bytes
  | .nat n => encInt 4 .le n
  | _ => Option.none

def decU32V (bs : Bytes) : Except Err (Val × Bytes) :=
  match decInt 4 .le bs with
  | .ok (n, r) => .ok (.nat n, r)
  | .error x => .error x

def popc32 (n : Nat) : Nat := (List.range 32).foldl (fun a i => a + (n / 2 ^ i) % 2) 0

def natOf : Val → Nat
  | .nat n => n
  | _ => 0

def umCount (masks : List Val) : Nat := (masks.map fun v => popc32 (natOf v)).sum

/-- the TYPE field (index 2) is present and names an object kind (item 2, container 4, unit 8, player 16, game object 32, dynamic object 64, corpse 128) -/
def umTypeOk (masks values : List Val) : Bool :=
  match masks with
  | [] => false
  | m0 :: _ =>
    let m := natOf m0
    (m / 4) % 2 == 1 &&
      (match values[(m % 2) + (m / 2) % 2]? with
       | some ty => (natOf ty % 256) / 2 != 0
       | Option.none => false)

def encUpdateMask : Val → Option Bytes
  | .tuple [.list masks, .list values] =>
      if values.length = umCount masks ∧ umTypeOk masks values = true then
        match encInt 1 .le masks.length, iterEnc encU32V masks, iterEnc encU32V values with
        | some c, some mb, some vb => some (c ++ mb ++ vb)
        | _, _, _ => Option.none
      else Option.none
  | _ => Option.none

def decUpdateMask (bs : Bytes) : Except Err (Val × Bytes) :=
  match decInt 1 .le bs with
  | .error x => .error x
  | .ok (n, r) =>
    match iterDec decU32V n r with
    | .error x => .error x
    | .ok (masks, r2) =>
      match iterDec decU32V (umCount masks) r2 with
      | .error x => .error x
      | .ok (values, r3) =>
        if umTypeOk masks values then .ok (.tuple [.list masks, .list values], r3) else .error (.enumValue 0)

/-! mask-indexed optional slots (`wow_world_messages/src/manual/**/{aura,enchant,cache,inspect_talent_gear}_mask.rs`): a little-endian bit
pattern of `w` bytes, then one element per set bit in ascending bit order.  The value is one `.list []` (empty slot) or `.list [e]` per slot. -/
def encSlots (enc : Val → Option Bytes) : List Val → Option (List Bool × Bytes)
  | [] => some ([], [])
  | .list [] :: vs => match encSlots enc vs with
      | some (m, b) => some (false :: m, b)
      | Option.none => Option.none
  | .list [e] :: vs => match enc e, encSlots enc vs with
      | some eb, some (m, b) => some (true :: m, eb ++ b)
      | _, _ => Option.none
  | _ => Option.none

def decSlots (dec : Bytes → Except Err (Val × Bytes)) : List Bool → Bytes → Except Err (List Val × Bytes)
  | [], bs => .ok ([], bs)
  | false :: m, bs => match decSlots dec m bs with
      | .ok (vs, r) => .ok (.list [] :: vs, r)
      | .error x => .error x
  | true :: m, bs => match dec bs with
      | .error x => .error x
      | .ok (e, r) => match decSlots dec m r with
          | .ok (vs, r2) => .ok (.list [e] :: vs, r2)
          | .error x => .error x

def encMask (w : Nat) (enc : Val → Option Bytes) : Val → Option Bytes
  | .list slots =>
      if slots.length = 8 * w then
        match encSlots enc slots with
        | some (m, b) => (encInt w .le (bitsToNat m)).map (· ++ b)
        | Option.none => Option.none
      else Option.none
  | _ => Option.none

def decMask (w : Nat) (dec : Bytes → Except Err (Val × Bytes)) (bs : Bytes) : Except Err (Val × Bytes) :=
  match decInt w .le bs with
  | .error x => .error x
  | .ok (p, r) => match decSlots dec (natToBits (8 * w) p) r with
      | .ok (vs, r2) => .ok (.list vs, r2)
      | .error x => .error x

/-- InspectTalentGear (Wrath): Item (u32), EnchantMask, u16, PackedGuid creator, u32 -/
def gearTail : List BLeaf := [.u16, .pg, .u32]

def encGear : Val → Option Bytes
  | .tuple (.nat item :: em :: fs) =>
      match encB .u32 item, encMask 2 (tupleOf [.u16]) em, encBs gearTail fs with
      | some a, some b, some c => some (a ++ b ++ c)
      | _, _, _ => Option.none
  | _ => Option.none

def decGear (bs : Bytes) : Except Err (Val × Bytes) :=
  match decB .u32 bs with
  | .error x => .error x
  | .ok (item, r) => match decMask 2 (decTuple [.u16]) r with
      | .error x => .error x
      | .ok (em, r2) => match decBs gearTail r2 with
          | .error x => .error x
          | .ok (fs, r3) => .ok (.tuple (.nat item :: em :: fs), r3)

def splitAtZero : Bytes → Option (Bytes × Bytes)
  | [] => Option.none
  | b :: bs => if b == 0 then some ([], bs) else (splitAtZero bs).map fun (s, r) => (b :: s, r)

/-- NamedGuid (TBC, Wrath): u64 guid, followed by a CString name exactly when the guid is not zero -/
def encNamedGuid : Val → Option Bytes
  | .tuple [.nat g] => if g = 0 then encInt 8 .le 0 else Option.none
  | .tuple [.nat g, .bytes s] =>
      if g ≠ 0 ∧ s.contains 0 = false then (encInt 8 .le g).map (· ++ (s ++ [0])) else Option.none
  | _ => Option.none

def decNamedGuid (bs : Bytes) : Except Err (Val × Bytes) :=
  match decInt 8 .le bs with
  | .error x => .error x
  | .ok (g, r) =>
    if g = 0 then .ok (.tuple [.nat g], r) else
    match splitAtZero r with
    | some (s, r2) => .ok (.tuple [.nat g, .bytes s], r2)
    | Option.none => .error .eof

/-- VariableItemRandomProperty (TBC, Wrath): u32 id, followed by a u32 suffix factor exactly when the id is not zero -/
def encVirp : Val → Option Bytes
  | .tuple [.nat id] => if id = 0 then encInt 4 .le 0 else Option.none
  | .tuple [.nat id, .nat sf] =>
      if id ≠ 0 then
        match encInt 4 .le id, encInt 4 .le sf with
        | some a, some b => some (a ++ b)
        | _, _ => Option.none
      else Option.none
  | _ => Option.none

def decVirp (bs : Bytes) : Except Err (Val × Bytes) :=
  match decInt 4 .le bs with
  | .error x => .error x
  | .ok (id, r) =>
    if id = 0 then .ok (.tuple [.nat id], r) else
    match decInt 4 .le r with
    | .ok (sf, r2) => .ok (.tuple [.nat id, .nat sf], r2)
    | .error x => .error x

def achDoneFields : List BLeaf := [.dt]
def achProgFields : List BLeaf := [.pg, .pg, .bool32, .dt, .u32, .u32]

def encPrim (name : String) (v : Val) : Option Bytes :=
  match primKind name, v with
  | .achDone, .list vs => encSent achDoneFields vs
  | .achProg, .list vs => encSent achProgFields vs
  | .splines, .list vs => encSplines vs
  | .updateMask, v => encUpdateMask v
  | .mask w ls, v => encMask w (tupleOf ls) v
  | .gear, v => encMask 4 encGear v
  | .namedGuid, v => encNamedGuid v
  | .virp, v => encVirp v
  | _, _ => Option.none

def decPrim (name : String) (bs : Bytes) : Except Err (Val × Bytes) :=
  match primKind name with
  | .achDone => match decSent achDoneFields (bs.length + 1) bs with
      | .ok (vs, r) => .ok (.list vs, r)
      | .error x => .error x
  | .achProg => match decSent achProgFields (bs.length + 1) bs with
      | .ok (vs, r) => .ok (.list vs, r)
      | .error x => .error x
  | .splines => match decSplines bs with
      | .ok (vs, r) => .ok (.list vs, r)
      | .error x => .error x
  | .updateMask => decUpdateMask bs
  | .mask w ls => decMask w (decTuple ls) bs
  | .gear => decMask 4 decGear bs
  | .namedGuid => decNamedGuid bs
  | .virp => decVirp bs
  | .other => .error (.unsupported name)

def encLeaf (l : Leaf) (v : Val) : Option Bytes :=
  match l, v with
  | .int k e, .nat n => encInt k e n
  | .bool k, .nat n => if n ≤ 1 then encInt k .le n else Option.none
  | .enumT k e vals, .nat n => if vals.contains n then encInt k e n else Option.none
  | .lvl k, .nat n => if n < 256 then encInt k .le n else Option.none
  | .dateTime, .nat n => if n < 4294967296 ∧ dateTimeValid n then encInt 4 .le n else Option.none
  | .cstring, .bytes s => if s.contains 0 then Option.none else some (s ++ [0])
  | .sizedCString, .bytes s =>
      if s.contains 0 then Option.none else (encInt 4 .le (s.length + 1)).map (· ++ s ++ [0])
  | .string, .bytes s => (encInt 1 .le s.length).map (· ++ s)
  | .packedGuid, .nat n =>
      if n < 256 ^ 8 then let (m, p) := packBytes (encLE 8 n); some (UInt8.ofNat (bitsToNat m) :: p) else Option.none
  | .prim name, v => encPrim name v
  | _, _ => Option.none

def decLeaf (l : Leaf) (bs : Bytes) : Except Err (Val × Bytes) :=
  match l with
  | .int k e => match decInt k e bs with
      | .ok (n, r) => .ok (.nat n, r)
      | .error x => .error x
  | .bool k => match decInt k .le bs with
      | .ok (n, r) => .ok (.nat (if n = 0 then 0 else 1), r)      -- "0 means false and all other values mean true"
      | .error x => .error x
  | .enumT k e vals => match decInt k e bs with
      | .ok (n, r) => if vals.contains n then .ok (.nat n, r) else .error (.enumValue n)
      | .error x => .error x
  | .lvl k => match decInt k .le bs with
      | .ok (n, r) => if n < 256 then .ok (.nat n, r) else .error (.level n)
      | .error x => .error x
  | .dateTime => match decInt 4 .le bs with
      | .ok (n, r) => if dateTimeValid n then .ok (.nat n, r) else .error (.dateTime n)
      | .error x => .error x
  | .cstring => match splitAtZero bs with
      | some (s, r) => .ok (.bytes s, r)
      | Option.none => .error .eof
  | .sizedCString => match decInt 4 .le bs with
      | .ok (n, r) =>
        if n = 0 then .error .string else
        if n ≤ r.length then
          let s := r.take (n - 1)
          if s.contains 0 then .error .string
          else if (r.drop (n - 1)).head? = some 0 then .ok (.bytes s, r.drop n) else .error .string
        else .error .eof
      | .error x => .error x
  | .string => match decInt 1 .le bs with
      | .ok (n, r) => if n ≤ r.length then .ok (.bytes (r.take n), r.drop n) else .error .eof
      | .error x => .error x
  | .packedGuid => match bs with
      | [] => .error .eof
      | m :: r => match unpackBytes (natToBits 8 m.toNat) r with
          | .ok (g, rest) => .ok (.nat (decLE g), rest)
          | .error x => .error x
  | .prim n => decPrim n bs

/-- a constant field always carries its constant -/
def roleOk (role : Role) (v : Val) : Bool :=
  match role, v with
  | .const c, .nat n => n == c
  | .const _, _ => false
  | _, _ => true

/-! ## encode -/

mutual
def encTy : Ty → Env → Val → Option Bytes
  | .leaf l, _, v => encLeaf l v
  | .struct ms, _, .tuple vs => (encMembers ms [] vs).map (·.1)
  | .arrFixed n t, env, .list vs => if vs.length = n then iterEnc (encTy t env) vs else Option.none
  | .arrVar var t, env, .list vs =>
      -- a counted array has exactly as many elements as its count field says
      if env.get var = some vs.length then iterEnc (encTy t env) vs else Option.none
  | _, _, _ => Option.none

def encMember : Member → Env → Val → Option (Bytes × Env)
  | .field id role t, env, v =>
      if roleOk role v then (encTy t env v).map fun b => (b, env.bind id v) else Option.none
  | .ifs var bs, env, .tuple vs =>
      match env.get var with
      | Option.none => Option.none
      | some x => encBranches bs x env vs
  | .endless _ t, env, .list vs => (iterEnc1 (encTy t env) vs).map fun b => (b, env)
  | .optional _, env, .none => some ([], env)
  | .optional ms, env, .tuple vs =>
      -- a present optional occupies at least one byte (otherwise it is indistinguishable from an absent one)
      match encMembers ms env vs with
      | some (x :: b, env') => some (x :: b, env')
      | _ => Option.none
  | _, _, _ => Option.none

def encBranches : Branches → Nat → Env → List Val → Option (Bytes × Env)
  | .els ms, _, env, vs => encMembers ms env vs
  | .cons c ms bs, x, env, vs => if c.holds x then encMembers ms env vs else encBranches bs x env vs

def encMembers : Members → Env → List Val → Option (Bytes × Env)
  | .nil, env, [] => some ([], env)
  | .cons (.field id .selfSize t) ms, env, v :: vs =>
      -- the value is the number of bytes of this object that follow the field
      match encMembers ms (env.bind id v) vs with
      | Option.none => Option.none
      | some (b2, env2) =>
        match v with
        | .nat n => if n = b2.length then (encTy t env v).map fun b1 => (b1 ++ b2, env2) else Option.none
        | _ => Option.none
  | .cons m ms, env, v :: vs =>
      match encMember m env v with
      | Option.none => Option.none
      | some (b1, env1) => match encMembers ms env1 vs with
          | Option.none => Option.none
          | some (b2, env2) => some (b1 ++ b2, env2)
  | _, _, _ => Option.none
end

/-! ## decode -/

mutual
def decTy : Ty → Env → Bytes → Except Err (Val × Bytes)
  | .leaf l, _, bs => decLeaf l bs
  | .struct ms, _, bs => match decMembers ms [] bs with
      | .ok (vs, _, r) => .ok (.tuple vs, r)
      | .error x => .error x
  | .arrFixed n t, env, bs => match iterDec (decTy t env) n bs with
      | .ok (vs, r) => .ok (.list vs, r)
      | .error x => .error x
  | .arrVar var t, env, bs => match env.get var with
      | Option.none => .error (.unboundVar var)
      | some n => match iterDec (decTy t env) n bs with
          | .ok (vs, r) => .ok (.list vs, r)
          | .error x => .error x

def decMember : Member → Env → Bytes → Except Err (Val × Env × Bytes)
  | .field id _ t, env, bs => match decTy t env bs with
      | .ok (v, r) => .ok (v, env.bind id v, r)
      | .error x => .error x
  | .ifs var bs, env, inp => match env.get var with
      | Option.none => .error (.unboundVar var)
      | some x => match decBranches bs x env inp with
          | .ok (vs, env', r) => .ok (.tuple vs, env', r)
          | .error e => .error e
  | .endless _ t, env, bs => match iterDecAll (decTy t env) bs.length bs with
      | .ok vs => .ok (.list vs, env, [])
      | .error x => .error x
  | .optional ms, env, bs =>
      if bs.isEmpty then .ok (.none, env, []) else
      match decMembers ms env bs with
      | .ok (vs, env', r) => .ok (.tuple vs, env', r)
      | .error x => .error x

def decBranches : Branches → Nat → Env → Bytes → Except Err (List Val × Env × Bytes)
  | .els ms, _, env, bs => decMembers ms env bs
  | .cons c ms bs', x, env, bs => if c.holds x then decMembers ms env bs else decBranches bs' x env bs

def decMembers : Members → Env → Bytes → Except Err (List Val × Env × Bytes)
  | .nil, env, bs => .ok ([], env, bs)
  | .cons m ms, env, bs => match decMember m env bs with
      | .error x => .error x
      | .ok (v, env1, r) => match decMembers ms env1 r with
          | .error x => .error x
          | .ok (vs, env2, r') => .ok (v :: vs, env2, r')
end

/-! ## well-formedness: endless arrays and optionals only in tail position -/
mutual
def tailFreeM : Member → Bool
  | .field _ _ _ => true
  | .ifs _ bs => tailFreeB bs
  | .endless _ _ => false
  | .optional _ => false
def tailFreeB : Branches → Bool
  | .els ms => tailFree ms
  | .cons _ ms bs => tailFree ms && tailFreeB bs
def tailFree : Members → Bool
  | .nil => true
  | .cons m ms => tailFreeM m && tailFree ms
end

mutual
def wfTy : Ty → Bool
  | .leaf _ => true
  | .struct ms => tailFree ms && wfMs ms
  | .arrFixed _ t => wfTy t
  | .arrVar _ t => wfTy t
def wfM : Member → Bool
  | .field _ _ t => wfTy t
  | .ifs _ bs => wfB bs
  | .endless _ t => wfTy t
  | .optional ms => wfMs ms
def wfB : Branches → Bool
  | .els ms => wfMs ms
  | .cons _ ms bs => wfMs ms && wfB bs
def wfMs : Members → Bool
  | .nil => true
  | .cons m .nil => wfM m
  | .cons m (.cons m' ms) => tailFreeM m && wfM m && wfMs (.cons m' ms)
end

/-- a container = the member list of a message / struct -/
def encode (c : Members) (vs : List Val) : Option Bytes := (encMembers c [] vs).map (·.1)

/-- decode a whole body: every byte must be consumed -/
def decode (c : Members) (bs : Bytes) : Except Err (List Val) :=
  match decMembers c [] bs with
  | .ok (vs, _, []) => .ok vs
  | .ok (_, _, r) => .error (.trailing r.length)
  | .error x => .error x

end WowVerif.Sem
