/-
C18 — annotated examples: the byte groups of an example are the input cut at the field boundaries the definition prescribes.
-/
import WowVerif.Model.Wireshark
namespace WowVerif.Example

/-- cut `bs` into consecutive groups of the given widths (what the example annotator prints, one group per field) -/
def splitBy : List Nat → Bytes → List Bytes
  | [], _ => []
  | w :: ws, bs => bs.take w :: splitBy ws (bs.drop w)

end WowVerif.Example
