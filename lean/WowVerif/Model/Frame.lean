/-
Model of world-message framing, code-shaped:
  wow_world_messages/src/traits/{vanilla,tbc,wrath}.rs   (server_size / client_size / write_unencrypted_*)
  wow_world_messages/src/util/trait_helpers/*.rs         (header byte layout, LARGE_MESSAGE_THRESHOLD)
  wow_world_messages/src/world/*/opcodes.rs              (opcode-enum readers: header parsing)
  wow_world_messages/src/helper/*/expected.rs            (typed expect helpers)
`u16`/`u32` arithmetic is `Nat` arithmetic with explicit outcomes: `as u16` truncates (`% 65536`), `+` on `u16` aborts on
overflow (debug/test profile), `saturating_sub` is truncated subtraction, `assert_eq!` aborts.
A message is an opcode and a body (the body codec is C01's business).
-/
namespace WowVerif.Frame

abbrev Bytes := List UInt8

inductive Exp where | vanilla | tbc | wrath
  deriving Repr, DecidableEq, Inhabited
inductive Dir where | client | server      -- client message (6 byte header) / server message (4 or 5 byte header)
  deriving Repr, DecidableEq, Inhabited

inductive Abort where
  | overflow          -- `u16` addition overflow
  | assertSize        -- `assert_eq!(size, v.len() as uN)` failed
  deriving Repr, DecidableEq

def b (n : Nat) : UInt8 := UInt8.ofNat n

/-! ## constants (util/trait_helpers) -/
def SIZE_LENGTH := 2
def SERVER_HEADER_LENGTH := 4
def CLIENT_HEADER_LENGTH := 6
def MINIMUM_SIZE_LENGTH := 2
def MAXIMUM_SIZE_LENGTH := 3
def MINIMUM_SERVER_HEADER_LENGTH := 4
def MAXIMUM_SERVER_HEADER_LENGTH := 5
def LARGE_MESSAGE_THRESHOLD := 0x7FFF

/-! ## writers -/

/-- `self.size_without_header() as u16 + HEADER` -/
def u16Total (bodyLen hdr : Nat) : Except Abort Nat :=
  let s := bodyLen % 65536
  if s + hdr < 65536 then .ok (s + hdr) else .error .overflow

/-- Wrath `server_size()` (u32; no overflow for bodies below 2^32 - 5) -/
def wrathServerSize (bodyLen : Nat) : Nat :=
  if bodyLen + MINIMUM_SIZE_LENGTH > LARGE_MESSAGE_THRESHOLD then bodyLen + MAXIMUM_SERVER_HEADER_LENGTH
  else bodyLen + MINIMUM_SERVER_HEADER_LENGTH

/-- `vanilla_get_unencrypted_server` / tbc: `[size_be(2), opcode_le(2)]`, size = total - 2 -/
def smallServerHeader (op total : Nat) : Bytes :=
  let f := total - SIZE_LENGTH
  [b (f / 256), b f, b op, b (op / 256)]

/-- `*_get_unencrypted_client`: `[size_be(2), opcode_le(4)]` -/
def clientHeader (op total : Nat) : Bytes :=
  let f := total - SIZE_LENGTH
  [b (f / 256), b f, b op, b (op / 256), b (op / 65536), b (op / 16777216)]

/-- `wrath_get_unencrypted_server` -/
def wrathServerHeader (op total : Nat) : Bytes :=
  if total > LARGE_MESSAGE_THRESHOLD + MINIMUM_SIZE_LENGTH then
    let f := total - MAXIMUM_SIZE_LENGTH
    [b ((f / 65536) % 256 ||| 0x80), b (f / 256), b f, b op, b (op / 256)]
  else
    let f := (total - MINIMUM_SIZE_LENGTH) % 65536
    [b (f / 256), b f, b op, b (op / 256)]

/-- `write_unencrypted_{server,client}` -/
def writeFrame (e : Exp) (d : Dir) (op : Nat) (body : Bytes) : Except Abort Bytes :=
  match e, d with
  | .wrath, .server =>
    let size := wrathServerSize body.length
    let v := wrathServerHeader op size ++ body
    if size % 4294967296 = v.length % 4294967296 then .ok v else .error .assertSize
  | _, .server =>
    match u16Total body.length SERVER_HEADER_LENGTH with
    | .error a => .error a
    | .ok size =>
      let v := smallServerHeader op size ++ body
      if size = v.length % 65536 then .ok v else .error .assertSize
  | _, .client =>
    match u16Total body.length CLIENT_HEADER_LENGTH with
    | .error a => .error a
    | .ok size =>
      let v := clientHeader op size ++ body
      if size = v.length % 65536 then .ok v else .error .assertSize

/-! ## readers -/

inductive RErr where
  | eof                -- `read_exact` hit the end of the stream
  deriving Repr, DecidableEq

inductive Api where | opcodeEnum | expect
  deriving Repr, DecidableEq, Inhabited

def take? (n : Nat) (bs : Bytes) : Except RErr (Bytes × Bytes) :=
  if n ≤ bs.length then .ok (bs.take n, bs.drop n) else .error .eof

/-- Header parsing of the readers; returns (opcode, body length, rest after header).
Both entry points perform the same arithmetic after the two `fix:` commits, the `Api` argument is kept so that the
correspondence exercises both. -/
def readHeader (_api : Api) (e : Exp) (d : Dir) (bs : Bytes) : Except RErr (Nat × Nat × Bytes) :=
  match d with
  | .client =>
    match take? 6 bs with
    | .error x => .error x
    | .ok (h, rest) =>
      let field := (h.getD 0 0).toNat * 256 + (h.getD 1 0).toNat
      let op := (h.getD 2 0).toNat + (h.getD 3 0).toNat * 256 + (h.getD 4 0).toNat * 65536 + (h.getD 5 0).toNat * 16777216
      .ok (op, field - 4, rest)
  | .server =>
    match take? 4 bs with
    | .error x => .error x
    | .ok (h, rest) =>
      if e = .wrath ∧ (h.getD 0 0).toNat ≥ 128 then
        match take? 1 rest with
        | .error x => .error x
        | .ok (l, rest') =>
          let field := ((h.getD 0 0).toNat % 128) * 65536 + (h.getD 1 0).toNat * 256 + (h.getD 2 0).toNat
          let op := (h.getD 3 0).toNat + (l.getD 0 0).toNat * 256
          .ok (op, field - 2, rest')
      else
        let field := (h.getD 0 0).toNat * 256 + (h.getD 1 0).toNat
        let op := (h.getD 2 0).toNat + (h.getD 3 0).toNat * 256
        .ok (op, field - 2, rest)

/-- one message off the stream: (opcode, body, remaining stream) -/
def readFrame (api : Api) (e : Exp) (d : Dir) (bs : Bytes) : Except RErr ((Nat × Bytes) × Bytes) :=
  match readHeader api e d bs with
  | .error x => .error x
  | .ok (op, n, rest) =>
    match take? n rest with
    | .error x => .error x
    | .ok (body, rest') => .ok ((op, body), rest')

/-- read `k` messages -/
def readN (api : Api) (e : Exp) (d : Dir) : Nat → Bytes → Except RErr (List (Nat × Bytes) × Bytes)
  | 0, bs => .ok ([], bs)
  | k + 1, bs =>
    match readFrame api e d bs with
    | .error x => .error x
    | .ok (m, rest) =>
      match readN api e d k rest with
      | .error x => .error x
      | .ok (ms, rest') => .ok (m :: ms, rest')

/-- concatenation of written messages; `none` if a write aborts -/
def writeAll (e : Exp) (d : Dir) : List (Nat × Bytes) → Option Bytes
  | [] => some []
  | (op, body) :: ms =>
    match writeFrame e d op body, writeAll e d ms with
    | .ok v, some r => some (v ++ r)
    | _, _ => none

/-- largest body the header form of this expansion/direction can express -/
def maxBody (e : Exp) (d : Dir) : Nat :=
  match e, d with
  | .wrath, .server => 0x7FFFFF - 2
  | _, .server => 0xFFFF - 2
  | _, .client => 0xFFFF - 4

/-- largest body for which the *current code* writes without aborting (u16 arithmetic on the total size) -/
def maxBodyCode (e : Exp) (d : Dir) : Nat :=
  match e, d with
  | .wrath, .server => 0x7FFFFF - 2
  | _, .server => 65535 - 4
  | _, .client => 65535 - 6

def opcodeLen (d : Dir) : Nat := match d with | .client => 4 | .server => 2

end WowVerif.Frame
