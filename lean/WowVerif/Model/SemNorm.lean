/-
Normal form of closed containers used to compare the program translated from the generated Rust READERS (tools/rust_codec.py)
with the program translated from the wowm definitions (tools/corpus.py / codec_spec.py).

The generator prints a conditional over an enum-typed member as a Rust `match` with one arm per declared enumerator; the wowm text
has a chain `if (x == A || x == B) … else if (x != C) … else …`.  `expandMs` rewrites every chain whose variable is known to be an
enum-validated member (so its value is one of the declared enumerators) into that per-enumerator shape: one arm `x == v` per
declared value `v`, carrying the members of the first arm of the original chain that holds for `v`.  Chains over other variables
(flags) stay as they are.  `Thm/C01b.lean` proves that the rewriting does not change the decoder or the encoder.
-/
import WowVerif.Model.Sem
namespace WowVerif.Sem

deriving instance DecidableEq for Ty, Member, Members, Branches

/-- the declared values of the enum-validated members in scope, most recent first -/
abbrev Dom := List (Nat × List Nat)

def Dom.drop (dom : Dom) (id : Nat) : Dom := dom.filter (fun p => p.1 != id)

/-- the members of the first arm of a chain that holds for `x` -/
def selectB : Branches → Nat → Members
  | .els ms, _ => ms
  | .cons c ms bs, x => if c.holds x then ms else selectB bs x

/-- one arm per declared value -/
def armsFor (bs : Branches) : List Nat → Branches
  | [] => .els .nil
  | v :: vs => .cons (.eq [v]) (selectB bs v) (armsFor bs vs)

mutual
/-- ids bound by the members (any branch) -/
def boundM : Member → List Nat
  | .field id _ _ => [id]
  | .ifs _ bs => boundB bs
  | .endless _ _ => []
  | .optional ms => boundMs ms
def boundB : Branches → List Nat
  | .els ms => boundMs ms
  | .cons _ ms bs => boundMs ms ++ boundB bs
def boundMs : Members → List Nat
  | .nil => []
  | .cons m ms => boundM m ++ boundMs ms
end

def Dom.dropAll (dom : Dom) (ids : List Nat) : Dom := dom.filter (fun p => !ids.contains p.1)

/-- what is known about the variables after member `m` -/
def Dom.after (dom : Dom) : Member → Dom
  | .field id .selfSize _ => dom.drop id
  | .field id _ (.leaf (.enumT _ _ vals)) => (id, vals) :: dom
  | .field id _ _ => dom.drop id
  | m => dom.dropAll (boundM m)

mutual
def expandTy : Ty → Ty
  | .leaf l => .leaf l
  | .struct ms => .struct (expandMs [] ms)
  | .arrFixed n t => .arrFixed n (expandTy t)
  | .arrVar v t => .arrVar v (expandTy t)
def expandM (dom : Dom) : Member → Member
  | .field id r t => .field id r (expandTy t)
  | .ifs var bs =>
      match dom.lookup var with
      | some vals => .ifs var (armsFor (expandB dom bs) vals)
      | none => .ifs var (expandB dom bs)
  | .endless id t => .endless id (expandTy t)
  | .optional ms => .optional (expandMs dom ms)
def expandB (dom : Dom) : Branches → Branches
  | .els ms => .els (expandMs dom ms)
  | .cons c ms bs => .cons c (expandMs dom ms) (expandB dom bs)
def expandMs (dom : Dom) : Members → Members
  | .nil => .nil
  | .cons m ms => .cons (expandM dom m) (expandMs (dom.after m) ms)
end

/-! readers do not validate constants or `self.size` fields: the reader program is compared with the role-erased normal form -/
mutual
def eraseTy : Ty → Ty
  | .leaf l => .leaf l
  | .struct ms => .struct (eraseMs ms)
  | .arrFixed n t => .arrFixed n (eraseTy t)
  | .arrVar v t => .arrVar v (eraseTy t)
def eraseM : Member → Member
  | .field id _ t => .field id .plain (eraseTy t)
  | .ifs var bs => .ifs var (eraseB bs)
  | .endless id t => .endless id (eraseTy t)
  | .optional ms => .optional (eraseMs ms)
def eraseB : Branches → Branches
  | .els ms => .els (eraseMs ms)
  | .cons c ms bs => .cons c (eraseMs ms) (eraseB bs)
def eraseMs : Members → Members
  | .nil => .nil
  | .cons m ms => .cons (eraseM m) (eraseMs ms)
end

/-- the comparison the driver evaluates for a translated WRITER (roles kept) -/
def writerMatches (spec rust : Members) : Bool := decide (expandMs [] spec = rust)

/-- … and for a translated READER of the same definition (roles erased) -/
def readerMatchesE (spec rust : Members) : Bool := decide (eraseMs (expandMs [] spec) = rust)

/-- the comparison the driver evaluates: the reader program (from Rust) is the per-enumerator normal form of the specification program -/
def readerMatches (spec rust : Members) : Bool := decide (expandMs [] spec = rust)

end WowVerif.Sem
