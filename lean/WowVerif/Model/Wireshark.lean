/-
C17 — the generated Wireshark dissector fragments as programs, and an interpreter for them.
A `case` body of `parser.txt` is a block of statements over a cursor: fixed-width fields (`ptvcursor_add`), fields whose
value is kept in a variable (`ptvcursor_add_ret_uint`), the string / packed-guid helpers, counted loops, "until the end of
the packet" loops, optional tails and if / else-if / else chains on kept variables.  `run` walks a byte string and returns
the list of (width, encoding) it consumed and what is left.  `trMembers` is the specification side: the (width, encoding)
list that the wowm definition prescribes for a value, in definition order.
-/
import WowVerif.Model.Sem
namespace WowVerif.Wireshark
open WowVerif.Sem (Ty Member Members Branches Leaf Val Env Role Endian)

inductive Enc where | le | be | na
  deriving Repr, DecidableEq, Inhabited

inductive WCond where
  | eq (var : Nat) (vals : List Nat)
  | ne (var v : Nat)
  | band (var : Nat) (masks : List Nat)
  | s2c
  deriving Repr, Inhabited

mutual
inductive Stmt where
  | add (n : Nat) (e : Enc)
  | addv (var : Nat) (e : Enc)
  | addrest (e : Enc)
  | ret (n : Nat) (e : Enc) (var : Nat)
  | cstr | scstr | str | pguid
  | prim (name : String)
  | forc (n : Nat) (body : Block)
  | forv (var : Nat) (body : Block)
  | whileNotEnd (body : Block)
  | ifrest (body : Block)
  | ifs (arms : Arms)
  | ver (cases : Cases)
inductive Block where
  | nil
  | cons (s : Stmt) (b : Block)
inductive Arms where
  | els (b : Block)
  | cons (c : WCond) (b : Block) (rest : Arms)
inductive Cases where
  | nil
  | cons (n : Nat) (b : Block) (rest : Cases)
end

inductive WErr where
  | eof
  | unbound (var : Nat)
  | noProgress
  | unsupported (what : String)
  | noCase (version : Nat)
  deriving Repr, DecidableEq, Inhabited

abbrev Trace := List (Nat × Enc)

structure St where
  env : List (Nat × Nat) := []
  rest : Bytes := []
  trace : Trace := []        -- most recent first
  deriving Repr, Inhabited

structure Ctx where
  s2c : Bool
  version : Nat := 0

def take (n : Nat) (e : Enc) (st : St) : Except WErr (Bytes × St) :=
  if n ≤ st.rest.length then .ok (st.rest.take n, { st with rest := st.rest.drop n, trace := (n, e) :: st.trace })
  else .error .eof

def valOf (e : Enc) (bs : Bytes) : Nat := match e with | .be => decBE bs | _ => decLE bs

def WCond.holds (ctx : Ctx) (env : List (Nat × Nat)) : WCond → Except WErr Bool
  | .s2c => .ok ctx.s2c
  | .eq v vals => match env.lookup v with | some x => .ok (vals.contains x) | none => .error (.unbound v)
  | .ne v a => match env.lookup v with | some x => .ok (x != a) | none => .error (.unbound v)
  | .band v ms => match env.lookup v with | some x => .ok (ms.any fun m => x &&& m != 0) | none => .error (.unbound v)

def popCount8 (b : Nat) : Nat := (List.range 8).foldl (fun a i => a + (b / 2 ^ i) % 2) 0

def zeroIndex : Bytes → Option Nat
  | [] => none
  | b :: bs => if b == 0 then some 0 else (zeroIndex bs).map (· + 1)

def iterN (f : St → Except WErr St) : Nat → St → Except WErr St
  | 0, st => .ok st
  | n + 1, st => match f st with
      | .error x => .error x
      | .ok st' => iterN f n st'

/-- `while (offset < end)`: every round must consume something -/
def iterWhile (f : St → Except WErr St) : Nat → St → Except WErr St
  | fuel, st =>
    if st.rest.isEmpty then .ok st else
    match fuel with
    | 0 => .error .noProgress
    | fuel + 1 => match f st with
        | .error x => .error x
        | .ok st' => if st'.rest.length < st.rest.length then iterWhile f fuel st' else .error .noProgress

mutual
def runStmt (ctx : Ctx) : Stmt → St → Except WErr St
  | .add n e, st => (take n e st).map (·.2)
  | .addv v e, st => match st.env.lookup v with
      | some n => (take n e st).map (·.2)
      | none => .error (.unbound v)
  | .addrest e, st => (take st.rest.length e st).map (·.2)
  | .ret n e v, st => match take n e st with
      | .error x => .error x
      | .ok (bs, st') => .ok { st' with env := (v, valOf e bs) :: st'.env }
  | .cstr, st => match zeroIndex st.rest with
      | some k => (take (k + 1) .na st).map (·.2)
      | none => .error .eof
  | .scstr, st =>
      if 4 ≤ st.rest.length then (take (4 + decLE (st.rest.take 4)) .na st).map (·.2) else .error .eof
  | .str, st =>
      if 1 ≤ st.rest.length then (take (1 + decLE (st.rest.take 1)) .na st).map (·.2) else .error .eof
  | .pguid, st =>
      if 1 ≤ st.rest.length then (take (1 + popCount8 (decLE (st.rest.take 1))) .na st).map (·.2) else .error .eof
  | .prim name, _ => .error (.unsupported name)
  | .forc n body, st => iterN (runBlock ctx body) n st
  | .forv v body, st => match st.env.lookup v with
      | some n => iterN (runBlock ctx body) n st
      | none => .error (.unbound v)
  | .whileNotEnd body, st => iterWhile (runBlock ctx body) st.rest.length st
  | .ifrest body, st => if st.rest.isEmpty then .ok st else runBlock ctx body st
  | .ifs arms, st => runArms ctx arms st
  | .ver cases, st => runCases ctx cases st
def runBlock (ctx : Ctx) : Block → St → Except WErr St
  | .nil, st => .ok st
  | .cons s b, st => match runStmt ctx s st with
      | .error x => .error x
      | .ok st' => runBlock ctx b st'
def runArms (ctx : Ctx) : Arms → St → Except WErr St
  | .els b, st => runBlock ctx b st
  | .cons c b rest, st => match c.holds ctx st.env with
      | .error x => .error x
      | .ok true => runBlock ctx b st
      | .ok false => runArms ctx rest st
def runCases (ctx : Ctx) : Cases → St → Except WErr St
  | .nil, _ => .error (.noCase ctx.version)
  | .cons n b rest, st => if n = ctx.version then runBlock ctx b st else runCases ctx rest st
end

/-- walk `bs`: the fields consumed in order, and the bytes left over -/
def run (ctx : Ctx) (p : Block) (bs : Bytes) : Except WErr (Trace × Bytes) :=
  match runBlock ctx p { rest := bs } with
  | .error x => .error x
  | .ok st => .ok (st.trace.reverse, st.rest)

/-! ## the specification side: what the definition prescribes -/

def encOf : Leaf → Enc
  | .int k e => if k ≤ 1 then .na else match e with | .le => .le | .be => .be
  | .bool k => if k ≤ 1 then .na else .le
  | .enumT k e _ => if k ≤ 1 then .na else match e with | .le => .le | .be => .be
  | .lvl _ => .le
  | .dateTime => .le
  | _ => .na

def isByte : Ty → Bool
  | .leaf (.int 1 _) => true
  | _ => false

def iterTr (f : Val → Option Trace) : List Val → Option Trace
  | [] => some []
  | v :: vs => match f v, iterTr f vs with
      | some a, some b => some (a ++ b)
      | _, _ => none

mutual
def trTy : Ty → Env → Val → Option Trace
  | .leaf l, _, v => (Sem.encLeaf l v).map fun b => [(b.length, encOf l)]
  | .struct ms, _, .tuple vs => (trMembers ms [] vs).map (·.1)
  | .arrFixed _ t, env, .list vs => if isByte t then some [(vs.length, .na)] else iterTr (trTy t env) vs
  | .arrVar _ t, env, .list vs => if isByte t then some [(vs.length, .na)] else iterTr (trTy t env) vs
  | _, _, _ => none
def trMember : Member → Env → Val → Option (Trace × Env)
  | .field id _ t, env, v => (trTy t env v).map fun tr => (tr, env.bind id v)
  | .ifs var bs, env, .tuple vs => match env.get var with
      | none => none
      | some x => trBranches bs x env vs
  | .endless _ t, env, .list vs => if isByte t then some ([(vs.length, .na)], env) else (iterTr (trTy t env) vs).map fun tr => (tr, env)
  | .optional _, env, .none => some ([], env)
  | .optional ms, env, .tuple vs => trMembers ms env vs
  | _, _, _ => none
def trBranches : Branches → Nat → Env → List Val → Option (Trace × Env)
  | .els ms, _, env, vs => trMembers ms env vs
  | .cons c ms bs, x, env, vs => if c.holds x then trMembers ms env vs else trBranches bs x env vs
def trMembers : Members → Env → List Val → Option (Trace × Env)
  | .nil, env, [] => some ([], env)
  | .cons m ms, env, v :: vs => match trMember m env v with
      | none => none
      | some (t1, env1) => match trMembers ms env1 vs with
          | none => none
          | some (t2, env2) => some (t1 ++ t2, env2)
  | _, _, _ => none
end

/-- 1-byte fields carry no endianness; otherwise width and encoding must coincide -/
def entryEq (a b : Nat × Enc) : Bool := a.1 == b.1 && (a.1 ≤ 1 || a.2 == b.2)

def traceEq : Trace → Trace → Bool
  | [], [] => true
  | a :: as, b :: bs => entryEq a b && traceEq as bs
  | _, _ => false

end WowVerif.Wireshark
