/-
Model of the UpdateMask bookkeeping (wow_world_messages/src/helper/update_mask_common/{mod,inners}.rs).
State of an `Update<Kind>` value: the header bit set, the dirty bit set (both `Vec<u32>` blocks in the code; here the
set of set bit indices plus the common block count), and the `BTreeMap<u16, u32>` of values (here an association list
sorted by key).  The bit-vector representation itself is tied by the correspondence (checks/c13.py), not proved.
-/
import WowVerif.Model.Bytes
namespace WowVerif.UpdateMask

structure UM where
  nblocks : Nat
  header : List Nat
  dirty : List Nat
  values : List (Nat × Nat)
  deriving Repr, DecidableEq, Inhabited

/-- `BTreeMap::insert` on a key-sorted association list -/
def insertSorted (k v : Nat) : List (Nat × Nat) → List (Nat × Nat)
  | [] => [(k, v)]
  | (k', v') :: r => if k < k' then (k, v) :: (k', v') :: r else if k = k' then (k, v) :: r else (k', v') :: insertSorted k v r

def lookup (k : Nat) : List (Nat × Nat) → Option Nat
  | [] => none
  | (k', v') :: r => if k = k' then some v' else lookup k r

/-- `Update<Kind>::new()`: OBJECT_FIELD_TYPE (bit 2) = OBJECT | type value; `from_inners` copies the header into dirty -/
def new (typeValue : Nat) : UM := { nblocks := 1, header := [2], dirty := [2], values := [(2, typeValue)] }

/-- `header_set(values, header, Some(dirty), bit, value)`: insert the value, set the header bit and the dirty bit
(`array_set` grows both block vectors to `bit / 32 + 1`) -/
def setBit (s : UM) (bit v : Nat) : UM :=
  { nblocks := max s.nblocks (bit / 32 + 1), header := bit :: s.header, dirty := bit :: s.dirty, values := insertSorted bit v s.values }

/-- `set_guid`: lower half at `bit`, upper half at `bit + 1` -/
def setGuid (s : UM) (bit lo hi : Nat) : UM := setBit (setBit s bit lo) (bit + 1) hi

def dirtyReset (s : UM) : UM := { s with dirty := [] }
def markFullyDirty (s : UM) : UM := { s with dirty := List.range (32 * s.nblocks) }

def get (s : UM) (bit : Nat) : Option Nat := lookup bit s.values

inductive Op where
  | set (bit v : Nat)
  | guid (bit lo hi : Nat)
  | dirtyReset
  | markFullyDirty
  deriving Repr, DecidableEq, Inhabited

def step (s : UM) : Op → UM
  | .set b v => setBit s b v
  | .guid b lo hi => setGuid s b lo hi
  | .dirtyReset => dirtyReset s
  | .markFullyDirty => markFullyDirty s

/-- a field is on the wire iff its header bit and its dirty bit are set -/
def sent (s : UM) (b : Nat) : Bool := s.header.contains b && s.dirty.contains b

/-- mask block `i`: bit `j` set iff field `32 i + j` is sent -/
def block (s : UM) (i : Nat) : Nat :=
  (List.range 32).foldl (fun acc j => if sent s (32 * i + j) then acc + 2 ^ j else acc) 0

/-- `write_into_vec`: block count, the masked blocks, then the values of sent fields in ascending index order
(the code iterates the BTreeMap and tests both bits) -/
def write (s : UM) : Bytes :=
  [UInt8.ofNat s.nblocks] ++ (List.range s.nblocks).flatMap (fun i => encLE 4 (block s i))
    ++ (s.values.filter (fun kv => sent s kv.1)).flatMap (fun kv => encLE 4 kv.2)

/-- `update_mask_size`: 1 + 4 * blocks + 4 * popcount(header & dirty) -/
def size (s : UM) : Nat :=
  1 + 4 * s.nblocks + 4 * ((List.range (32 * s.nblocks)).filter (fun b => sent s b)).length

end WowVerif.UpdateMask
