/-
C19 — cfg model: feature formulas, guarded items and their references.
An item (module, function, use statement, path occurrence) is compiled iff its guard — the conjunction of the `#[cfg(..)]`
attributes on the path from the crate root — holds under the chosen feature set.  A configuration builds (as far as name
resolution across cfg boundaries is concerned) iff every compiled item only refers to compiled items.
-/
namespace WowVerif.Cfg

inductive F where
  | tt
  | feat (n : Nat)
  | not (f : F)
  | and (a b : F)
  | or (a b : F)
  deriving Repr, DecidableEq, Inhabited

def eval (env : Nat → Bool) : F → Bool
  | .tt => true
  | .feat n => env n
  | .not f => !eval env f
  | .and a b => eval env a && eval env b
  | .or a b => eval env a || eval env b

/-- all features mentioned are below `n` -/
def below (n : Nat) : F → Bool
  | .tt => true
  | .feat k => decide (k < n)
  | .not f => below n f
  | .and a b => below n a && below n b
  | .or a b => below n a && below n b

/-- a reference: the guard at the use site and the guard of the thing referred to -/
structure Ref where
  site : F
  target : F
  deriving Repr, Inhabited

/-- an assignment of the first `n` features as a list of booleans -/
def envOf (l : List Bool) : Nat → Bool := fun k => l.getD k false

/-- all `2^n` assignments of `n` features -/
def allEnvs : Nat → List (List Bool)
  | 0 => [[]]
  | n + 1 => (allEnvs n).flatMap (fun l => [l ++ [false], l ++ [true]])

/-- Cargo's feature table: enabling feature `a` enables feature `b` -/
abbrev Implied := List (Nat × Nat)
def consistent (imp : Implied) (env : Nat → Bool) : Bool := imp.all (fun ab => !env ab.1 || env ab.2)

/-- the reference is safe under `env`: if the site is compiled, so is the target -/
def refOk (env : Nat → Bool) (r : Ref) : Bool := !eval env r.site || eval env r.target

/-- the checker: every reference is safe under each of the `2^n` feature assignments that respects the feature table -/
def checkAll (n : Nat) (imp : Implied) (refs : List Ref) : Bool :=
  (allEnvs n).all (fun l => !consistent imp (envOf l) || refs.all (refOk (envOf l)))

def wellFormed (n : Nat) (imp : Implied) (refs : List Ref) : Bool :=
  refs.all (fun r => below n r.site && below n r.target) && imp.all (fun ab => decide (ab.1 < n) && decide (ab.2 < n))

end WowVerif.Cfg
