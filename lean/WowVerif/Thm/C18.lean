/-
C18 — examples: cutting a byte sequence at the definition's field boundaries loses and invents nothing.
-/
import WowVerif.Model.Example
namespace WowVerif.Example

/-- **the groups concatenate to the annotated prefix**; when the widths add up to the length (the walk ended at the end,
cf. C17 `run_accounts`) they concatenate to the whole example -/
theorem splitBy_flatten (ws : List Nat) (bs : Bytes) : (splitBy ws bs).flatten = bs.take ws.sum := by
  induction ws generalizing bs with
  | nil => simp [splitBy]
  | cons w ws ih =>
    simp only [splitBy, List.flatten_cons, ih, List.sum_cons]
    rw [List.take_add]

theorem splitBy_all (ws : List Nat) (bs : Bytes) (h : ws.sum = bs.length) : (splitBy ws bs).flatten = bs := by
  rw [splitBy_flatten, h, List.take_length]

/-- each group has the width of its field as long as the input is long enough -/
theorem splitBy_lengths (ws : List Nat) (bs : Bytes) (h : ws.sum ≤ bs.length) : (splitBy ws bs).map List.length = ws := by
  induction ws generalizing bs with
  | nil => simp [splitBy]
  | cons w ws ih =>
    simp only [List.sum_cons] at h
    simp only [splitBy, List.map_cons, List.length_take]
    rw [ih (bs.drop w) (by simp; omega)]
    congr 1
    omega

example : splitBy [1, 1, 4] [1, 0, 239, 190, 173, 222] = [[1], [0], [239, 190, 173, 222]] := by rfl

end WowVerif.Example

open WowVerif.Example in
#print axioms splitBy_all
open WowVerif.Example in
#print axioms splitBy_lengths
