/-
C05 — header encryption is transparent for whole message sequences.
For ANY cipher satisfying the coupling law (`Cipher.step`), any session state, any expansion / direction / reader entry
point and any finite sequence of messages: the encrypted writers change only header bytes, and the decrypting readers
return exactly the messages the plain readers return on the plain stream, with both cipher states still coupled —
including Wrath's variable-length server header (decrypt four bytes, inspect the decrypted marker, decrypt a fifth).
-/
import WowVerif.Model.FrameEnc
import WowVerif.Thm.C02
namespace WowVerif.Frame

variable (C : Cipher)

theorem encBytes_length (e : C.E) (bs : Bytes) : (encBytes C e bs).2.length = bs.length := by
  induction bs generalizing e with
  | nil => rfl
  | cons b bs ih => simp [encBytes, ih]

theorem encBytes_append (e : C.E) (a b : Bytes) :
    encBytes C e (a ++ b) = ((encBytes C (encBytes C e a).1 b).1, (encBytes C e a).2 ++ (encBytes C (encBytes C e a).1 b).2) := by
  induction a generalizing e with
  | nil => simp [encBytes]
  | cons x a ih => simp [encBytes, ih]

/-- decrypting an encrypted byte string returns it and keeps the states coupled -/
theorem dec_enc (e : C.E) (d : C.D) (bs : Bytes) (h : C.R e d) :
    (decBytes C d (encBytes C e bs).2).2 = bs ∧ C.R (encBytes C e bs).1 (decBytes C d (encBytes C e bs).2).1 := by
  induction bs generalizing e d with
  | nil => exact ⟨rfl, h⟩
  | cons b bs ih =>
    obtain ⟨h1, h2⟩ := C.step e d b h
    obtain ⟨i1, i2⟩ := ih (C.enc e b).1 (C.dec d (C.enc e b).2).1 h2
    simp only [encBytes, decBytes]
    exact ⟨by rw [h1, i1], i2⟩

/-- shapes of written headers, as the decrypting reader distinguishes them -/
def hdrShape (x : Exp) (dir : Dir) (hdr : Bytes) : Prop :=
  (dir = .client ∧ hdr.length = 6) ∨
  (dir = .server ∧ hdr.length = 4 ∧ ¬ (x = .wrath ∧ (hdr.getD 0 0).toNat ≥ 128)) ∨
  (x = .wrath ∧ dir = .server ∧ hdr.length = 5 ∧ (hdr.getD 0 0).toNat ≥ 128)

private theorem take?_app (n : Nat) (xs rest : Bytes) (h : xs.length = n) : take? n (xs ++ rest) = .ok (xs, rest) := by
  subst h; simp [take?]

/-- the decrypting reader on an encrypted header = the plain reader on the plain header -/
theorem readFrameEnc_plain (e : C.E) (d : C.D) (hR : C.R e d) (api : Api) (x : Exp) (dir : Dir) (hdr tail : Bytes)
    (hs : hdrShape x dir hdr) (r : (Nat × Bytes) × Bytes) (hp : readFrame api x dir (hdr ++ tail) = .ok r) :
    ∃ d', readFrameEnc C d api x dir ((encBytes C e hdr).2 ++ tail) = .ok (r, d') ∧ C.R (encBytes C e hdr).1 d' := by
  have hlen := encBytes_length C e hdr
  obtain ⟨hd1, hd2⟩ := dec_enc C e d hdr hR
  rcases hs with ⟨hdir, hl⟩ | ⟨hdir, hl, hno⟩ | ⟨hx, hdir, hl, hge⟩
  · subst hdir
    refine ⟨(decBytes C d (encBytes C e hdr).2).1, ?_, hd2⟩
    simp only [readFrameEnc]
    rw [take?_app 6 _ _ (by rw [hlen, hl])]
    simp only [hd1]
    rw [if_neg (by intro h; exact absurd h.2.1 (by decide))]
    rw [hp]
  · subst hdir
    refine ⟨(decBytes C d (encBytes C e hdr).2).1, ?_, hd2⟩
    simp only [readFrameEnc]
    rw [take?_app 4 _ _ (by rw [hlen, hl])]
    simp only [hd1]
    rw [if_neg (by intro h; exact hno ⟨h.1, h.2.2⟩)]
    rw [hp]
  · subst hx; subst hdir
    -- split the five header bytes into four and one
    obtain ⟨a, hdr'⟩ : ∃ a, ∃ g, hdr = a ++ [g] ∧ a.length = 4 := by
      match hdr, hl with
      | [a, b, c, f, g], _ => exact ⟨[a, b, c, f], g, rfl, rfl⟩
    obtain ⟨g, hh, ha⟩ := hdr'
    subst hh
    have happ := encBytes_append C e a [g]
    have ⟨k1, k2⟩ := dec_enc C e d a hR
    have ⟨m1, m2⟩ := dec_enc C (encBytes C e a).1 (decBytes C d (encBytes C e a).2).1 [g] k2
    have hla := encBytes_length C e a
    have hlg := encBytes_length C (encBytes C e a).1 [g]
    have hfirst : ((a ++ [g]).getD 0 0) = a.getD 0 0 := by
      match a, ha with
      | [_, _, _, _], _ => rfl
    rw [hfirst] at hge
    refine ⟨(decBytes C (decBytes C d (encBytes C e a).2).1 (encBytes C (encBytes C e a).1 [g]).2).1, ?_, ?_⟩
    · simp only [readFrameEnc]
      rw [happ]
      simp only [List.append_assoc]
      rw [take?_app 4 _ _ (by rw [hla, ha])]
      simp only [k1]
      rw [if_pos ⟨trivial, trivial, hge⟩]
      rw [take?_app 1 _ _ (by rw [hlg]; rfl)]
      simp only [m1]
      rw [List.append_assoc] at hp
      rw [hp]
    · rw [happ]; exact m2

/-- headers written by the code have one of the three shapes -/
theorem written_hdrShape (x : Exp) (dir : Dir) (op : Nat) (body : Bytes) (hb : body.length ≤ maxBodyCode x dir) (hop : op < opBound dir)
    (hdr : Bytes) (hw : writeFrame x dir op body = .ok (hdr ++ body)) : hdrShape x dir hdr := by
  cases dir with
  | client =>
    have hb' : body.length ≤ 65529 := by cases x <;> simpa [maxBodyCode] using hb
    have := writeFrame_client x op body hb'
    rw [this] at hw
    have : hdr = clientHeader op (body.length + 6) := by
      have := (List.append_left_inj body).mp (Except.ok.inj hw).symm
      exact this
    left
    exact ⟨rfl, by rw [this]; simp [clientHeader]⟩
  | server =>
    by_cases hx : x = .wrath
    · subst hx
      have hb' : body.length ≤ 8388605 := by simpa [maxBodyCode] using hb
      have hwr := writeFrame_wrath_server op body hb'
      rw [hwr] at hw
      have heq : hdr = wrathServerHeader op (wrathServerSize body.length) :=
        ((List.append_left_inj body).mp (Except.ok.inj hw)).symm
      by_cases hl : body.length + 2 > 32767
      · obtain ⟨h1, h2⟩ := wrath_large op body.length hl
        right; right
        rw [heq, h1, h2]
        have := (dec3 (body.length + 2) (by omega)).2
        exact ⟨rfl, rfl, rfl, by simpa using this⟩
      · obtain ⟨h1, h2⟩ := wrath_small op body.length hl
        right; left
        rw [heq, h1, h2]
        refine ⟨rfl, rfl, ?_⟩
        intro h
        have := h.2
        simp only [List.getD_cons_zero, b_toNat] at this
        omega
    · have hb' : body.length ≤ 65531 := by cases x <;> first | (exact absurd rfl hx) | simpa [maxBodyCode] using hb
      have hwr := writeFrame_small_server x hx op body hb'
      rw [hwr] at hw
      have heq := ((List.append_left_inj body).mp (Except.ok.inj hw)).symm
      right; left
      exact ⟨rfl, by rw [heq]; rfl, fun h => hx h.1⟩

/-- **C05 (one message)**: the encrypted frame differs from the plain frame only in its header bytes, the decrypting
reader returns the written message and leaves the rest of the stream, and the cipher states stay coupled. -/
theorem enc_read_write (e : C.E) (d : C.D) (hR : C.R e d) (x : Exp) (dir : Dir) (api : Api) (op : Nat) (body rest : Bytes)
    (hb : body.length ≤ maxBodyCode x dir) (hop : op < opBound dir) :
    ∃ e' hdr chdr d', writeFrame x dir op body = .ok (hdr ++ body) ∧
      writeFrameEnc C e x dir op body = .ok (e', chdr ++ body) ∧ chdr.length = hdr.length ∧
      readFrameEnc C d api x dir (chdr ++ body ++ rest) = .ok (((op, body), rest), d') ∧ C.R e' d' := by
  obtain ⟨hdr, hw, _, hr⟩ := write_ok_partial x dir api op body rest hb hop
  have hs := written_hdrShape x dir op body hb hop hdr hw
  have hplain : readFrame api x dir (hdr ++ (body ++ rest)) = .ok ((op, body), rest) := by
    rw [← List.append_assoc]
    simp only [readFrame, hr]
    have : take? body.length (body ++ rest) = .ok (body, rest) := by simp [take?]
    rw [this]
  obtain ⟨d', hrd, hR'⟩ := readFrameEnc_plain C e d hR api x dir hdr (body ++ rest) hs _ hplain
  refine ⟨(encBytes C e hdr).1, hdr, (encBytes C e hdr).2, d', hw, ?_, encBytes_length C e hdr, ?_, hR'⟩
  · simp only [writeFrameEnc, hw]
    have h1 : (hdr ++ body).length - body.length = hdr.length := by simp
    rw [h1]
    simp
  · rw [List.append_assoc]; exact hrd

/-- encrypted stream of a message list, threading the encrypter state -/
def writeAllEnc (e : C.E) (x : Exp) (dir : Dir) : List (Nat × Bytes) → Option (C.E × Bytes)
  | [] => some (e, [])
  | (op, body) :: ms =>
    match writeFrameEnc C e x dir op body with
    | .error _ => none
    | .ok (e1, c) => match writeAllEnc e1 x dir ms with
      | none => none
      | some (e2, cs) => some (e2, c ++ cs)

def readNEnc (d : C.D) (api : Api) (x : Exp) (dir : Dir) : Nat → Bytes → Except RErr ((List (Nat × Bytes) × Bytes) × C.D)
  | 0, bs => .ok (([], bs), d)
  | k + 1, bs =>
    match readFrameEnc C d api x dir bs with
    | .error r => .error r
    | .ok ((m, rest), d1) =>
      match readNEnc d1 api x dir k rest with
      | .error r => .error r
      | .ok ((ms, rest'), d2) => .ok ((m :: ms, rest'), d2)

/-- **C05 (sequences)**: for every finite sequence of messages the peer's decrypting reader returns the same sequence,
positioned at the end of the stream, with both cipher states in step (induction over the sequence). -/
theorem enc_stream (e : C.E) (d : C.D) (hR : C.R e d) (x : Exp) (dir : Dir) (api : Api) (ms : List (Nat × Bytes)) (rest : Bytes)
    (h : ∀ m ∈ ms, m.2.length ≤ maxBodyCode x dir ∧ m.1 < opBound dir) :
    ∃ e' s d', writeAllEnc C e x dir ms = some (e', s) ∧ readNEnc C d api x dir ms.length (s ++ rest) = .ok ((ms, rest), d') ∧ C.R e' d' := by
  induction ms generalizing e d with
  | nil => exact ⟨e, [], d, rfl, rfl, hR⟩
  | cons m ms ih =>
    obtain ⟨op, body⟩ := m
    have hm := h (op, body) List.mem_cons_self
    -- the tail stream is needed as `rest` of the first message: obtain it from the induction hypothesis later
    obtain ⟨e1, hdr, chdr, _, _, hwe, _, _, _⟩ := enc_read_write C e d hR x dir api op body [] hm.1 hm.2
    -- run the first message with the actual remaining stream
    have key : ∀ tail, ∃ d1, readFrameEnc C d api x dir (chdr ++ body ++ tail) = .ok (((op, body), tail), d1) ∧ C.R e1 d1 := by
      intro tail
      obtain ⟨e1', hdr', chdr', d1, hw', hwe', _, hrd, hR1⟩ := enc_read_write C e d hR x dir api op body tail hm.1 hm.2
      rw [hwe] at hwe'
      have heq := Except.ok.inj hwe'
      have he : e1 = e1' := (Prod.mk.inj heq).1
      have hc : chdr = chdr' := (List.append_left_inj body).mp (Prod.mk.inj heq).2
      subst he; subst hc
      exact ⟨d1, hrd, hR1⟩
    -- induction hypothesis for the remaining messages from an arbitrary coupled state
    have hrest := fun d1 (hR1 : C.R e1 d1) => ih e1 d1 hR1 (fun m hm' => h m (List.mem_cons_of_mem _ hm'))
    -- pick the coupled state after the first message (with the true tail)
    obtain ⟨d0, _, hR0⟩ := key []
    obtain ⟨e2, s, _, hws, _, _⟩ := hrest d0 hR0
    obtain ⟨d1, hrd1, hR1⟩ := key (s ++ rest)
    obtain ⟨e2', s', d2, hws', hrs, hR2⟩ := hrest d1 hR1
    rw [hws] at hws'
    have heq := Option.some.inj hws'
    have he2 : e2 = e2' := (Prod.mk.inj heq).1
    have hs' : s = s' := (Prod.mk.inj heq).2
    subst he2; subst hs'
    refine ⟨e2, chdr ++ body ++ s, d2, ?_, ?_, hR2⟩
    · simp only [writeAllEnc, hwe, hws]
    · simp only [List.length_cons, readNEnc, List.append_assoc] at hrd1 ⊢
      rw [hrd1]
      simp only [hrs]

/-! ### non-vacuity: a concrete cipher of the Vanilla header shape satisfies the coupling law -/
/-- the shape of the Vanilla header cipher (wow_srp `vanilla_header`): c = (b xor key[i]) + previous -/
def vanillaLike (key : List UInt8) : Cipher where
  E := Nat × UInt8
  D := Nat × UInt8
  enc := fun (i, prev) b => let c := (b ^^^ key.getD (i % key.length) 0) + prev; ((i + 1, c), c)
  dec := fun (i, prev) c => let b := (c - prev) ^^^ key.getD (i % key.length) 0; ((i + 1, c), b)
  R := fun e d => e = d
  step := by
    intro e d b h
    subst h
    obtain ⟨i, prev⟩ := e
    simp only
    refine ⟨?_, trivial⟩
    rw [UInt8.add_sub_cancel, UInt8.xor_assoc, UInt8.xor_self, UInt8.xor_zero]

example : (decBytes (vanillaLike [7, 9, 200]) (0, 0) (encBytes (vanillaLike [7, 9, 200]) (0, 0) [1, 2, 3, 250]).2).2 = [1, 2, 3, 250] := by decide

end WowVerif.Frame

open WowVerif.Frame in
#print axioms dec_enc
open WowVerif.Frame in
#print axioms readFrameEnc_plain
open WowVerif.Frame in
#print axioms enc_read_write
open WowVerif.Frame in
#print axioms enc_stream
